"""C06 - serializer preferences do exactly what they document (structural parts)."""
from __future__ import annotations

import ast
import re

from sa.core import AnalysisError, call_name, const, text

SER = 'cssutils/serialize.py'
LAYOUT = {'indent', 'indentClosingBrace', 'lineSeparator', 'listItemSpacer', 'paranthesisSpacer', 'propertyNameSpacer', 'selectorCombinatorSpacer', 'spacer'}


def run(chk):
    chk.attempt(r06a, chk)
    chk.attempt(r06b, chk)
    from .c16 import r16b
    from .c18 import r18a, r18d

    chk.attempt(r16b, chk, 'R06.c')
    chk.attempt(r18d, chk, 'R06.d')
    chk.attempt(r18a, chk, 'R06.e')
    chk.attempt(r06f, chk)
    chk.attempt(r06g, chk)
    from .c13 import r13h

    chk.attempt(r13h, chk, 'R06.h')
    chk.attempt(r06i, chk)
    chk.attempt(r06j, chk)
    chk.attempt(r06k, chk)
    chk.attempt(r06l, chk)


def pref_sets(repo):
    m = repo.mod(SER)
    cls = m.get('Preferences', ast.ClassDef)
    doc = ast.get_docstring(cls) or ''
    documented = set(re.findall(r'^(\w+) = ', doc, flags=re.M))

    def assigned(fn):
        d = {t.attr: n.value for n in ast.walk(fn) if isinstance(n, ast.Assign) for t in n.targets if isinstance(t, ast.Attribute) and text(t.value) == 'self'}
        if len(d) >= 5:
            return d
        # not written as plain assignments (a table and setattr, say): evaluate the method on an empty model object
        from sa.absint import Evaluator, Obj, Raised

        me = Obj()
        r = Evaluator(fn, module=m, cls='Preferences').run(self=me)
        if isinstance(r, Raised):
            raise AnalysisError(f'Preferences.{fn.name}: {r!r}')
        out = {}
        for k, v in vars(me).items():
            if k.startswith('_'):
                continue
            try:
                out[k] = ast.parse(repr(v), mode='eval').body
            except SyntaxError:
                raise AnalysisError(f'Preferences.{fn.name}: value of {k} has no literal form')
        return out

    defaults = assigned(m.get('Preferences.useDefaults'))
    minified = assigned(m.get('Preferences.useMinified'))
    reads = {}
    for rel, mod in repo.modules.items():
        if rel in ('cssutils/sac.py', 'cssutils/css/cssvalue.py', 'conftest.py'):
            continue
        for n in ast.walk(mod.tree):
            if isinstance(n, ast.Attribute) and isinstance(n.ctx, ast.Load) and isinstance(n.value, ast.Attribute) and n.value.attr == 'prefs':
                reads.setdefault(n.attr, []).append((rel, mod.qualname_of(n)))
    return m, documented, defaults, minified, reads


def r06a(chk, rid='R06.a'):
    chk.rule(rid, 'preference vocabulary agreement: the names documented in the Preferences docstring, assigned in useDefaults, assigned in useMinified and read as prefs.X anywhere in the package satisfy documented = defaults, minified ⊆ defaults (so restoring the defaults restores every preference the preset touches), reads ⊆ defaults (no read of an undefined preference) and every default is read somewhere (no dead preference)')
    m, documented, defaults, minified, reads = pref_sets(chk.repo)
    if len(defaults) < 24 or len(documented) < 24:
        raise AnalysisError(f'preferences not recognised: {len(documented)} documented, {len(defaults)} defaults')
    chk.extra['preferences'] = sorted(defaults)
    for n in sorted(documented | set(defaults)):
        chk.ob(rid, SER, 'Preferences', f'{n} is documented and has a default', n in documented and n in defaults,
               ('documented but never given a default' if n not in defaults else 'has a default but is not documented'))
    for n in sorted(minified):
        chk.ob(rid, SER, 'Preferences.useMinified', f'{n} is reset by useDefaults', n in defaults, 'useDefaults() after useMinified() leaves this preference changed: the default output is not restored')
    for n in sorted(reads):
        if n.startswith('use') or n.startswith('__'):
            continue
        chk.ob(rid, reads[n][0][0], reads[n][0][1], f'prefs.{n} is a defined preference', n in defaults, 'AttributeError at serialisation time (or a silently ignored option)', trivial=True)
    for n in sorted(defaults):
        chk.ob(rid, SER, 'Preferences.useDefaults', f'{n} is consulted by the serializer', n in reads, 'the documented preference has no effect')
    # the minified preset only uses values of the documented kinds
    for n, v in sorted(minified.items()):
        dv = defaults.get(n)
        same_kind = dv is None or type(const(v, default=object)) is type(const(dv, default=object)) or const(dv) is None or isinstance(dv, ast.BinOp)
        chk.ob(rid, SER, 'Preferences.useMinified', f'{n} = {text(v)} has the kind of its default', same_kind, f'default is {text(dv)}', trivial=True)


def r06b(chk, rid='R06.b'):
    chk.rule(rid, 'layout preferences never select content: a branch whose condition reads a pure layout preference (indent, indentClosingBrace, lineSeparator, the spacer strings) contains no `continue`, no `return` of an empty value and no deletion - it can only add or remove white space; content filters are separate preferences')
    m = chk.repo.mod(SER)
    n_cond = 0
    for q, fn in m.functions():
        for node in ast.walk(fn):
            if not isinstance(node, (ast.If, ast.IfExp)):
                continue
            prefs = {a.attr for a in ast.walk(node.test) if isinstance(a, ast.Attribute) and isinstance(a.value, ast.Attribute) and a.value.attr == 'prefs'}
            lay = prefs & LAYOUT
            if not lay or (prefs - LAYOUT):
                continue
            if m.enclosing_def(node) is not fn:
                continue
            n_cond += 1
            if isinstance(node, ast.IfExp):
                chk.ob(rid, SER, q, f'`{text(node.test)[:60]}` selects between two strings', True)
                continue
            bad = []
            for st in node.body + node.orelse:
                for s in ast.walk(st):
                    if isinstance(s, ast.Continue) or isinstance(s, ast.Delete):
                        bad.append(text(s))
                    if isinstance(s, ast.Return) and (s.value is None or (isinstance(s.value, ast.Constant) and not s.value.value)):
                        bad.append(text(s))
                    if isinstance(s, ast.Call) and (call_name(s).startswith('self.do_') or (isinstance(s.func, ast.Attribute) and s.func.attr in ('cssText', 'pop', 'remove', 'clear'))):
                        bad.append(text(s)[:40])
            chk.ob(rid, SER, q, f'`if {text(node.test)[:70]}` only affects white space', not bad, f'under a layout preference: {bad} - tokens of the output would depend on layout settings')
    if n_cond < 4:
        raise AnalysisError(f'only {n_cond} layout conditions found (>= 4 confirmed by hand)')


def r06f(chk, rid='R06.f'):
    chk.rule(rid, 'the preferences that select declarations, decided by evaluation: CSSSerializer.do_css_CSSStyleDeclaration is evaluated on its syntax tree over five model blocks (comment, repeated declarations of one name with !important in front, behind, twice and between plain ones, another declaration, a nested unknown at-rule, a declaration that serialises to nothing; the effective declaration of a name is its last !important one, else its last) for every combination of keepAllProperties, keepComments, keepUnknownAtRules, omitLastSemicolon and the omit argument: exactly the effective declarations (all of them under keepAllProperties) are written, in order, separated by semicolons; comments exactly under keepComments; the preferences do not interfere with each other')
    chk.assume('R06.f: properties, comments and unknown rules are model objects with a fixed cssText, name and priority; getProperties of the model block answers with the prescribed view (R10.c decides that the real one does)')
    import itertools

    from sa.absint import Evaluator, Raised, Record

    m = chk.repo.mod(SER)
    fn = m.get('CSSSerializer.do_css_CSSStyleDeclaration')

    class PropM(Record):
        pass

    class CommM(Record):
        pass

    class UnkM(Record):
        pass

    def P(name, val, prio=''):
        return PropM(cssText=f'{name}:{val}' + (' !important' if prio else ''), name=name, literalname=name, priority=prio, value=val, literalpriority=prio, wellformed=True, valid=True)

    def effective(props):
        last = {}
        for p_ in props:
            cur = last.get(p_.name)
            if cur is None or not cur.priority or p_.priority:
                last[p_.name] = p_
        return [p_ for p_ in props if last[p_.name] is p_]

    blocks = {
        'plain': [P('a', 1), P('b', 2), P('a', 3)],
        'important first': [P('a', 1, 'important'), P('b', 2), P('a', 3)],
        'important last': [P('a', 1), P('b', 2), P('a', 3, 'important')],
        'two important': [P('a', 1, 'important'), P('b', 2), P('a', 3, 'important')],
        'important between': [P('a', 1), P('a', 2, 'important'), P('b', 2), P('a', 3)],
    }
    n = 0
    bad = []
    for bname, props in blocks.items():
        empty = PropM(cssText='', name='e', literalname='e', priority='', value='', literalpriority='', wellformed=True, valid=True)
        for layout in ('comment first', 'comment and unknown rule last'):
            if layout == 'comment first':
                items = [Record(value=CommM(cssText='/*c*/')), Record(value=props[0])] + [Record(value=p_) for p_ in props[1:-1]] + [Record(value=UnkM(cssText='@x;')), Record(value=props[-1]), Record(value=empty)]
            else:
                items = [Record(value=empty)] + [Record(value=p_) for p_ in props] + [Record(value=UnkM(cssText='@x;')), Record(value=CommM(cssText='/*c*/'))]
            eff = effective(props + [empty])

            def get_properties(name=None, all=False, props=props, empty=empty, eff=eff):  # noqa: A002
                sel = (props + [empty]) if all else eff
                return [p_ for p_ in sel if name is None or p_.name == name]

            style = Record(seq=items, getProperties=get_properties, getProperty=lambda name, eff=eff: ([p_ for p_ in eff if p_.name == name] or [None])[0])
            for keepall, keepc, keepu, omitlast, omit in itertools.product((True, False), repeat=5):
                prefs = Record(keepAllProperties=keepall, keepComments=keepc, keepUnknownAtRules=keepu, omitLastSemicolon=omitlast, lineSeparator='\n')
                intr = {'cssutils': Record(css=Record(Property=PropM, CSSComment=CommM, CSSUnknownRule=UnkM))}
                got = Evaluator(fn, intrinsics=intr, module=m, cls='CSSSerializer', model_types=(PropM, CommM, UnkM)).run(self=Record(prefs=prefs), style=style, separator=None, omit=omit)
                n += 1
                label = f'{bname} ({layout}): keepAllProperties={keepall} keepComments={keepc} keepUnknownAtRules={keepu} omitLastSemicolon={omitlast} omit={omit}'
                if isinstance(got, Raised) or not isinstance(got, str):
                    bad.append(f'{label}: {got!r}')
                    continue
                lines = [x for x in got.split('\n') if x]
                written = [x.rstrip(';') for x in lines if x[:2] in ('a:', 'b:')]
                want = [p_.cssText for p_ in (props if keepall else eff) if p_.cssText]
                probs = []
                if written != want:
                    probs.append(f'declarations {written}, prescribed {want}')
                if ('/*c*/' in lines) != keepc:
                    probs.append('comment ' + ('dropped' if keepc else 'kept'))
                unterminated = [x for x in lines[:-1] if x[:2] in ('a:', 'b:') and not x.endswith(';')]
                if unterminated:
                    probs.append(f'no semicolon after {unterminated}')
                if probs:
                    bad.append(f'{label}: ' + '; '.join(probs))
    chk.extra['declaration_preference_cases'] = n
    chk.ob(rid, SER, 'CSSSerializer.do_css_CSSStyleDeclaration', f'all {n} preference combinations select and separate the declarations as documented', not bad, f'{len(bad)} combinations differ, e.g. ' + ' | '.join(bad[:2]))


def out_model(chk, ser):
    """`Out(ser)` whose append/value are the source's own Out.append / Out.value, evaluated."""
    from sa.absint import Evaluator, Raised, Record

    m = chk.repo.mod(SER)
    me = Record(ser=ser, out=[])
    hm = chk.repo.mod('cssutils/helper.py')

    def helper_fn(name):
        f = hm.get(name)

        def run(v):
            res = Evaluator(f, module=hm).run(**{f.args.args[0].arg: v})
            if isinstance(res, Raised):
                raise AnalysisError(f'helper.{name}: {res!r}')
            return res
        return run

    intr = {'helper': Record(string=helper_fn('string'), uri=helper_fn('uri'))}

    def call(name, *a, **k):
        fn = m.get(f'Out.{name}')
        params = [x.arg for x in fn.args.args][1:]
        kw_ = dict(zip(params, a))
        kw_.update(k)
        res = Evaluator(fn, intrinsics=intr, module=m, cls='Out').run(self=me, **kw_)
        if isinstance(res, Raised):
            raise AnalysisError(f'Out.{name}: {res!r}')
        return res

    me.append = lambda *a, **k: call('append', *a, **k)
    me.value = lambda *a, **k: call('value', *a, **k)
    return me


def r06g(chk, rid='R06.g'):
    chk.rule(rid, 'spacer preferences change white space only where it carries no meaning, decided by evaluation: CSSSerializer.do_css_Selector and the Out class it writes through (append, value, _remove_last_if_S - all evaluated from the source) are run for selectors with descendant, child and sibling combinators in front of type, class and attribute selectors, under every combination of an empty or one-space spacer and selectorCombinatorSpacer: the descendant combinator is always written as white space, the other combinators are enclosed in selectorCombinatorSpacer, nothing else changes')
    chk.assume('R06.g: Out.append / value / _remove_last_if_S are evaluated from the source; helper.string and helper.uri likewise')
    import itertools

    from sa.absint import Evaluator, Raised, Record

    m = chk.repo.mod(SER)
    fn = m.get('CSSSerializer.do_css_Selector')

    def it(t, v):
        return Record(type=t, value=v)

    sels = {
        'a [x]': [it('type-selector', (None, 'a')), it('descendant', ' '), it('attribute-start', '['), it('attribute-selector', (None, 'x')), it('attribute-end', ']')],
        'a b': [it('type-selector', (None, 'a')), it('descendant', ' '), it('type-selector', (None, 'b'))],
        'a .c': [it('type-selector', (None, 'a')), it('descendant', ' '), it('class', '.c')],
        'a>b': [it('type-selector', (None, 'a')), it('child', '>'), it('type-selector', (None, 'b'))],
        'a+b [y]': [it('type-selector', (None, 'a')), it('adjacent-sibling', '+'), it('type-selector', (None, 'b')), it('descendant', ' '), it('attribute-start', '['), it('attribute-selector', (None, 'y')), it('attribute-end', ']')],
        'a[x] [y]': [it('type-selector', (None, 'a')), it('attribute-start', '['), it('attribute-selector', (None, 'x')), it('attribute-end', ']'), it('descendant', ' '), it('attribute-start', '['), it('attribute-selector', (None, 'y')), it('attribute-end', ']')],
    }
    n = 0
    bad = []
    for (label, seq), spacer, scs in itertools.product(sels.items(), ('', ' '), ('', ' ')):
        prefs = Record(spacer=spacer, selectorCombinatorSpacer=scs, keepComments=True, indentClosingBrace=False, listItemSpacer=' ', propertyNameSpacer=' ', paranthesisSpacer=' ', lineSeparator='\n')
        ser = Record(prefs=prefs, _level=0)
        ns = Record(get=lambda k, d=None: None, prefixForNamespaceURI=lambda u: 'p')
        selector = Record(wellformed=True, seq=seq, _namespaces=ns)
        intr = {'Out': lambda s: out_model(chk, s), 'cssutils': Record(_ANYNS='ANY')}
        got = Evaluator(fn, intrinsics=intr, module=m, cls='CSSSerializer').run(self=ser, selector=selector)
        n += 1
        want = ''
        for x in seq:
            v = x.value[1] if isinstance(x.value, tuple) else x.value
            want += ' ' if x.type == 'descendant' else (scs + v + scs if v in '+>~' else v)
        if got != want:
            bad.append(f'{label!r} with spacer={spacer!r}, selectorCombinatorSpacer={scs!r} is written {got!r}, prescribed {want!r}')
    chk.extra['selector_spacing_cases'] = n
    chk.ob(rid, SER, 'Out.append', f'all {n} selector / spacer combinations keep the descendant combinator', not bad, f'{len(bad)} differ, e.g. ' + ' | '.join(bad[:2]) + ' - without the blank the selector means something else')


def r06i(chk, rid='R06.i'):
    chk.rule(rid, 'serialised text is computed, never kept: outside serialize.py every call of a serializer method (cssutils.ser.do_*) stands in a function or lambda that stores nothing on its receiver (no attribute or item of `self`), and its result is not bound to anything but a local that is returned - the text a DOM object shows is a function of its content and the preferences in force at the time of the call, so a preference changed between two reads always shows')
    sites = 0
    for rel, m in chk.repo.modules.items():
        if rel in (SER, 'cssutils/sac.py') or '/tests/' in rel or rel.startswith('examples/'):
            continue
        for n in ast.walk(m.tree):
            if not (isinstance(n, ast.Call) and re.match(r'^(cssutils\.)?ser\.do_\w+$', call_name(n))):
                continue
            sites += 1
            fn = m.enclosing_def(n)
            # innermost function or lambda
            p = m.parents.get(n)
            holder = None
            while p is not None:
                if isinstance(p, (ast.Lambda, ast.FunctionDef)):
                    holder = p
                    break
                p = m.parents.get(p)
            if holder is None:
                continue
            q = m.qualname_of(n)
            stores = []
            for x in ast.walk(holder):
                tg = []
                if isinstance(x, ast.Assign):
                    tg = x.targets
                elif isinstance(x, (ast.AugAssign, ast.AnnAssign)):
                    tg = [x.target]
                for t in tg:
                    for t2 in (t.elts if isinstance(t, (ast.Tuple, ast.List)) else [t]):
                        base = t2
                        while isinstance(base, (ast.Attribute, ast.Subscript)):
                            base = base.value
                        if isinstance(t2, (ast.Attribute, ast.Subscript)) and isinstance(base, ast.Name) and base.id == 'self':
                            stores.append(text(x)[:60])
                if isinstance(x, ast.Call) and isinstance(x.func, ast.Attribute) and x.func.attr in ('setdefault', 'update', '__setitem__', 'append') and text(x.func.value).startswith('self.') and x is not n:
                    stores.append(text(x)[:60])
            chk.ob(rid, rel, q, f'`{text(n)[:50]}` is computed on every read (the function stores nothing on its receiver)', not stores,
                   f'stores {stores[:2]}: a text served from a cache ignores preferences changed since it was built (keepComments, spacers, useMinified/useDefaults) - the serialisation is no longer a function of content and preferences', trivial=True)
    if sites < 30:
        raise AnalysisError(f'only {sites} serializer calls found in the DOM classes (30+ confirmed by hand)')
    chk.extra['serializer_call_sites'] = sites


def r06j(chk, rid='R06.j'):
    chk.rule(rid, 'dropping comments drops exactly the comments, decided by evaluation: CSSSerializer.do_CSSComment is evaluated for empty, plain and `/*!` comments with keepComments on and off - the text is written iff the preference is on; CSSSerializer.do_stylesheets_mediaquery, writing through the source\'s own Out class, is evaluated for a media query with a comment between its words, in front of them and behind them: with keepComments off the words of the query are all still there and still separated, with it on the comment stands between them')
    from sa.absint import Evaluator, Raised, Record

    m = chk.repo.mod(SER)
    fn = m.get('CSSSerializer.do_CSSComment')
    for txt in ('/*a*/', '/*! licence */', '/**/', '/*!*/', ''):
        for keep in (True, False):
            got = Evaluator(fn, module=m, cls='CSSSerializer').run(self=Record(prefs=Record(keepComments=keep)), rule=Record(_cssText=txt, cssText=txt))
            want = txt if keep else ''
            chk.ob(rid, SER, 'CSSSerializer.do_CSSComment', f'comment {txt!r} with keepComments={keep} is written as {want!r}', got == want, f'written as {got!r}: a comment survives keepComments=False (and the minified preset), or is lost although comments are kept', trivial=True)
    mq = m.get('CSSSerializer.do_stylesheets_mediaquery')
    for keep in (True, False):
        prefs = Record(spacer=' ', selectorCombinatorSpacer=' ', keepComments=keep, indentClosingBrace=False, listItemSpacer=' ', propertyNameSpacer=' ', paranthesisSpacer=' ', lineSeparator='\n', minimizeColorHash=True)
        ser = Record(prefs=prefs, _level=0)

        class CommentM(Record):
            @property
            def cssText(self):
                return Evaluator(fn, module=m, cls='CSSSerializer').run(self=ser, rule=Record(_cssText='/*c*/'))

        for label, items in (('between the words', [('IDENT', 'print'), (CommentM, CommentM()), ('IDENT', 'and'), ('CHAR', '('), ('IDENT', 'color'), ('CHAR', ')')]),
                             ('in front', [(CommentM, CommentM()), ('IDENT', 'print'), ('IDENT', 'and'), ('CHAR', '('), ('IDENT', 'color'), ('CHAR', ')')]),
                             ('behind', [('IDENT', 'print'), ('IDENT', 'and'), ('CHAR', '('), ('IDENT', 'color'), ('CHAR', ')'), (CommentM, CommentM())])):
            query = Record(wellformed=True, seq=[Record(type=t, value=v) for t, v in items])
            got = Evaluator(mq, intrinsics={'Out': lambda s: out_model(chk, s)}, module=m, cls='CSSSerializer', model_types=(CommentM,)).run(self=ser, mediaquery=query)
            words = got.replace('/*c*/', ' /*c*/ ').split() if isinstance(got, str) else None
            want = [v if isinstance(v, str) else '/*c*/' for _, v in items if isinstance(v, str) or keep]
            want = ' '.join(want).replace('( color )', '(color)').split()
            ok = words is not None and ' '.join(words).replace('( ', '(').replace(' )', ')').split() == want
            chk.ob(rid, SER, 'CSSSerializer.do_stylesheets_mediaquery', f'comment {label}, keepComments={keep}: the query is written as `{" ".join(want)}` (white space aside)', ok, f'written as {got!r}: dropping the comment joins or loses the words around it')


def r06k(chk, rid='R06.k'):
    chk.rule(rid, 'the white space around the operators of calc() carries meaning and survives every spacer setting, decided by evaluation: CSSSerializer.do_css_CSSCalc, writing through the source\'s own Out class, is evaluated for calc(1px + 2px), calc(1px - 2px), calc(1px * 2) and calc(1px / 2) under an empty and a one-space spacer: `+` and `-` are written with white space on both sides (without it the reader takes the sign for part of the number and the declaration is lost), the operands and operators are all there, in order')
    from sa.absint import Evaluator, Raised, Record

    m = chk.repo.mod(SER)
    fn = m.get('CSSSerializer.do_css_CSSCalc')

    class ValueM(Record):
        @property
        def cssText(self):
            return self.text_

    class CommentM(Record):
        pass

    for op in '+-*/':
        for spacer in ('', ' '):
            prefs = Record(spacer=spacer, selectorCombinatorSpacer=spacer, keepComments=True, indentClosingBrace=False, listItemSpacer=spacer, propertyNameSpacer=spacer, paranthesisSpacer=spacer, lineSeparator='\n', minimizeColorHash=True)
            ser = Record(prefs=prefs, _level=0)
            items = [Record(type='FUNCTION', value='calc('), Record(type='DIMENSION', value=ValueM(text_='1px')), Record(type='CHAR', value=op), Record(type='DIMENSION', value=ValueM(text_='2px')), Record(type='CHAR', value=')')]
            got = Evaluator(fn, intrinsics={'Out': lambda s: out_model(chk, s), 'cssutils': Record(css=Record(CSSComment=CommentM))}, module=m, cls='CSSSerializer', model_types=(ValueM,)).run(self=ser, cssvalue=Record(seq=items), valuesOnly=False)
            ok = isinstance(got, str) and got.replace(' ', '') == f'calc(1px{op}2px)' and (op in '*/' or f'1px {op} 2px' in got)
            chk.ob(rid, SER, 'CSSSerializer.do_css_CSSCalc', f'calc(1px {op} 2px) with spacer {spacer!r} keeps its operands' + (' and the white space around the operator' if op in '+-' else ''), ok,
                   f'written as {got!r}: under the minified preferences the expression no longer parses as calc() and the declaration is lost on reparse')


def default_prefs(chk):
    """A preferences object with every preference at its default: Preferences.useDefaults, evaluated."""
    from sa.absint import Evaluator, Raised, Record

    m = chk.repo.mod(SER)
    p = Record()
    r = Evaluator(m.get('Preferences.useDefaults'), module=m, cls='Preferences').run(self=p)
    if isinstance(r, Raised):
        raise AnalysisError(f'Preferences.useDefaults: {r!r}')
    return p


def r06l(chk, rid='R06.l'):
    chk.rule(rid, 'the spelling preferences of a declaration change spelling only, decided by evaluation: CSSSerializer.do_Property (with _propertyname and _valid resolved in the class) is evaluated for a declaration with comments inside its name part and inside its priority, written in upper case, under every combination of defaultPropertyName and defaultPropertyPriority: the comments, the value and the order of the parts are the same in all four; only the name and the priority word switch between the normalised and the literal spelling')
    import itertools

    from sa.absint import Evaluator, Raised, Record

    m = chk.repo.mod(SER)
    fn = m.get('CSSSerializer.do_Property')

    class CommentM(Record):
        @property
        def cssText(self):
            return self.text_

    c1, c2 = CommentM(text_='/*n*/'), CommentM(text_='/*why*/')
    prop = Record(seqs=[['COLOR', c1], Record(cssText='red'), ['!', c2, 'IMPORTANT']], wellformed=True, valid=True, literalname='COLOR', name='color', literalpriority='IMPORTANT', priority='important', _mediaQuery=False, parent=None)
    for dname, dprio in itertools.product((True, False), repeat=2):
        prefs = default_prefs(chk)
        prefs.defaultPropertyName, prefs.defaultPropertyPriority = dname, dprio
        got = Evaluator(fn, module=m, cls='CSSSerializer', model_types=(CommentM,)).run(self=Record(prefs=prefs), property=prop)
        want = 'color/*n*/: red !/*why*/' + ('important' if dprio else 'IMPORTANT')
        ok = isinstance(got, str) and got.replace('COLOR', 'color', 1) == want  # which spelling of the name is written also depends on keepAllProperties
        chk.ob(rid, SER, 'CSSSerializer.do_Property', f'defaultPropertyName={dname}, defaultPropertyPriority={dprio}: the declaration is written as `{want}` (name in either spelling)', ok, f'written as {got!r}: a comment or part of the declaration depends on a spelling preference')
