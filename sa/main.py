"""CLI: ./check <ID> [--tier quick|thorough] [--replay file]"""
import argparse
import importlib
import os
import sys
import traceback

from . import core


def run(pid, tier, replay=None):
    try:
        repo = core.Repo()
        mod = importlib.import_module(f'rules.{pid.lower()}')
        chk = core.Check(pid, tier, repo)
        mod.run(chk)
        if not chk.obs:
            raise core.AnalysisError('no obligation was generated')
        if replay:
            import json

            want = json.load(open(replay))['key']
            hits = [o for o in chk.obs if o['key'] == want]
            if not hits:
                print(f'replay: construct no longer present: {want}')
                return 0
            bad = [o for o in hits if not o['ok']]
            for o in bad:
                print(f"FINDING {o['rule']} {o['file']}:{o['where']}: {o['construct']} :: {o['detail']}")
                print(f'VIOLATION property={pid} replay={replay}')
            return 1 if bad else 0
        seed = int(os.environ.get('VERIF_SEED', '0') or 0)
        return core.finish(chk, seed)
    except core.AnalysisError as e:
        print(f'ANALYSIS-ERROR property={pid}: {e}')
        # obligations that were already decided as failing stand on their own:
        # report them (exit 1) instead of hiding them behind the analysis error
        try:
            if 'chk' in locals() and not replay:
                known = {k['key'] for k in core.load_known() if k['property'] == pid and k.get('status') == 'known'}
                if any((not o['ok']) and o['key'] not in known for o in chk.obs):
                    chk.extra['analysis_error'] = str(e)
                    return core.finish(chk, int(os.environ.get('VERIF_SEED', '0') or 0))
        except Exception:
            traceback.print_exc()
        return 2
    except Exception:
        print(f'ANALYSIS-ERROR property={pid}: internal error')
        traceback.print_exc()
        return 2


def main():
    ap = argparse.ArgumentParser()
    ap.add_argument('pid')
    ap.add_argument('--tier', default=os.environ.get('VERIF_TIER') or 'quick')
    ap.add_argument('--replay')
    a = ap.parse_args()
    sys.exit(run(a.pid.upper(), a.tier, a.replay))


if __name__ == '__main__':
    main()
