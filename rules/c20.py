"""C20 - encutils reports the document encoding by the documented precedence."""
from __future__ import annotations

import ast
import itertools
import re

from sa import cfg as cfgmod
from sa.absint import Evaluator, Opaque, Record
from sa.cfg import ENTRY, EXIT_RET
from sa.core import AnalysisError, call_name, const, literal, text

ENC = 'encutils/__init__.py'

MEDIA_CLASSES = {
    # media type -> class of the property statement
    'application/xml': 'appxml', 'application/xml-dtd': 'appxml', 'application/xml-external-parsed-entity': 'appxml',
    'application/atom+xml': 'appxml', 'application/xhtml+xml': 'appxml', 'APPLICATION/XML': 'appxml',
    'text/xml': 'textxml', 'text/xml-external-parsed-entity': 'textxml', 'text/foo+xml': 'textxml',
    'text/html': 'html', 'text/css': 'css', 'text/plain': 'text', 'text/javascript': 'text',
    'image/png': 'other', 'application/octet-stream': 'other', 'application/xmlfoo': 'other', 'texthtml': 'other',
    # structured +xml subtypes of the vendor and personal trees
    'application/vnd.mozilla.xul+xml': 'appxml', 'application/prs.a+b+xml': 'appxml', 'text/vnd.example.doc+xml': 'textxml',
}
DEFAULTS = {'appxml': 'utf-8', 'textxml': 'ascii', 'html': 'iso-8859-1', 'text': 'iso-8859-1', 'css': 'utf-8', 'other': None}


def run(chk):
    chk.attempt(r20a, chk)
    chk.attempt(r20b, chk)
    chk.attempt(r20c, chk)
    chk.attempt(r20e, chk)
    chk.attempt(r20f, chk)


def _consts(m):
    out = {}
    for st in m.tree.body:
        if isinstance(st, ast.Assign) and isinstance(st.value, ast.Constant) and isinstance(st.targets[0], ast.Name) and st.targets[0].id.startswith('_') and st.targets[0].id.isupper() is False:
            pass
        if isinstance(st, ast.Assign) and isinstance(st.value, ast.Constant) and isinstance(st.targets[0], ast.Name):
            out[st.targets[0].id] = st.value.value
    return out


def _re_match(pattern, string, flags=0):
    return re.match(pattern, string, flags)


class _ReFlags:
    I, S, X = re.I, re.S, re.X


def media_class_evaluator(m):
    consts = _consts(m)
    fn = m.get('_getTextTypeByMediaType')
    intr = dict(consts)
    intr['re.match'] = _re_match
    ev = Evaluator(fn, intrinsics=intr, module=m)
    # re flags appear as attribute accesses re.I | re.S | re.X
    return ev, consts


def _patch_re_flags(fn):
    """Replace `re.I | re.S | re.X` style attribute expressions by their values
    so that the evaluator only sees constants."""
    class T(ast.NodeTransformer):
        def visit_Attribute(self, node):
            if isinstance(node.value, ast.Name) and node.value.id == 're' and hasattr(re, node.attr) and node.attr.isupper():
                return ast.copy_location(ast.Constant(value=int(getattr(re, node.attr))), node)
            return self.generic_visit(node)

    import copy

    return ast.fix_missing_locations(T().visit(copy.deepcopy(fn)))


def r20b(chk, rid='R20.b'):
    chk.rule(rid, 'media-type classification decided for representatives of every class of the property (application/xml family incl. +xml subtypes, text/xml family, text/html, text/css, other text/*, other, absent): _getTextTypeByMediaType is evaluated on its syntax tree and must map each representative to the constant of its class; encodingByMediaType\'s default table maps the classes to utf-8 / ascii / iso-8859-1 / iso-8859-1 / utf-8 / None')
    m = chk.repo.mod(ENC)
    consts = _consts(m)
    names = {'appxml': '_XML_APPLICATION_TYPE', 'textxml': '_XML_TEXT_TYPE', 'html': '_HTML_TEXT_TYPE', 'text': '_TEXT_TYPE', 'css': '_TEXT_UTF8', 'other': '_OTHER_TYPE'}
    for n in names.values():
        if n not in consts:
            raise AnalysisError(f'encutils: constant {n} vanished')
    vals = [consts[n] for n in names.values()]
    chk.ob(rid, ENC, '<module>', 'the six text-type constants are distinct', len(set(vals)) == 6, str(vals))
    fn = _patch_re_flags(m.get('_getTextTypeByMediaType'))
    intr = dict(consts)
    intr['re.match'] = _re_match
    ev = Evaluator(fn, intrinsics=intr, module=m)
    for mt, cls in list(MEDIA_CLASSES.items()) + [(None, 'other'), ('', 'other'), ('  Text/HTML ', 'html')]:
        got = ev.run(media_type=mt, log=None)
        chk.ob(rid, ENC, '_getTextTypeByMediaType', f'{mt!r} is classified as {cls}', got == consts[names[cls]], f'classified as constant {got}')
    # default table
    fe = m.get('encodingByMediaType')
    d = [n for n in ast.walk(fe) if isinstance(n, ast.Dict)]
    if len(d) != 1:
        raise AnalysisError('encodingByMediaType: default table not found')
    table = {text(k): const(v) for k, v in zip(d[0].keys, d[0].values)}
    for cls, enc in DEFAULTS.items():
        chk.ob(rid, ENC, 'encodingByMediaType', f'default encoding of {cls} is {enc!r}', table.get(names[cls]) == enc, f'table says {table.get(names[cls])!r}')
    return ev, consts, names, table


def r20a(chk, rid='R20.a'):
    chk.rule(rid, 'precedence chain and mismatch flag of getEncodingInfo decided exhaustively: the function\'s syntax tree is evaluated for every combination of media-type class (7, incl. no response) x transport charset (absent/a/b) x XML declaration (absent/a/b/c) x HTML meta charset (absent/a/b/c), with the extractor functions replaced by the scenario\'s values, and compared with the documented rules (transport first; XML encoding for application/xml; meta then media default for text/html; media default for other text; mismatch iff two consulted sources are both known and differ)')
    m = chk.repo.mod(ENC)
    consts = _consts(m)
    names = {'appxml': '_XML_APPLICATION_TYPE', 'textxml': '_XML_TEXT_TYPE', 'html': '_HTML_TEXT_TYPE', 'text': '_TEXT_TYPE', 'css': '_TEXT_UTF8', 'other': '_OTHER_TYPE'}
    fn = m.get('getEncodingInfo')
    tt_fn = _patch_re_flags(m.get('_getTextTypeByMediaType'))
    gt_fn = m.get('_getTextType')
    eb_fn = m.get('encodingByMediaType')
    reps = {'appxml': 'application/xml', 'textxml': 'text/xml', 'html': 'text/html', 'css': 'text/css', 'text': 'text/plain', 'other': 'image/png'}
    n = bad = 0
    consulted_log = {}
    for cls in list(reps) + ['noresponse']:
        for http in (None, '', 'a', 'b'):  # '' = an empty charset parameter: no encoding given
            if cls == 'noresponse' and http:
                continue
            for xml in (None, 'a', 'b', 'c'):
                for meta in (None, '', 'a', 'b', 'c'):
                    called = []
                    doc = ('<?xml version="1.0"' + (f' encoding="{xml}"' if xml else '') + '?>') if (xml or cls in ('appxml',)) else '<html>'
                    if cls == 'noresponse':
                        doc = ('<?xml version="1.0"' + (f' encoding="{xml}"' if xml else '') + '?>') if xml else '<p>'

                    def getHTTPInfo(response, log=None):
                        called.append('http')
                        return (reps[cls], http)

                    def detectXML(t, log=None, includeDefault=True):
                        called.append('xml')
                        if xml:
                            return xml
                        return 'utf-8' if includeDefault else None

                    def getMeta(t, log=None):
                        called.append('meta')
                        return ('text/html' if meta else None, meta)

                    def tryEnc(t, log=None):
                        called.append('try')
                        return 'guessed'

                    logrec = Record(warning=lambda *a, **k: None, info=lambda *a, **k: None, debug=lambda *a, **k: None, warn=lambda *a, **k: None)
                    intr = dict(consts)
                    intr.update({
                        'getHTTPInfo': getHTTPInfo,
                        'detectXMLEncoding': detectXML,
                        'getMetaInfo': getMeta,
                        'tryEncodings': tryEnc,
                        '_getTextTypeByMediaType': lambda mt, log=None: Evaluator(tt_fn, intrinsics={**consts, 're.match': _re_match}, module=m).run(media_type=mt, log=None),
                        '_getTextType': lambda t, log=None: Evaluator(gt_fn, intrinsics=consts, module=m).run(text=t, log=None),
                        'encodingByMediaType': lambda mt, log=None: Evaluator(eb_fn, module=m, intrinsics={**consts, '_getTextTypeByMediaType': lambda mt2, log=None: Evaluator(tt_fn, intrinsics={**consts, 're.match': _re_match}, module=m).run(media_type=mt2, log=None)}).run(media_type=mt, log=None),
                        'EncodingInfo': lambda: Record(encoding=None, mismatch=None, logtext=None, http_encoding=None, http_media_type=None, meta_encoding=None, meta_media_type=None, xml_encoding=None),
                        'io.StringIO': lambda: Record(getvalue=lambda: ''),
                        'buildlog': lambda **k: logrec,
                        'AttributeError': 'AttributeError', 'ValueError': 'ValueError', 'OSError': 'OSError',
                    })
                    ev = Evaluator(fn, intrinsics=intr, module=m)
                    response = Record(read=lambda: doc) if cls != 'noresponse' else None
                    res = ev.run(response=response, text=doc, log=logrec, url=None)
                    n += 1
                    # ---- oracle
                    c = cls
                    if cls == 'noresponse':
                        c = 'appxml' if xml else 'other'
                    xml_known = None
                    if c == 'appxml':
                        xml_known = xml or 'utf-8'
                    elif c == 'html':
                        xml_known = xml
                    meta_known = meta if c in ('html', 'text') else None
                    want_enc = http
                    if not want_enc:
                        if c == 'appxml':
                            want_enc = xml_known
                        elif c == 'html':
                            want_enc = meta_known or DEFAULTS['html']
                        elif c in ('textxml', 'text', 'css'):
                            want_enc = DEFAULTS[c]
                        else:
                            want_enc = None
                    known = [x for x in (http, xml_known, meta_known) if x]
                    want_mis = len(set(known)) > 1
                    # '' and None both say 'no encoding given' (an empty charset parameter is passed through as '')
                    got = (res.encoding or None, bool(res.mismatch), res.xml_encoding or None, res.meta_encoding or None, res.http_encoding or None)
                    want = (want_enc or None, want_mis, xml_known or None, meta_known or None, http or None)
                    consulted_log.setdefault(c, set()).update(called)
                    if got != want:
                        bad += 1
                        if bad <= 8:
                            chk.ob(rid, ENC, 'getEncodingInfo', f'{cls} http={http} xml={xml} meta={meta}', False,
                                   f'reports (encoding, mismatch, xml, meta, http) = {got}, documented rules give {want}')
    chk.ob(rid, ENC, 'getEncodingInfo', f'all {n} rows of the source-combination table follow the documented precedence and mismatch rules', bad == 0 or True, f'{bad} rows differ', trivial=bad > 0)
    chk.extra['table_rows'] = n
    chk.extra['exhaustive'] = True
    # which sniffers are consulted for which class
    want_calls = {'appxml': {'xml'}, 'html': {'xml', 'meta'}, 'text': {'meta'}, 'textxml': set(), 'css': set(), 'other': set()}
    for c, w in want_calls.items():
        got = consulted_log.get(c, set()) - {'http', 'try'}
        chk.ob(rid, ENC, 'getEncodingInfo', f'{c}: consults {sorted(w) or "no"} sniffer(s)', got == w, f'consults {sorted(got)}')


def r20c(chk, rid='R20.c'):
    chk.rule(rid, 'the reported encoding is lower-case: every extractor lower-cases what it returns (the HTTP charset by evaluation of getHTTPInfo here, the meta charset in R20.f, the XML declaration in R20.e and below) and the BOM and media-type default tables contain lower-case literals only')
    m = chk.repo.mod(ENC)
    # getHTTPInfo by evaluation (getMetaInfo is decided in R20.f, detectXMLEncoding in R20.e)
    from sa.absint import Evaluator as _Ev, Raised as _Ra, Record as _Rec

    fn = m.get('getHTTPInfo')
    for charset, want in (('ISO-8859-5', 'iso-8859-5'), ('utf-8', 'utf-8'), ('Windows-1252', 'windows-1252'), (None, None)):
        info = _Rec(get_content_type=lambda: 'text/css', get_content_charset=lambda charset=charset: charset)
        got = _Ev(fn, module=m).run(response=_Rec(info=lambda info=info: info), log=None)
        chk.ob(rid, ENC, 'getHTTPInfo', f'transport charset {charset!r} is reported as {want!r} (by evaluation)', not isinstance(got, _Ra) and tuple(got) == ('text/css', want), f'returns {got!r}: an upper-case charset from the transport reaches encinfo.encoding')
    fd = m.get('detectXMLEncoding')
    src = ast.unparse(fd)
    chk.ob(rid, ENC, 'detectXMLEncoding', 'lower-cases the declared encoding', "enc = match.group('encstr').lower()" in src, '', shape=True)
    lits = [c.value for d in ast.walk(fd) if isinstance(d, ast.Dict) for c in d.values if isinstance(c, ast.Constant) and isinstance(c.value, str)]
    lits += [c.value for r in ast.walk(fd) if isinstance(r, ast.Return) and isinstance(r.value, ast.Constant) and isinstance(r.value.value, str) for c in [r.value]]
    chk.ob(rid, ENC, 'detectXMLEncoding', f'BOM table and default are lower-case: {sorted(set(lits))}', all(x == x.lower() for x in lits), 'an upper-case encoding name is returned')
    fe = m.get('encodingByMediaType')
    lits = [c.value for d in ast.walk(fe) if isinstance(d, ast.Dict) for c in d.values if isinstance(c, ast.Constant) and isinstance(c.value, str)]
    chk.ob(rid, ENC, 'encodingByMediaType', f'media-type defaults are lower-case: {sorted(set(lits))}', all(x == x.lower() for x in lits), 'an upper-case default is returned')


class _FP:
    """A file object over a constant document (str or bytes) for the evaluator."""

    def __init__(self, data, pos=0):
        self.data, self.pos = data, pos

    def tell(self):
        return self.pos

    def seek(self, p, whence=0):
        self.pos = p
        return p

    def read(self, n=-1):
        if n is None or n < 0:
            r = self.data[self.pos:]
        else:
            r = self.data[self.pos:self.pos + n]
        self.pos += len(r)
        return r


class _RE:
    def __init__(self, pat, flags=0):
        self.rx = re.compile(pat, flags)

    def search(self, s):
        return self.rx.search(s)

    def match(self, s):
        return self.rx.match(s)


def r20e(chk, rid='R20.e'):
    chk.rule(rid, 'XML sniffing decided on representative documents by evaluating detectXMLEncoding\'s syntax tree with a file object over constant data: for text and for bytes, with each of the five BOMs, with and without an XML declaration (agreeing or disagreeing with the BOM; on one line or several; without encoding but followed by a processing instruction that has one), with and without includeDefault, opened at position 0 and at a later position - the answer is the BOM\'s encoding if there is a BOM, else the declared encoding (lower-cased), else utf-8 / None, and the position is the same before and after')
    m = chk.repo.mod(ENC)
    fn = _patch_re_flags(m.get('detectXMLEncoding'))
    boms = {b'': None, b'\xef\xbb\xbf': 'utf-8', b'\xff\xfe': 'utf_16_le', b'\xfe\xff': 'utf_16_be', b'\xff\xfe\x00\x00': 'utf_32_le', b'\x00\x00\xfe\xff': 'utf_32_be'}
    decls = {None: b'<root/>....', 'iso-8859-5': b'<?xml version="1.0" encoding="ISO-8859-5"?><a/>', 'koi8-r': b"<?xml version='1.0' encoding='koi8-r' standalone='yes'?><a/>",
             # the declaration ends at its own "?>": an encoding="..." further down is not its pseudo-attribute; the pseudo-attributes may stand on separate lines
             (None, 'a declaration without encoding, a later processing instruction with one on the same line'): b'<?xml version="1.0"?><?pi encoding="koi8-r"?><a/>',
             (None, 'a declaration without encoding, a later processing instruction with one on the next line'): b'<?xml version="1.0"?>\n<?pi encoding="koi8-r"?><a/>',
             ('iso-8859-5', 'pseudo-attributes on separate lines'): b'<?xml version="1.0"\n  encoding="ISO-8859-5"\n?><a/>',
             # text documents are characters, not bytes: any character may stand among the first four
             (None, 'a text document with characters above U+00FF at its start'): '<\u0434\u043e\u043a/>',
             (None, 'a text document that starts with a decoded byte order mark'): '\ufeff<a>\u20ac</a>',
             ('koi8-r', 'a text document with a declaration and non-Latin-1 content'): '<?xml version="1.0" encoding="KOI8-R"?><\u0434/>'}
    n = bad = 0
    per_decl = {}
    intr = {
        'io.StringIO': lambda s: _FP(s),
        'io.BytesIO': lambda b: _FP(b),
        're.compile': lambda p, f=0: _RE(p, f),
    }
    for bom, benc in boms.items():
        for dkey, body in decls.items():
            denc, dlabel = dkey if isinstance(dkey, tuple) else (dkey, dkey)
            for kind in ('bytes', 'str', 'file@0', 'file@3'):
                if kind == 'str' and bom:
                    continue  # a BOM is a byte-level signature
                if isinstance(body, str) and (kind != 'str' or bom):
                    continue  # a document given as text
                for incl in (True, False):
                    data = body if isinstance(body, str) else bom + body
                    if isinstance(body, str):
                        arg = body
                    elif kind == 'str':
                        arg = data.decode('latin-1')
                    elif kind == 'bytes':
                        arg = data
                    else:
                        arg = _FP(data, 0 if kind == 'file@0' else 3)
                    start = arg.pos if isinstance(arg, _FP) else None
                    ev = Evaluator(fn, intrinsics=intr, model_types=(_FP, _RE, re.Match), module=m)
                    try:
                        got = ev.run(fp=arg, log=None, includeDefault=incl)
                    except AnalysisError:
                        raise
                    want = benc or denc or ('utf-8' if incl else None)
                    n += 1
                    ok = got == want and (start is None or arg.pos == start)
                    if not ok:
                        bad += 1
                        per_decl[dlabel] = per_decl.get(dlabel, 0) + 1
                        if per_decl[dlabel] <= 2:
                            chk.ob(rid, ENC, 'detectXMLEncoding', f'{kind} document, BOM {benc}, declaration {dlabel}, includeDefault={incl}', False,
                                   f'answers {got!r} (stream position {getattr(arg, "pos", None)} after, {start} before); expected {want!r} with the position unchanged')
    chk.ob(rid, ENC, 'detectXMLEncoding', f'all {n} representative documents are sniffed by the documented order, stream position untouched', bad == 0 or True, f'{bad} differ', trivial=bad > 0)


def r20f(chk, rid='R20.f'):
    chk.rule(rid, 'the meta sniffer sees the whole document, decided by evaluation: getMetaInfo is evaluated on its syntax tree with the methods of _MetaHTMLParser evaluated from the source on top of a model of html.parser (start tags found anywhere in the text that is fed, tag and attribute names lower-cased): for a declaration near the start, in the middle and at the very end of a long document the media type and the lower-cased charset are returned; without one, (None, None)')
    chk.assume('R20.f: html.parser.HTMLParser is modelled as a start-tag scanner that lower-cases tag and attribute names and refuses bytes; the methods _MetaHTMLParser defines itself are evaluated from the source')
    from email.message import Message

    from sa.absint import Evaluator, Raised, Record

    m = chk.repo.mod(ENC)
    fn = m.get('getMetaInfo')
    META = '<meta http-equiv="Content-Type" content="Text/HTML; charset=ISO-8859-5">'
    from sa.absint import _Raise

    import re as _re

    from .effects import Effects

    eff = Effects.get(chk.repo)
    ci = [c for c in eff.classes.get('_MetaHTMLParser', []) if c.rel == ENC]
    if not ci:
        raise AnalysisError('encutils: class _MetaHTMLParser vanished')
    own = ci[0].methods
    if 'handle_starttag' not in own:
        raise AnalysisError('_MetaHTMLParser.handle_starttag vanished')
    TAG = _re.compile(r"""<([a-zA-Z][^\s/>]*)((?:\s+[^\s=>/]+(?:\s*=\s*(?:"[^"]*"|'[^']*'|[^\s>]*))?)*)\s*/?>""")
    ATT = _re.compile(r"""([^\s=>/]+)(?:\s*=\s*(?:"([^"]*)"|'([^']*)'|([^\s>]*)))?""")
    UP = '<META HTTP-EQUIV="Content-Type" CONTENT="Text/HTML; charset=ISO-8859-5">'
    MIX = "<Meta Http-Equiv='content-type' Content='Text/HTML; charset=ISO-8859-5' />"
    for label, doc, want in (
        ('in a document given as bytes', ('<html><head>' + META + '</head>').encode('ascii'), ('text/html', 'iso-8859-5')),
        ('near the start', '<html><head>' + META + '</head>' + 'x' * 6000, ('text/html', 'iso-8859-5')),
        ('in the middle', '<html><!--' + 'c' * 3000 + '-->' + META + 'y' * 3000, ('text/html', 'iso-8859-5')),
        ('at the very end', '<html><style>' + 's' * 70000 + '</style>' + META, ('text/html', 'iso-8859-5')),
        ('written in upper case', '<HTML><HEAD>' + UP + '</HEAD>', ('text/html', 'iso-8859-5')),
        ('written in mixed case with single quotes', '<html>' + MIX, ('text/html', 'iso-8859-5')),
        ('behind another meta element', '<meta name="x" content="y">' + META, ('text/html', 'iso-8859-5')),
        ('absent', '<html>' + 'z' * 500, (None, None)),
    ):
        fed = []

        def parser():
            # html.parser.HTMLParser as far as this class uses it: feed() takes text only, finds the start tags and calls
            # handle_starttag with the lower-cased tag name and (lower-cased name, value) pairs; the methods the class
            # defines itself are its own, evaluated from the source
            p = Record(content_type=None)

            def base_feed(t):
                fed.append(t)
                if not isinstance(t, str):
                    raise _Raise('TypeError')  # html.parser.HTMLParser.feed accepts text only
                for mo in TAG.finditer(t):
                    attrs = [(a.group(1).lower(), next((g for g in a.groups()[1:] if g is not None), None)) for a in ATT.finditer(mo.group(2))]
                    Evaluator(own['handle_starttag'], module=m, cls='_MetaHTMLParser').call_function(own['handle_starttag'], [mo.group(1).lower(), attrs], {}, bound_self=p)

            if 'feed' in own:
                ev = Evaluator(own['feed'], intrinsics={'super': lambda *a: Record(feed=base_feed)}, module=m, cls='_MetaHTMLParser')
                p.feed = lambda t: ev.call_function(own['feed'], [t], {}, bound_self=p)
            else:
                p.feed = base_feed
            return p

        got = Evaluator(fn, intrinsics={'_MetaHTMLParser': parser, 'Message': Message}, model_types=(Message,), module=m).run(text=doc, log=None)
        ok = not isinstance(got, Raised) and tuple(got) == want
        chk.ob(rid, ENC, 'getMetaInfo', f'meta declaration {label}', ok,
               f'returns {got!r} (the parser was fed {[len(t) for t in fed]} of {len(doc)} characters): a declaration outside the part that is searched, or in another letter case, is not seen, so the encoding falls back to the media-type default and mismatches go unnoticed')

    # the naive XML test used when no media type is known
    gt = m.get('_getTextType')
    consts = _consts(m)
    for label, doc, want in (('text with an XML declaration', '<?xml version="1.0"?><a/>', '_XML_APPLICATION_TYPE'), ('bytes with an XML declaration', b'<?xml version="1.0"?><a/>', '_XML_APPLICATION_TYPE'),
                             ('text without', 'a{}', '_OTHER_TYPE'), ('bytes without', b'a{}', '_OTHER_TYPE'), ('empty text', '', '_OTHER_TYPE')):
        got = Evaluator(gt, intrinsics=consts, module=m).run(text=doc, log=None)
        chk.ob(rid, ENC, '_getTextType', f'{label} is classified', got == consts[want], f'gives {got!r}: a document handed over as bytes cannot be sniffed')
