"""Witness for C11 / R11.c: a rejected insertRule(CSSRuleList) leaves its first members inserted."""
import cssutils
cssutils.log.raiseExceptions = True
s = cssutils.parseString('@media all { a{top:0} }')
m = s.cssRules[0]
before = m.cssText
other = cssutils.parseString('b{left:0} @font-face{font-family:x} c{left:0}')
try:
    m.insertRule(other.cssRules, 0)
    print('accepted?!')
except Exception as e:
    print('rejected with', type(e).__name__)
print('unchanged' if m.cssText == before else 'CHANGED:\n' + m.cssText)
raise SystemExit(0 if m.cssText == before else 1)
