#!/venv/bin/python
"""Dev tool (never run by a check): record the currently failing obligations of
one rule as known findings.  usage: mkknown.py PID RULE 'what fails' ['witness']
       mkknown.py --fixed PID COMMIT 'what failed'"""
import json, os, sys
sys.path.insert(0, '/verif')
from sa import core
import importlib
p = core.VERIF / 'known_findings.json'
data = json.loads(p.read_text())
if sys.argv[1] == '--fixed':
    _, _, pid, commit, what = sys.argv
    data['findings'].append({'property': pid, 'status': 'fixed', 'line': f'fixed: property={pid} {commit} {what}'})
else:
    pid, rule, what = sys.argv[1:4]
    witness = sys.argv[4] if len(sys.argv) > 4 else ''
    only = sys.argv[5] if len(sys.argv) > 5 else None
    repo = core.Repo()
    chk = core.Check(pid, os.environ.get('VERIF_TIER', 'quick'), repo)
    importlib.import_module(f'rules.{pid.lower()}').run(chk)
    have = {(k['property'], k.get('key')) for k in data['findings']}
    n = 0
    for o in chk.obs:
        if not o['ok'] and o['rule'] == rule and (pid, o['key']) not in have and (only is None or only in o['key']):
            data['findings'].append({'property': pid, 'status': 'known', 'key': o['key'], 'what': what, 'witness': witness})
            have.add((pid, o['key']))
            n += 1
    print('added', n)
p.write_text(json.dumps(data, indent=1))
