NOTES = ('Technique family: static analysis only. Every check parses /repo\'s working tree and decides '
         'structural rules (necessary conditions of the property); no check imports or runs cssutils. '
         'exit 0 ok / exit 1 VIOLATION / exit 2 ANALYSIS-ERROR (shape no longer analysable - never a silent pass).')
CHECKS = {
 'C05': {
  'technique': 'regex automata analysis (nullability, first sets, language equivalence, exponential ambiguity) of the tokenizer tables + CFG path rules on Tokenizer.tokenize',
  'text': 'Decides structural necessary conditions of the tokenizer property on every path / every string of the production languages: '
          'totality and progress (no nullable production, every code point covered, position advances once per token on all CFG paths), '
          'fast-path exclusivity, ordering beliefs of the production list, IDENT/FUNCTION guard, sibling-regex agreement (unicodesub vs {unicode}, letter macros), '
          'EOF/completion guards, and absence of exponentially ambiguous patterns. Does not decide value decoding or column arithmetic on concrete inputs.',
  'note': 'Trusts: re._parser\'s syntax tree equals what re compiles; Glushkov construction; known findings (exponential STRING/URI patterns) are listed in known_findings.json.',
 },
}
CHECKS['C01'] = {
  'technique': 'CFG must-pass-through + callback return-state analysis + regex ambiguity automata + evaluation-count dataflow on the serializer cycle',
  'text': 'Decides necessary conditions of "never raises, never hangs" that are visible on every path: DOM work only inside the log-mode window (R01.a), every production callback returns a parser state on all paths (R01.b), tokenizer totality/progress (R01.c), no exponentially ambiguous token/helper pattern (R01.d; validation patterns in the thorough tier), at most one evaluation of a child text per serializer path (R01.e), token-value helpers only on typed tokens (R01.f). Does not decide absence of data-dependent exceptions, recursion depth or cyclic @import.',
  'note': 'Name-based call resolution (self.X, nested defs, New.productions); known findings: exponential STRING/URI token patterns (known_findings.json).',
}
CHECKS['C09'] = {
  'technique': 'who-may-write query on rule lists + extraction of the insertRule position tables against the rank order + CFG pairing of insertion and parent link (with exceptional edges from the may-raise summaries)',
  'text': 'Treats the ordering clause as an inductive invariant and decides its static obligations: the set of writers of a rule list is closed (R09.a), each per-kind position scan of insertRule covers all lower/higher ranks and ordered-add scans stop only at safe kinds (R09.b), parse-time levels equal the ranks (R09.c), the parent link is set on exactly the paths that insert, deletions detach, setters adopt (R09.d), nested lists deny the document-level kinds before inserting (R09.e). Does not decide arbitrary histories beyond this induction (e.g. namespace write-through) nor serialise/reparse.',
  'note': 'Table extraction is shape dependent (if/elif chain on rule.type, for-loops over self._cssRules slices): a rewrite gives ANALYSIS-ERROR, not a verdict. May-raise summaries are name-resolved over-approximations; one exemption (_updateVariables) is listed with its reason.',
}
CHECKS['C12'] = {
  'technique': 'CFG acquire/release pairing with exceptional edges (error mode, serializer swap, _level), reaching-definition query on the restored value, who-may-write inventory of process-wide state, scratch-state reset inclusion',
  'text': 'Decides the structural half of "no hidden state": every switch of the global error mode / global serializer is undone on all exits and restores a value read in the same call (R12.a/b); the writers of each process-wide object named in the property are exactly the sanctioned ones (R12.c); scratch state written during a production parse is reset where a parse starts (R12.d); serializer instance counters are balanced (R12.e). Does not decide independence from arbitrary earlier call sequences.',
  'note': 'Any statement containing a call is treated as may-raise for the pairing rules. Known finding: experimental indentSpecificities state.',
}
NOT_APPLICABLE = {}
