"""C19 - URL enumeration/replacement exact; flattening @imports preserves meaning
(structural parts)."""
from __future__ import annotations

import ast

from sa.core import AnalysisError, call_name, const, kw, text

from .c09 import denied

INIT = 'cssutils/__init__.py'
MEDIA = 'cssutils/css/cssmediarule.py'
KIND_CLASS = {
    'COMMENT': 'CSSComment', 'STYLE_RULE': 'CSSStyleRule', 'IMPORT_RULE': 'CSSImportRule', 'CHARSET_RULE': 'CSSCharsetRule',
    'NAMESPACE_RULE': 'CSSNamespaceRule', 'FONT_FACE_RULE': 'CSSFontFaceRule', 'MEDIA_RULE': 'CSSMediaRule', 'PAGE_RULE': 'CSSPageRule',
    'MARGIN_RULE': 'MarginRule', 'UNKNOWN_RULE': 'CSSUnknownRule', 'VARIABLES_RULE': 'CSSVariablesRule',
}


def run(chk):
    r19a(chk)
    r19b(chk)
    r19c(chk)
    r19d(chk)
    r19e(chk)


def _replace_functions(m):
    out = []
    for st in m.tree.body:
        if isinstance(st, ast.FunctionDef) and (st.name == 'replaceUrls' or any('replaceUrls.register' in text(d) for d in st.decorator_list)):
            out.append(st)
    return out


def r19a(chk, rid='R19.a'):
    chk.rule(rid, 'replacer identity form: in replaceUrls and its overload every store has the shape X.attr = replacer(X.attr) - same object, same attribute, one call - and nothing else is written; so the identity replacer is a no-op and each URL is handed to the replacer once per visit')
    m = chk.repo.mod(INIT)
    fns = _replace_functions(m)
    if len(fns) != 2:
        raise AnalysisError(f'{len(fns)} replaceUrls implementations found (2 expected)')
    n = 0
    for fn in fns:
        q = 'replaceUrls' if fn.name == 'replaceUrls' else 'replaceUrls[CSSStyleDeclaration]'
        for st in ast.walk(fn):
            if isinstance(st, (ast.Assign, ast.AugAssign)):
                for t in (st.targets if isinstance(st, ast.Assign) else [st.target]):
                    if isinstance(t, ast.Attribute):
                        n += 1
                        v = st.value
                        ok = isinstance(st, ast.Assign) and isinstance(v, ast.Call) and text(v.func) == 'replacer' and len(v.args) == 1 and text(v.args[0]) == text(t) and not v.keywords
                        chk.ob(rid, INIT, q, text(st), ok, 'the attribute is not rewritten with exactly replacer(old value): the identity replacer would change the sheet, or another attribute is touched')
            if isinstance(st, ast.Call) and isinstance(st.func, ast.Attribute) and st.func.attr in ('setProperty', 'removeProperty', 'insertRule', 'deleteRule', 'add'):
                chk.ob(rid, INIT, q, text(st)[:60], False, 'replaceUrls changes the structure of the sheet')
        calls = [c for c in ast.walk(fn) if isinstance(c, ast.Call) and text(c.func) == 'replacer']
        for c in calls:
            par = m.parents.get(c)
            chk.ob(rid, INIT, q, f'`{text(c)}` is only used as the new value of that attribute', isinstance(par, ast.Assign), 'the replacer is called without storing its result (called more often than URLs are replaced)', trivial=True)
    if n < 3:
        raise AnalysisError('replaceUrls: stores not found')


def r19b(chk, rid='R19.b'):
    chk.rule(rid, 'combinable ⊆ accepted: the rule kinds MediaCombineDisallowed lets into an @media wrapper are kinds CSSMediaRule.insertRule does not reject')
    m = chk.repo.mod(INIT)
    fn = m.get('MediaCombineDisallowed._combinable')
    tup = [n for n in ast.walk(fn) if isinstance(n, ast.Assign) and text(n.targets[0]) == 'combinable']
    if len(tup) != 1:
        raise AnalysisError('_combinable: tuple not found')
    kinds = [e.attr for e in ast.walk(tup[0].value) if isinstance(e, ast.Attribute)]
    if not kinds:
        raise AnalysisError('_combinable: no kinds')
    den = denied(chk.repo.mod(MEDIA), chk.repo.fn(MEDIA, 'CSSMediaRule.insertRule'))
    for k in kinds:
        cls = KIND_CLASS.get(k)
        if cls is None:
            raise AnalysisError(f'unknown rule kind {k}')
        chk.ob(rid, INIT, 'MediaCombineDisallowed._combinable', f'{k} ({cls}) may be inserted into an @media rule', cls not in den,
               f'{cls} passes the combinable test but CSSMediaRule.insertRule rejects it: when the imported sheet is wrapped in @media the rule is lost (or HierarchyRequestErr is raised)')
    chk.ob(rid, INIT, 'MediaCombineDisallowed._combinable', 'style rules and comments are combinable', {'STYLE_RULE', 'COMMENT'} <= set(kinds), str(kinds))


def r19c(chk, rid='R19.c'):
    chk.rule(rid, 'one enumeration for reading and replacing: getUrls and replaceUrls both take @import targets by the same predicate and all other URLs from _uri_values over _style_declarations; _style_declarations yields the own style of every object that has one, independently of (and in addition to) recursing into its cssRules; _uri_values visits all properties (all=True) and filters on the URI value type')
    m = chk.repo.mod(INIT)
    g = ast.unparse(m.get('getUrls'))
    r = ast.unparse(m.get('replaceUrls'))
    chk.ob(rid, INIT, 'getUrls', 'imports first: rule.href for IMPORT_RULE rules, then the style URLs', 'rule.href for rule in sheet if rule.type == rule.IMPORT_RULE' in g and 'itertools.chain(imports, other)' in g, '', shape=True)
    chk.ob(rid, INIT, 'getUrls', 'style URLs come from _uri_values over _style_declarations', '_style_declarations(sheet)' in g and '_uri_values(style)' in g and 'value.uri' in g, '', shape=True)
    chk.ob(rid, INIT, 'replaceUrls', 'same import predicate (plus ignoreImportRules) and same enumeration', 'rule.type == rule.IMPORT_RULE and (not ignoreImportRules)' in r and '_uri_values' in r and '_style_declarations(sheet)' in r, '', shape=True)
    sd = m.get('_style_declarations')
    top = [s for s in sd.body if not (isinstance(s, ast.Expr) and isinstance(s.value, ast.Constant))]
    loops = [s for s in top if isinstance(s, ast.For) and 'cssRules' in text(s.iter)]
    own = [s for s in top if isinstance(s, ast.If) and "hasattr(base, 'style')" in text(s.test) and any('yield base.style' in text(x) for x in s.body)]
    chk.ob(rid, INIT, '_style_declarations', 'recurses into cssRules unconditionally', len(loops) == 1 and any(isinstance(x, ast.YieldFrom) for x in ast.walk(loops[0])), 'nested rules are not visited')
    chk.ob(rid, INIT, '_style_declarations', 'yields the own style of every object that has one, whether or not it has nested rules', len(own) == 1,
           'an object with both cssRules and style (an @page rule with margin boxes) loses its own declarations: their URLs are neither listed nor replaced')
    uv = ast.unparse(m.get('_uri_values'))
    chk.ob(rid, INIT, '_uri_values', 'visits every property (all=True), not only the effective ones', 'style.getProperties(all=True)' in uv, 'URLs in overridden declarations are skipped', shape=True)
    chk.ob(rid, INIT, '_uri_values', "filters on value.type == 'URI'", "value.type == 'URI'" in uv, '', shape=True)


def r19d(chk, rid='R19.d'):
    chk.rule(rid, 'path re-basing: Replacer leaves anything with a scheme, a host or a root-relative path untouched; the base directory is taken from the path component of the import href (urlsplit) - not from the whole URL - and joined with normpath')
    m = chk.repo.mod(INIT)
    call = m.get('Replacer.__call__')
    src = ast.unparse(call)
    chk.ob(rid, INIT, 'Replacer.__call__', 'absolute, scheme-relative and root-relative URLs are kept', "if scheme or location or path.startswith('/'):" in src and 'return uri' in src, '', shape=True)
    chk.ob(rid, INIT, 'Replacer.__call__', 'the URL is split with urlsplit before it is rebased', 'urllib.parse.urlsplit(uri)' in src, '', shape=True)
    chk.ob(rid, INIT, 'Replacer.__call__', 'base and relative path are joined and normalised', 'os.path.normpath(os.path.join(self.base, path, filename))' in src, '', shape=True)
    eb = m.get('Replacer.extract_base')
    calls = [c for c in ast.walk(eb) if isinstance(c, ast.Call) and call_name(c) == 'urllib.parse.urlsplit']
    ok = len(calls) == 1 and len(calls[0].args) == 1 and isinstance(calls[0].args[0], ast.Name) and calls[0].args[0].id == eb.args.args[0].arg
    chk.ob(rid, INIT, 'Replacer.extract_base', 'the base is derived from the path component of the href', ok,
           'for an absolute import href the scheme and host become part of the directory: relative URLs are rewritten to http%3A/host/...')
    src = ast.unparse(eb)
    chk.ob(rid, INIT, 'Replacer.extract_base', 'directory part of that path', 'os.path.split(raw_path)' in src and 'return base_path' in src, '', shape=True)
    init = ast.unparse(m.get('Replacer.__init__'))
    chk.ob(rid, INIT, 'Replacer.__init__', 'stores extract_base(base)', 'self.base = self.extract_base(base)' in init, '', shape=True)


def r19e(chk, rid='R19.e'):
    chk.rule(rid, 'flattening fall-backs: _resolve_import keeps the @import rule as it is (target.add(rule); return) when the target was not found, when resolving the nested sheet raises HierarchyRequestErr and when the media wrapper is not allowed; URLs of the imported sheet are rebased with Replacer(rule.href) without touching nested @import rules; a media wrapper is created only for media other than all; resolveImports skips @charset and keeps every other rule in order')
    m = chk.repo.mod(INIT)
    fn = m.get('_resolve_import')
    falls = 0
    for n in ast.walk(fn):
        body = None
        if isinstance(n, ast.If) and text(n.test) == 'not rule.hrefFound':
            body = n.body
        if isinstance(n, ast.ExceptHandler) and text(n.type) in ('xml.dom.HierarchyRequestErr', 'MediaCombineDisallowed'):
            body = n.body
        if body is not None:
            t = [text(s) for s in body]
            ok = 'target.add(rule)' in t and t[-1] == 'return' and t.index('target.add(rule)') < len(t) - 1
            falls += 1
            chk.ob(rid, INIT, '_resolve_import', f'fall-back `{text(n.test) if isinstance(n, ast.If) else "except " + text(n.type)}` keeps the @import rule and stops', ok, 'the import is neither resolved nor kept')
    if falls != 3:
        raise AnalysisError(f'_resolve_import: {falls} fall-backs found (3 expected)')
    src = ast.unparse(fn)
    chk.ob(rid, INIT, '_resolve_import', 'URLs are rebased relative to the import href, nested @import rules untouched', 'replaceUrls(importedSheet, Replacer(rule.href), ignoreImportRules=True)' in src, '', shape=True)
    chk.ob(rid, INIT, '_resolve_import', 'nested imports are flattened first', 'importedSheet = resolveImports(rule.styleSheet)' in src, '', shape=True)
    chk.ob(rid, INIT, '_resolve_import', 'rules go into the media wrapper, or straight into the target', 'imp_target = media_proxy or target' in src and 'imp_target.add(r)' in src and 'target.add(media_proxy)' in src, '', shape=True)
    mp = ast.unparse(m.get('_check_media_proxy'))
    chk.ob(rid, INIT, '_check_media_proxy', "no wrapper for media 'all'; otherwise the combinability check precedes the wrapper", "if rule.media.mediaText == 'all':\n        return" in mp and mp.index('MediaCombineDisallowed.check(importedSheet)') < mp.index('css.CSSMediaRule(rule.media.mediaText)'), '', shape=True)
    ri = ast.unparse(m.get('resolveImports'))
    chk.ob(rid, INIT, 'resolveImports', '@charset skipped, @import resolved, everything else added in document order', 'rule.type == rule.CHARSET_RULE' in ri and '_resolve_import(rule, target)' in ri and 'target.add(rule)' in ri and 'for rule in sheet.cssRules' in ri, '', shape=True)
