"""C14 - the profile registry's verdicts depend on its contents, not its history."""
from __future__ import annotations

import ast

from sa import cfg as cfgmod
from sa.cfg import ENTRY, EXIT_EXC, EXIT_RET
from sa.core import AnalysisError, call_name, text

from .effects import Effects

P = 'cssutils/profiles.py'
STATE = ('_profilesProperties', '_rawProfiles', '_profileNames', '_usedMacros', '_knownNames', '_defaultProfiles')


def run(chk):
    chk.attempt(r14g, chk)
    chk.attempt(r14a, chk)
    chk.attempt(r14b, chk)
    chk.attempt(r14d, chk)
    chk.attempt(r14h, chk)
    chk.attempt(r14i, chk)
    from .c13 import eval_validate

    eval_validate(chk, 'R14.d')
    from .c13 import r13a, r13c

    chk.attempt(r13c, chk, 'R14.e')
    chk.attempt(r13a, chk, 'R14.f')


def _writes(node, attr):
    """Does this CFG node write self.<attr> (store, del, or in-place mutator)?"""
    for e in cfgmod.node_exprs(node):
        for x in cfgmod.walk_expr(e):
            if isinstance(x, (ast.Assign, ast.AugAssign, ast.Delete)):
                for t in (x.targets if not isinstance(x, ast.AugAssign) else [x.target]):
                    tt = t
                    while isinstance(tt, ast.Subscript):
                        tt = tt.value
                    if text(tt) == f'self.{attr}':
                        return True
            if isinstance(x, ast.Call) and isinstance(x.func, ast.Attribute) and text(x.func.value) == f'self.{attr}' and x.func.attr in ('clear', 'update', 'append', 'pop', 'remove', 'extend', 'insert', 'setdefault'):
                return True
    return False


def r14g(chk, rid='R14.g'):
    chk.rule(rid, 'the known-name list is derived state: every write to _knownNames happens in a function that rebuilds it from scratch out of _profilesProperties; incremental patching (extend / filtering the old list) cannot account for a name that several profiles define')
    m = chk.repo.mod(P)
    n = 0
    for q, fn in m.functions():
        if not q.startswith('Profiles.') or q.count('.') != 1:
            continue
        writes = []
        for x in ast.walk(fn):
            if isinstance(x, (ast.Assign, ast.AugAssign)):
                for t in (x.targets if isinstance(x, ast.Assign) else [x.target]):
                    if text(t) == 'self._knownNames':
                        writes.append(x)
            if isinstance(x, ast.Call) and isinstance(x.func, ast.Attribute) and text(x.func.value) == 'self._knownNames' and x.func.attr in ('extend', 'append', 'remove', 'pop', 'clear', 'insert'):
                writes.append(x)
        if not writes:
            continue
        n += 1
        src = ast.unparse(fn)
        rebuild = any(isinstance(w, ast.Assign) and (text(w.value) == '[]' or ('self._profilesProperties' in text(w.value) and 'self._knownNames' not in text(w.value))) for w in writes) and 'self._profilesProperties' in src
        self_ref = any(isinstance(w, ast.Assign) and 'self._knownNames' in text(w.value) for w in writes)
        chk.ob(rid, P, q, 'rebuilds _knownNames from the compiled tables', rebuild and not self_ref,
               'the list is patched instead of recomputed: removing a profile drops (or keeps) names that another registered profile also defines, so knownNames and the verdicts depend on the order of operations')
    if n < 1:
        raise AnalysisError('no writer of _knownNames found')


def r14a(chk, rid='R14.a'):
    chk.rule(rid, 'known-name list refreshed: in every public registry mutator, every normal path on which an entry of the compiled table _profilesProperties is added or removed passes __update_knownNames afterwards (_resetProperties re-expands the entries of the registered names and leaves the name set alone; R14.h compares the known names after every operation)')
    eff = Effects.get(chk.repo)
    if not hasattr(eff, 'writes'):
        eff.compute_writes(scratch={'_readonly', '_log'})
    n = 0
    for name in ('addProfile', 'addProfiles', 'removeProfile'):
        fn = chk.repo.fn(P, f'Profiles.{name}')
        g = cfgmod.CFG(fn)

        def touches(nd):
            # _resetProperties rebuilds the tables for the names already registered: it changes
            # patterns, never the set of property names, so it needs no refresh of its own
            return _writes(nd, '_profilesProperties')

        def refresh(nd):
            for c in cfgmod.calls_at(nd):
                cn = call_name(c)
                if cn == 'self.__update_knownNames':
                    return True
                if cn == 'self.addProfile':  # addProfiles delegates; addProfile is checked itself
                    return True
            return False

        W = [nd for nd in g.nodes if nd.stmt is not None and touches(nd)]
        if name != 'addProfiles' and not W:
            # the table is written through a helper: what the operation does to the known names is decided by R14.h
            chk.ob(rid, P, f'Profiles.{name}', 'no direct table write in this function (the known names after every operation are compared in R14.h)', True, trivial=True)
        for w in W:
            n += 1
            seen = g.reachable([w.id], avoid=refresh)
            ok = EXIT_RET not in seen
            chk.ob(rid, P, f'Profiles.{name}', f'`{g.describe(w.id)[:60]}` is followed by __update_knownNames on every return', ok,
                   '' if ok else 'knownNames keeps listing removed properties / misses new ones: ' + ' -> '.join(g.path(seen, {w.id}, EXIT_RET)[-4:]))
        if name == 'addProfiles':
            calls = [c for nd in g.nodes for c in cfgmod.calls_at(nd) if call_name(c) == 'self.addProfile']
            chk.ob(rid, P, 'Profiles.addProfiles', 'adds each profile through addProfile', bool(calls), '')
    chk.extra['direct_table_writes'] = n
    # __update_knownNames rebuilds from scratch
    fn = chk.repo.fn(P, 'Profiles.__update_knownNames')
    src = ast.unparse(fn)
    chk.ob(rid, P, 'Profiles.__update_knownNames', 'rebuilds the list from the compiled tables', 'self._knownNames = []' in src and 'self._profilesProperties.values()' in src, src[:150], shape=True)


def r14b(chk, rid='R14.b'):
    chk.rule(rid, 'removing an unknown profile changes nothing: in removeProfile the lookup that fails for an unknown name (a subscript on a registry table) dominates the first deletion, and the KeyError is turned into NoSuchProfileException')
    fn = chk.repo.fn(P, 'Profiles.removeProfile')
    g = cfgmod.CFG(fn)
    dels = [n for n in g.nodes if n.kind == 'stmt' and isinstance(n.stmt, ast.Delete) and 'profile' in text(n.stmt) and any(_writes(n, t) for t in ('_profilesProperties', '_rawProfiles', '_profileNames')) and '[:]' not in text(n.stmt)]
    if len(dels) < 3:
        raise AnalysisError('removeProfile: deletions not found')
    lookups = [n for n in g.nodes if n not in dels and any(isinstance(x, ast.Subscript) and isinstance(x.ctx, ast.Load) and text(x.value) in ('self._rawProfiles', 'self._profilesProperties') and text(x.slice) == 'profile' for e in cfgmod.node_exprs(n) for x in cfgmod.walk_expr(e))]
    ok = bool(lookups)
    if ok:
        for d in dels:
            okd, _ = g.all_paths_pass([ENTRY], lambda n: n in lookups, targets=[d.id])
            ok = ok and okd
    chk.ob(rid, P, 'Profiles.removeProfile', 'a failing lookup precedes every deletion', ok, 'an unknown profile name can delete part of the registry before the error is raised')
    src = ast.unparse(fn)
    chk.ob(rid, P, 'Profiles.removeProfile', 'KeyError becomes NoSuchProfileException', 'except KeyError' in src and 'raise NoSuchProfileException' in src, '', shape=True)
    # the three tables are reduced together
    tables = {t for d in dels for t in ('_profilesProperties', '_rawProfiles', '_profileNames') if f'self.{t}[' in text(d.stmt)}
    chk.ob(rid, P, 'Profiles.removeProfile', 'compiled table, raw table and name list are reduced together', tables == {'_profilesProperties', '_rawProfiles', '_profileNames'}, str(sorted(tables)))


def r14d(chk, rid='R14.d'):
    chk.rule(rid, 'restricting the default profiles changes only which profile is reported: Profiles.validateWithProfile (with the helpers and property getters it uses, resolved in the class) is evaluated on its syntax tree over a three-profile registry - each profile lacks the property, accepts, rejects or fails on the value - for every selection (none, a name, tuples in both orders, all three) and every default selection: validity is "some registered profile accepts", matching is "some selected profile accepts", the reported profile is the last selected one that accepts, else the first other one; the defaultProfiles setter only stores the value')
    chk.assume('R14.d: validateWithProfile treats profiles uniformly (two ordered scans that stop at the first accepting profile), so a counterexample with more profiles projects to one with three: the accepting profile, one before it, one other')
    import itertools

    from sa.absint import Evaluator, Raised, Record, _Raise

    m = chk.repo.mod(P)
    fn = chk.repo.fn(P, 'Profiles.validateWithProfile')
    names = ['A', 'B', 'C']
    selections = [None, 'B', ('B',), ('A', 'B'), ('B', 'A'), ['C', 'A', 'B'], ('C',)]
    defaults = [None, ('B',), 'C', ('A', 'C')]

    def validator(kind):
        def v(value):
            if kind == 'raise':
                raise _Raise('Exception')
            return kind == 'accept'
        return v

    n = bad = 0
    first_bad = None
    for kinds in itertools.product(('absent', 'accept', 'reject', 'raise'), repeat=3):
        beh = dict(zip(names, kinds))
        for sel in selections:
            for dflt in defaults:
                if sel is not None and dflt is not None and dflt != ('B',):
                    continue  # the default is not consulted when a selection is given
                props = {p: ({'x': validator(beh[p])} if beh[p] != 'absent' else {'y': validator('reject')}) for p in names}
                me = Record(_profileNames=list(names), _profilesProperties=props, _defaultProfiles=dflt,
                            _knownNames=[k for p in names for k in props[p]], _log=Record(error=lambda *a, **k: None))
                ev = Evaluator(fn, intrinsics={'self._log.error': lambda *a, **k: None}, module=m, cls='Profiles')
                got = ev.run(self=me, name='x', value='v', profiles=sel)
                n += 1
                given = sel if sel else (dflt if dflt else names)
                given = (given,) if isinstance(given, str) else given
                acc_given = [p for p in reversed(list(given)) if beh[p] == 'accept']
                acc_rest = [p for p in names if p not in given and beh[p] == 'accept']
                if acc_given:
                    want = (True, True, [acc_given[0]])
                elif acc_rest:
                    want = (True, False, [acc_rest[0]])
                else:
                    want = (False, False, sorted(p for p in names if beh[p] != 'absent'))
                got_n = (got[0], got[1], list(got[2])) if isinstance(got, tuple) and len(got) == 3 else got
                if got_n != want:
                    bad += 1
                    if first_bad is None:
                        first_bad = f'registry {beh}, profiles={sel!r}, defaultProfiles={dflt!r}: answers {got}, expected {want}'
    chk.extra['validateWithProfile_evaluations'] = n
    chk.ob(rid, P, 'Profiles.validateWithProfile', f'all {n} registry/selection cases: validity = some registered profile accepts; matching = a selected profile accepts', bad == 0,
           f'{bad} cases differ, e.g. {first_bad}')
    eff = Effects.get(chk.repo)
    if not hasattr(eff, 'writes'):
        eff.compute_writes(scratch={'_readonly', '_log'})
    w = eff.writes.get((P, 'Profiles._setDefaultProfiles'), set())
    chk.ob(rid, P, 'Profiles._setDefaultProfiles', 'only stores the selection', w == {'_defaultProfiles'}, f'writes {sorted(w)}')


# ---------------------------------------------------------------------------
# R14.h - the registry operations, evaluated on generic instances (inductive step)
def _reference_state(builtin, content):
    """The state the property prescribes for a registry holding `content`
    ([(name, properties, macros)] in registration order)."""
    import re as _re

    env = dict(builtin)
    for _, _, macros in content:
        env.update(macros)

    def expand(v):
        if callable(v):
            return v
        while _re.search(r'{[a-z][a-z0-9-]*}', v):
            v = _re.sub(r'{(?P<macro>[a-z][a-z0-9-]*)}', lambda mo: '(?:%s)' % env[mo.group('macro')], v)
        return v

    return {
        '_usedMacros': env,
        '_profileNames': [n for n, _, _ in content],
        '_rawProfiles': {n: {'properties': dict(p), 'macros': dict(mc)} for n, p, mc in content},
        '_profilesProperties': {n: {k: expand(v) for k, v in p.items()} for n, p, mc in content},
        '_knownNames': sorted(k for _, p, _ in content for k in p),
    }


def r14h(chk, rid='R14.h'):
    chk.rule(rid, 'inductive step on generic instances: the state prescribed for a registry content (macro environment = built-in macros + the macros of the registered profiles in order; every table = raw patterns expanded in that environment; names; known names; raw copies) is preserved by every registry operation. addProfile / addProfiles / removeProfile / _resetProperties (with the helpers they call, resolved in the class) are evaluated on their syntax trees from the prescribed state of a two-profile registry for each case their conditions distinguish - no macros, new macros, macros shadowing a built-in macro, macros shadowing another profile\'s macro, removing the first / the last / an unknown profile / all - and the resulting state is compared with the prescribed state of the new content; short histories (add and remove again, then add another; remove all, then add) end in the prescribed state of their final content as well - attributes the class keeps besides the five tables are initialised by evaluating Profiles.__init__ and must not carry anything from one operation to the next')
    chk.assume("R14.h: the registry operations copy, merge and expand opaque pattern strings and branch only on the conditions the cases enumerate (macros given / shadowing / profile known / all), so the generic instances with pairwise distinct atoms determine their behaviour; _compile_regexes is modelled as identity, re as the interpreter's re on the model patterns")
    import copy
    import re as _re

    from sa.absint import Evaluator, Raised, Record

    m = chk.repo.mod(P)
    boot = Evaluator(m.get('Profiles.__init__'), module=m, cls='Profiles')
    builtin = {}
    for nm in ('_TOKEN_MACROS', '_MACROS'):
        mem = boot._class_member(nm)
        if mem is None:
            raise AnalysisError(f'Profiles.{nm} not found')
        builtin.update(boot.expr(mem.value, {}))
    tok = sorted(builtin)[0]
    # generic profiles: distinct atoms, A shadows a built-in macro, B shadows a macro of A
    # ... and A has macros built on macros, defined before the macro they depend on
    A = ('A', {'pa': 'a{ma}{%s}' % tok, 'both': 'x{ma}', 'pchain': 'q{chain2}'}, {'chain2': 'c{chain1}', 'chain1': 'd{ma}', 'ma': 'A1', tok: 'A-%s' % tok})
    B = ('B', {'pb': 'b{mb}{ma}', 'both': 'y'}, {'mb': 'B1', 'ma': 'B-ma'})
    N = ('N', {'pn': 'n{%s}' % tok}, {})  # no macros
    F = ('F', {'pf': 'f{mf}'}, {'mf': 'F1'})  # fresh macros
    S = ('S', {'ps': 's{%s}' % tok}, {tok: 'S-%s' % tok})  # shadows a built-in (and A's shadow of it)
    T = ('T', {'pt': 't{mb}'}, {'mb': 'T-mb'})  # shadows a macro of profile B
    tok2 = sorted(builtin)[1]
    S2 = ('S2', {'ps2': 's{%s}' % tok2}, {tok2: 'S2-%s' % tok2})  # shadows a built-in macro that no other profile shadows
    intr = {'re.search': _re.search, 're.sub': _re.sub, 're.compile': _re.compile, 'self._compile_regexes': lambda d: d}

    # a registry object is what Profiles.__init__ makes of it (evaluated without its own bulk registration, so that
    # attributes the class adds later are there), loaded with the prescribed state of the content
    init = copy.deepcopy(m.get('Profiles.__init__'))
    init.body = [st for st in init.body if not (isinstance(st, ast.Expr) and isinstance(st.value, ast.Call) and call_name(st.value) in ('self.addProfiles', 'self.addProfile'))]
    if len(init.body) == len(m.get('Profiles.__init__').body):
        raise AnalysisError('Profiles.__init__: the registration of the predefined profiles was not found')

    def registry(content):
        me = Record()
        res = Evaluator(init, intrinsics=intr, model_types=(_re.Pattern, _re.Match), module=m, cls='Profiles').run(self=me, log=None)
        if isinstance(res, Raised):
            raise AnalysisError(f'Profiles.__init__: {res!r}')
        for k, v in copy.deepcopy(_reference_state(builtin, content)).items():
            setattr(me, k, v)
        me._defaultProfiles = list(DEFAULTS)  # a selection that names a registered and an unregistered profile
        return me

    DEFAULTS = ('A', 'nope')

    def observe(me):
        if list(me._defaultProfiles or ()) != list(DEFAULTS):
            return {'_usedMacros': f'the selection of default profiles became {me._defaultProfiles!r} (it is the user\'s setting, no registry operation writes it)', '_profileNames': None, '_rawProfiles': None, '_profilesProperties': None, '_knownNames': None}
        return {'_usedMacros': dict(me._usedMacros), '_profileNames': list(me._profileNames),
                '_rawProfiles': {k: {kk: dict(vv) for kk, vv in v.items()} for k, v in me._rawProfiles.items()},
                '_profilesProperties': {k: dict(v) for k, v in me._profilesProperties.items()},
                '_knownNames': sorted(me._knownNames)}

    def case(label, start, fn_name, args, want_content, raises=None):
        me = registry(start)
        fn = m.get(f'Profiles.{fn_name}')
        ev = Evaluator(fn, intrinsics=intr, model_types=(_re.Pattern, _re.Match), module=m, cls='Profiles')
        res = ev.run(self=me, **copy.deepcopy(args))
        got = observe(me)
        want = _reference_state(builtin, want_content)
        diffs = [k for k in want if got[k] != want[k]]
        detail = ''
        ok = not diffs
        if raises:
            ok = ok and isinstance(res, Raised) and res.kind == raises
            if not (isinstance(res, Raised) and res.kind == raises):
                detail = f'expected {raises}, got {res!r}; '
        elif isinstance(res, Raised):
            ok, detail = False, f'raises {res.kind}; '
        for k in diffs[:2]:
            g, w = got[k], want[k]
            if isinstance(g, dict) and isinstance(w, dict):
                keys = [x for x in sorted(set(g) | set(w), key=str) if g.get(x) != w.get(x)][:2]
                detail += f'{k}: ' + '; '.join(f'{x!r} is {g.get(x)!r}, prescribed {w.get(x)!r}' for x in keys) + ' '
            else:
                detail += f'{k} is {g!r}, prescribed {w!r} '
        chk.ob(rid, P, f'Profiles.{fn_name}', label, ok, detail[:400])

    def sequence(label, start, steps, want_content):
        me = registry(start)
        for fn_name, args in steps:
            fn = m.get(f'Profiles.{fn_name}')
            res = Evaluator(fn, intrinsics=intr, model_types=(_re.Pattern, _re.Match), module=m, cls='Profiles').run(self=me, **copy.deepcopy(args))
            if isinstance(res, Raised):
                chk.ob(rid, P, f'Profiles.{fn_name}', label, False, f'raises {res.kind}')
                return
        got = observe(me)
        want = _reference_state(builtin, want_content)
        diffs = [k for k in want if got[k] != want[k]]
        detail = ''
        for k in diffs[:2]:
            g, w = got[k], want[k]
            if isinstance(g, dict) and isinstance(w, dict):
                keys = [x for x in sorted(set(g) | set(w), key=str) if g.get(x) != w.get(x)][:2]
                detail += f'{k}: ' + '; '.join(f'{x!r} is {g.get(x)!r}, prescribed {w.get(x)!r}' for x in keys) + ' '
            else:
                detail += f'{k} is {g!r}, prescribed {w!r} '
        chk.ob(rid, P, 'Profiles.' + '+'.join(f for f, _ in steps), label, not diffs, detail[:400] + ': the verdicts of a registry depend on what was registered and removed before')

    AB = [A, B]
    for X, what in ((S, 'whose macros shadow a built-in macro'), (S2, 'whose macros shadow a built-in macro nobody else shadows'), (T, "whose macros shadow another profile's macro"), (F, 'with new macros')):
        sequence(f'a profile {what} added and removed again leaves the prescribed state of the rest', AB,
                 [('addProfile', {'profile': X[0], 'properties': X[1], 'macros': X[2]}), ('removeProfile', {'profile': X[0]})], AB)
        sequence(f'a profile {what} added, removed, and another profile added: prescribed state', AB,
                 [('addProfile', {'profile': X[0], 'properties': X[1], 'macros': X[2]}), ('removeProfile', {'profile': X[0]}), ('addProfile', {'profile': N[0], 'properties': N[1], 'macros': None})], AB + [N])
    sequence('everything removed, then a profile added: prescribed state', AB, [('removeProfile', {'all': True}), ('addProfile', {'profile': N[0], 'properties': N[1], 'macros': None})], [N])
    X2 = ('X2', {'px2': 'x{%s}' % tok2}, {})  # uses the built-in macro that S2 shadowed, defines none
    sequence('a shadowing profile added, everything removed, a profile that uses the shadowed built-in macro added: it gets the built-in definition', AB,
             [('addProfile', {'profile': S2[0], 'properties': S2[1], 'macros': S2[2]}), ('removeProfile', {'all': True}), ('addProfile', {'profile': X2[0], 'properties': X2[1], 'macros': None})], [X2])
    sequence('the same with the profiles removed one by one', [A],
             [('addProfile', {'profile': S2[0], 'properties': S2[1], 'macros': S2[2]}), ('removeProfile', {'profile': 'S2'}), ('removeProfile', {'profile': 'A'}), ('addProfile', {'profile': X2[0], 'properties': X2[1], 'macros': None})], [X2])
    for X, what in ((N, 'without macros'), (F, 'with new macros'), (S, 'whose macros shadow a built-in macro'), (S2, 'whose macros shadow a built-in macro nobody else shadows'), (T, "whose macros shadow another profile's macro")):
        case(f'addProfile of a profile {what}', AB, 'addProfile', {'profile': X[0], 'properties': X[1], 'macros': X[2] or None}, AB + [X])
        case(f'addProfiles with one profile {what}', AB, 'addProfiles', {'profiles': [X]}, AB + [X])
        case(f'removeProfile of a profile {what}', AB + [X], 'removeProfile', {'profile': X[0]}, AB)
    case('addProfiles with two profiles sharing macros', [A], 'addProfiles', {'profiles': [B, F]}, [A, B, F])
    case('addProfile on the empty registry', [], 'addProfile', {'profile': A[0], 'properties': A[1], 'macros': A[2]}, [A])
    case('removeProfile of the first profile (its macro is shadowed by a later one)', AB, 'removeProfile', {'profile': 'A'}, [B])
    case('removeProfile of the last profile', [A], 'removeProfile', {'profile': 'A'}, [])
    case('removeProfile(all=True)', AB + [F], 'removeProfile', {'all': True}, [])
    case('removeProfile of an unknown profile is rejected and changes nothing', AB, 'removeProfile', {'profile': 'nope'}, AB, raises='NoSuchProfileException')
    case('_resetProperties re-derives everything from the raw profiles', AB, '_resetProperties', {}, AB)


def r14i(chk, rid='R14.i'):
    chk.rule(rid, 'closed set of writers: the registry state (_profilesProperties, _rawProfiles, _profileNames, _usedMacros, _knownNames) is written - stored, deleted from or mutated in place - only by Profiles.__init__ and by the operations R14.h evaluates together with the methods they call; no other function of the package, inside or outside the class, touches it. With R14.h this closes the induction over histories')
    m = chk.repo.mod(P)
    ops = ['addProfile', 'addProfiles', 'removeProfile', '_resetProperties']
    allowed = {'__init__'}
    work = list(ops)
    while work:
        nm = work.pop()
        if nm in allowed or not m.has(f'Profiles.{nm}'):
            continue
        allowed.add(nm)
        for c in ast.walk(m.get(f'Profiles.{nm}')):
            if isinstance(c, ast.Call) and isinstance(c.func, ast.Attribute) and isinstance(c.func.value, ast.Name) and c.func.value.id in ('self', 'Profiles', 'cls'):
                work.append(c.func.attr)
    MUT = ('clear', 'update', 'append', 'pop', 'remove', 'extend', 'insert', 'setdefault', 'popitem', 'sort', 'reverse', '__setitem__', '__delitem__')
    n = 0
    for rel, mod in chk.repo.modules.items():
        if not rel.startswith('cssutils/') or '/tests/' in rel:
            continue
        for node in ast.walk(mod.tree):
            hit = None
            if isinstance(node, (ast.Assign, ast.AugAssign, ast.Delete)):
                for t in (node.targets if not isinstance(node, ast.AugAssign) else [node.target]):
                    for tt in ([t] if not isinstance(t, (ast.Tuple, ast.List)) else t.elts):
                        while isinstance(tt, ast.Subscript):
                            tt = tt.value
                        if isinstance(tt, ast.Attribute) and tt.attr in STATE and tt.attr != '_defaultProfiles':
                            hit = tt
            elif isinstance(node, ast.Call) and isinstance(node.func, ast.Attribute) and node.func.attr in MUT:
                tt = node.func.value
                while isinstance(tt, ast.Subscript):
                    tt = tt.value
                if isinstance(tt, ast.Attribute) and tt.attr in STATE and tt.attr != '_defaultProfiles':
                    hit = tt
            if hit is None:
                continue
            n += 1
            q = mod.qualname_of(node)
            ok = rel == P and q.startswith('Profiles.') and q.split('.')[1] in allowed and isinstance(hit.value, ast.Name) and hit.value.id == 'self'
            chk.ob(rid, rel, q, f'`{text(mod.enclosing_stmt(node))[:70]}` writes {hit.attr}', ok,
                   'registry state changed outside the registry operations: verdicts then depend on whether this code ran, not on what is registered')
    if n < 12:
        raise AnalysisError(f'only {n} writes of registry state found')
