#!/venv/bin/python
"""Dev tool: run every check against behaviour-preserving refactorings
(/verif/twins/<name>/patch.diff).  A VIOLATION on a twin is a false alarm of the
check; exit 2 (cannot analyse the new shape) is acceptable, exit 0 ideal.
  twins.py add <name> <srcdir>
  twins.py run [name...]"""
import json, os, shutil, subprocess, sys, tempfile
from pathlib import Path
from concurrent.futures import ThreadPoolExecutor
V = Path('/verif'); T = V / 'twins'
ALL = [f'C{i:02d}' for i in range(1, 21)]

def sh(cmd):
    return subprocess.run(cmd, shell=True, text=True, capture_output=True)

def run_one(name):
    d = T / name
    w = Path(tempfile.mkdtemp(prefix='twin.')); t = w / 't'
    sh(f'git -C /repo worktree add -q --detach {t} HEAD')
    try:
        r = sh(f'git -C {t} apply {d / "patch.diff"}')
        partial = ''
        if r.returncode:
            # a later fix: commit may touch one of the refactored functions: keep the hunks that still apply
            r = sh(f'git -C {t} apply --reject {d / "patch.diff"}')
            sh(f'find {t} -name "*.rej" -delete')
            if not sh(f'git -C {t} status --porcelain').stdout.strip():
                return name, {'error': 'patch does not apply'}
            partial = ' (partial: some hunks no longer apply)'
        suite = sh(f'/verif/tools/baseline.py {t}').stdout.strip().splitlines()[0]
        res = {'suite': suite + partial, 'alarms': {}, 'cannot_analyse': {}}
        for pid in ALL:
            e = dict(os.environ, VERIF_REPO=str(t), VERIF_EVIDENCE_DIR=str(w / 'ev'), VERIF_OUT_DIR=str(w / 'out'))
            r = subprocess.run(['./check', pid], cwd=V, env=e, capture_output=True, text=True)
            if r.returncode == 1:
                res['alarms'][pid] = [l[8:260] for l in r.stdout.splitlines() if l.startswith('FINDING ')][:5]
            elif r.returncode == 2:
                res['cannot_analyse'][pid] = [l[:260] for l in r.stdout.splitlines() if l.startswith(('ANALYSIS-ERROR', 'SHAPE-MISMATCH'))][:4]
        return name, res
    finally:
        sh(f'git -C /repo worktree remove --force {t}'); shutil.rmtree(w, ignore_errors=True)

if sys.argv[1] == 'add':
    name, src = sys.argv[2:4]
    (T / name).mkdir(parents=True, exist_ok=True)
    shutil.copy(Path(src) / 'patch.diff', T / name / 'patch.diff')
    if (Path(src) / 'notes.md').exists():
        shutil.copy(Path(src) / 'notes.md', T / name / 'notes.md')
    print('added', name)
else:
    names = sys.argv[2:] or sorted(p.name for p in T.iterdir() if (p / 'patch.diff').exists())
    with ThreadPoolExecutor(max_workers=int(os.environ.get('SEED_JOBS', '6'))) as ex:
        for name, res in ex.map(run_one, names):
            (T / name / 'result.json').write_text(json.dumps(res, indent=1))
            print(f"{name:8s} suite[{res.get('suite','')[-22:]}] FALSE-ALARMS={sorted(res.get('alarms', {})) or '-'} cannot_analyse={sorted(res.get('cannot_analyse', {})) or '-'} {res.get('error','')}", flush=True)
