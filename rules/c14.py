"""C14 - the profile registry's verdicts depend on its contents, not its history."""
from __future__ import annotations

import ast

from sa import cfg as cfgmod
from sa.cfg import ENTRY, EXIT_EXC, EXIT_RET
from sa.core import AnalysisError, call_name, text

from .effects import Effects

P = 'cssutils/profiles.py'
STATE = ('_profilesProperties', '_rawProfiles', '_profileNames', '_usedMacros', '_knownNames', '_defaultProfiles')


def run(chk):
    r14g(chk)
    r14a(chk)
    r14b(chk)
    r14c(chk)
    r14d(chk)
    from .c13 import r13a, r13c

    r13c(chk, 'R14.e')
    r13a(chk, 'R14.f')


def _writes(node, attr):
    """Does this CFG node write self.<attr> (store, del, or in-place mutator)?"""
    for e in cfgmod.node_exprs(node):
        for x in cfgmod.walk_expr(e):
            if isinstance(x, (ast.Assign, ast.AugAssign, ast.Delete)):
                for t in (x.targets if not isinstance(x, ast.AugAssign) else [x.target]):
                    tt = t
                    while isinstance(tt, ast.Subscript):
                        tt = tt.value
                    if text(tt) == f'self.{attr}':
                        return True
            if isinstance(x, ast.Call) and isinstance(x.func, ast.Attribute) and text(x.func.value) == f'self.{attr}' and x.func.attr in ('clear', 'update', 'append', 'pop', 'remove', 'extend', 'insert', 'setdefault'):
                return True
    return False


def r14g(chk, rid='R14.g'):
    chk.rule(rid, 'the known-name list is derived state: every write to _knownNames happens in a function that rebuilds it from scratch out of _profilesProperties; incremental patching (extend / filtering the old list) cannot account for a name that several profiles define')
    m = chk.repo.mod(P)
    n = 0
    for q, fn in m.functions():
        if not q.startswith('Profiles.') or q.count('.') != 1:
            continue
        writes = []
        for x in ast.walk(fn):
            if isinstance(x, (ast.Assign, ast.AugAssign)):
                for t in (x.targets if isinstance(x, ast.Assign) else [x.target]):
                    if text(t) == 'self._knownNames':
                        writes.append(x)
            if isinstance(x, ast.Call) and isinstance(x.func, ast.Attribute) and text(x.func.value) == 'self._knownNames' and x.func.attr in ('extend', 'append', 'remove', 'pop', 'clear', 'insert'):
                writes.append(x)
        if not writes:
            continue
        n += 1
        src = ast.unparse(fn)
        rebuild = any(isinstance(w, ast.Assign) and (text(w.value) == '[]' or ('self._profilesProperties' in text(w.value) and 'self._knownNames' not in text(w.value))) for w in writes) and 'self._profilesProperties' in src
        self_ref = any(isinstance(w, ast.Assign) and 'self._knownNames' in text(w.value) for w in writes)
        chk.ob(rid, P, q, 'rebuilds _knownNames from the compiled tables', rebuild and not self_ref,
               'the list is patched instead of recomputed: removing a profile drops (or keeps) names that another registered profile also defines, so knownNames and the verdicts depend on the order of operations')
    if n < 1:
        raise AnalysisError('no writer of _knownNames found')


def r14a(chk, rid='R14.a'):
    chk.rule(rid, 'known-name list refreshed: in every public registry mutator, every normal path on which the compiled table _profilesProperties is written (directly or through _resetProperties) passes __update_knownNames afterwards')
    eff = Effects.get(chk.repo)
    if not hasattr(eff, 'writes'):
        eff.compute_writes(scratch={'_readonly', '_log'})
    n = 0
    for name in ('addProfile', 'addProfiles', 'removeProfile'):
        fn = chk.repo.fn(P, f'Profiles.{name}')
        g = cfgmod.CFG(fn)

        def touches(nd):
            if _writes(nd, '_profilesProperties'):
                return True
            for c in cfgmod.calls_at(nd):
                if call_name(c) in ('self._resetProperties',):
                    return True
            return False

        def refresh(nd):
            for c in cfgmod.calls_at(nd):
                cn = call_name(c)
                if cn == 'self.__update_knownNames':
                    return True
                if cn == 'self.addProfile':  # addProfiles delegates; addProfile is checked itself
                    return True
            return False

        W = [nd for nd in g.nodes if nd.stmt is not None and touches(nd)]
        if name != 'addProfiles' and not W:
            raise AnalysisError(f'Profiles.{name}: writes of _profilesProperties not found')
        for w in W:
            n += 1
            seen = g.reachable([w.id], avoid=refresh)
            ok = EXIT_RET not in seen
            chk.ob(rid, P, f'Profiles.{name}', f'`{g.describe(w.id)[:60]}` is followed by __update_knownNames on every return', ok,
                   '' if ok else 'knownNames keeps listing removed properties / misses new ones: ' + ' -> '.join(g.path(seen, {w.id}, EXIT_RET)[-4:]))
        if name == 'addProfiles':
            calls = [c for nd in g.nodes for c in cfgmod.calls_at(nd) if call_name(c) == 'self.addProfile']
            chk.ob(rid, P, 'Profiles.addProfiles', 'adds each profile through addProfile', bool(calls), '')
    if n < 4:
        raise AnalysisError(f'only {n} table writes found')
    # __update_knownNames rebuilds from scratch
    fn = chk.repo.fn(P, 'Profiles.__update_knownNames')
    src = ast.unparse(fn)
    chk.ob(rid, P, 'Profiles.__update_knownNames', 'rebuilds the list from the compiled tables', 'self._knownNames = []' in src and 'self._profilesProperties.values()' in src, src[:150], shape=True)


def r14b(chk, rid='R14.b'):
    chk.rule(rid, 'removing an unknown profile changes nothing: in removeProfile the lookup that fails for an unknown name (a subscript on a registry table) dominates the first deletion, and the KeyError is turned into NoSuchProfileException')
    fn = chk.repo.fn(P, 'Profiles.removeProfile')
    g = cfgmod.CFG(fn)
    dels = [n for n in g.nodes if n.kind == 'stmt' and isinstance(n.stmt, ast.Delete) and 'profile' in text(n.stmt) and any(_writes(n, t) for t in ('_profilesProperties', '_rawProfiles', '_profileNames')) and '[:]' not in text(n.stmt)]
    if len(dels) < 3:
        raise AnalysisError('removeProfile: deletions not found')
    lookups = [n for n in g.nodes if n not in dels and any(isinstance(x, ast.Subscript) and isinstance(x.ctx, ast.Load) and text(x.value) in ('self._rawProfiles', 'self._profilesProperties') and text(x.slice) == 'profile' for e in cfgmod.node_exprs(n) for x in cfgmod.walk_expr(e))]
    ok = bool(lookups)
    if ok:
        for d in dels:
            okd, _ = g.all_paths_pass([ENTRY], lambda n: n in lookups, targets=[d.id])
            ok = ok and okd
    chk.ob(rid, P, 'Profiles.removeProfile', 'a failing lookup precedes every deletion', ok, 'an unknown profile name can delete part of the registry before the error is raised')
    src = ast.unparse(fn)
    chk.ob(rid, P, 'Profiles.removeProfile', 'KeyError becomes NoSuchProfileException', 'except KeyError' in src and 'raise NoSuchProfileException' in src, '', shape=True)
    # the three tables are reduced together
    tables = {t for d in dels for t in ('_profilesProperties', '_rawProfiles', '_profileNames') if f'self.{t}[' in text(d.stmt)}
    chk.ob(rid, P, 'Profiles.removeProfile', 'compiled table, raw table and name list are reduced together', tables == {'_profilesProperties', '_rawProfiles', '_profileNames'}, str(sorted(tables)))


def r14c(chk, rid='R14.c'):
    chk.rule(rid, 'derived macro environment: every branch of a mutator that removes raw profiles also recomputes _usedMacros (by _resetProperties when the removed profile had macros, or by resetting to the built-in macros), so that a later profile cannot use macros of a profile that is gone; _resetProperties rebuilds the environment from the built-ins plus the remaining raw profiles')
    fn = chk.repo.fn(P, 'Profiles.removeProfile')
    m = chk.repo.mod(P)
    allb = [n for n in fn.body if isinstance(n, ast.If) and text(n.test) == 'all']
    if len(allb) != 1:
        raise AnalysisError('removeProfile: `if all:` not found')
    eff = Effects.get(chk.repo)
    if not hasattr(eff, 'writes'):
        eff.compute_writes(scratch={'_readonly', '_log'})

    def branch_writes(stmts):
        w = set()
        for st in stmts:
            for x in ast.walk(st):
                if isinstance(x, (ast.Assign, ast.AugAssign, ast.Delete)):
                    for t in (x.targets if not isinstance(x, ast.AugAssign) else [x.target]):
                        a = eff.self_attr(t)
                        if a:
                            w.add(a)
                if isinstance(x, ast.Call) and isinstance(x.func, ast.Attribute):
                    a = eff.self_attr(x.func.value)
                    if a and x.func.attr in eff.SELF_MUTATORS:
                        w.add(a)
                    if isinstance(x.func.value, ast.Name) and x.func.value.id == 'self':
                        for c in eff.resolve_call(P, 'Profiles.removeProfile', x):
                            w |= eff.writes.get(c, set())
        return w

    wall_ = branch_writes(allb[0].body)
    clears = '_rawProfiles' in wall_
    resets = '_usedMacros' in wall_
    chk.ob(rid, P, 'Profiles.removeProfile', 'removing all profiles resets the macro environment', clears and resets,
           'the macros of the removed profiles stay usable: add a profile with macro foo, remove all, add a profile that uses {foo} without defining it - accepted, while a fresh registry raises KeyError')
    other = ast.unparse(ast.Module(body=allb[0].orelse, type_ignores=[]))
    chk.ob(rid, P, 'Profiles.removeProfile', 'removing one profile with macros re-expands the rest', "self._rawProfiles[profile]['macros']" in other and 'self._resetProperties()' in other, '', shape=True)
    # the re-expansion must depend on nothing but "the removed profile had macros"
    resets = [c for c in ast.walk(allb[0].orelse[0] if allb[0].orelse else fn) if False]
    ctrl = []
    for n in ast.walk(ast.Module(body=allb[0].orelse, type_ignores=[])):
        if isinstance(n, ast.If) and any(isinstance(c, ast.Call) and call_name(c) == 'self._resetProperties' for s2 in n.body for c in ast.walk(s2)):
            ctrl.append(n)
    okc = len(ctrl) == 1
    if okc:
        t = ctrl[0].test
        if isinstance(t, ast.Name):
            # a flag: set to True only under a truthiness test of the removed profile's macros
            setters = [x for x in ast.walk(fn) if isinstance(x, ast.Assign) and text(x.targets[0]) == t.id and text(x.value) == 'True']
            okc = bool(setters) and all(isinstance(m.parents.get(x), ast.If) and text(m.parents[x].test) == "self._rawProfiles[profile]['macros']" for x in setters)
        else:
            okc = text(t) in ("self._rawProfiles[profile]['macros']", 'macros')
    chk.ob(rid, P, 'Profiles.removeProfile', 'the rest is re-expanded whenever the removed profile had macros (no further condition)', okc,
           'macros of the removed profile that shadow a macro of another profile stay compiled into the remaining patterns: add + remove does not restore the verdicts')
    # derived state is recomputed, never patched
    for q, f in m.functions():
        if not q.startswith('Profiles.'):
            continue
        for c in ast.walk(f):
            if isinstance(c, ast.Call) and isinstance(c.func, ast.Attribute) and text(c.func.value) == 'self._usedMacros' and c.func.attr in ('pop', 'clear', 'popitem', '__delitem__'):
                chk.ob(rid, P, q, f'`{text(c)[:60]}`', False, 'the macro environment is derived state: removing single entries cannot restore a macro that the removed one was shadowing - it has to be recomputed from the raw profiles')
            if isinstance(c, ast.Delete) and any('self._usedMacros' in text(t) for t in c.targets):
                chk.ob(rid, P, q, f'`{text(c)[:60]}`', False, 'the macro environment is derived state and must be recomputed, not patched')
    rp = ast.unparse(chk.repo.fn(P, 'Profiles._resetProperties'))
    ok = 'macros = Profiles._TOKEN_MACROS.copy()' in rp and 'macros.update(Profiles._MACROS.copy())' in rp and "macros.update(self._rawProfiles[profile]['macros'])" in rp and 'self._usedMacros = macros' in rp and 'self._profilesProperties.clear()' in rp
    chk.ob(rid, P, 'Profiles._resetProperties', 'environment = built-in macros + macros of the remaining profiles; all tables re-expanded from the raw patterns', ok, 'history leaks into the environment', shape=True)
    ap = ast.unparse(chk.repo.fn(P, 'Profiles.addProfile'))
    chk.ob(rid, P, 'Profiles.addProfile', 'a profile that redefines a known macro re-expands everything', 'self._resetProperties(newMacros=macros)' in ap and "'properties': properties.copy()" in ap and "'macros': macros.copy()" in ap, '', shape=True)


def r14d(chk, rid='R14.d'):
    chk.rule(rid, 'restricting the default profiles changes only which profile is reported: validateWithProfile consults the given/default profiles first and then every other registered profile (the complement over _profileNames), so validity is "some registered profile accepts"; the defaultProfiles setter only stores the value')
    fn = chk.repo.fn(P, 'Profiles.validateWithProfile')
    loops = [n for n in ast.walk(fn) if isinstance(n, ast.For)]
    its = [text(l.iter) for l in loops]
    chk.ob(rid, P, 'Profiles.validateWithProfile', 'first the requested profiles', any(i == 'reversed(profiles)' for i in its), str(its))
    chk.ob(rid, P, 'Profiles.validateWithProfile', 'then all remaining registered profiles', any('for p in self._profileNames if p not in profiles' in i for i in its), str(its))
    rets = [text(r.value) for r in ast.walk(fn) if isinstance(r, ast.Return)]
    chk.ob(rid, P, 'Profiles.validateWithProfile', 'matching is False when only a remaining profile accepts, validity stays True', '(True, False, [profilename])' in rets and '(True, True, [profilename])' in rets, str(rets))
    st = chk.repo.fn(P, 'Profiles._setDefaultProfiles')
    eff = Effects.get(chk.repo)
    w = eff.writes.get((P, 'Profiles._setDefaultProfiles'), set())
    chk.ob(rid, P, 'Profiles._setDefaultProfiles', 'only stores the selection', w == {'_defaultProfiles'}, f'writes {sorted(w)}')
    gd = ast.unparse(chk.repo.fn(P, 'Profiles._getDefaultProfiles'))
    chk.ob(rid, P, 'Profiles._getDefaultProfiles', 'no selection means all registered profiles', 'return self.profiles' in gd, '', shape=True)
