"""C02 - the operator grammar of calc(), read off the production objects as a regular language."""
from __future__ import annotations

import ast
import itertools

from sa.core import AnalysisError, call_name, kw, text

VALUE = 'cssutils/css/value.py'
TOKENS = {'S': ('S', ' '), '*': ('CHAR', '*'), '/': ('CHAR', '/'), '+': ('CHAR', '+'), '-': ('CHAR', '-'), ')': ('CHAR', ')'), 'x': ('IDENT', 'x')}


def _language(m, fn, expr, maxlen, _depth=0):
    """Set of token-name tuples (up to maxlen) the production expression accepts: Choice = union,
    Sequence = concatenation (an `optional=True` member may be left out), Prod = the representative
    tokens its match predicate accepts (the predicate is evaluated), PreDef.S / funcEnd / char = their token."""
    from sa.absint import Evaluator, Raised

    if _depth > 12:
        raise AnalysisError('calc(): production objects nest too deeply')
    if isinstance(expr, ast.Name):
        binds = [st.value for st in ast.walk(fn) if isinstance(st, ast.Assign) and len(st.targets) == 1 and isinstance(st.targets[0], ast.Name) and st.targets[0].id == expr.id]
        if len(binds) != 1:
            raise AnalysisError(f'calc(): `{expr.id}` is not bound exactly once')
        return _language(m, fn, binds[0], maxlen, _depth + 1)
    if not isinstance(expr, ast.Call):
        raise AnalysisError(f'calc(): production expression `{text(expr)[:40]}` not recognised')
    cn = call_name(expr)
    optional = kw(expr, 'optional')
    opt = isinstance(optional, ast.Constant) and optional.value is True
    if kw(expr, 'minmax') is not None:
        raise AnalysisError('calc(): repetition inside the operator production')
    if cn == 'Choice':
        lang = set()
        for a in expr.args:
            lang |= _language(m, fn, a, maxlen, _depth + 1)
    elif cn == 'Sequence':
        lang = {()}
        for a in expr.args:
            sub = _language(m, fn, a, maxlen, _depth + 1)
            lang = {x + y for x in lang for y in sub if len(x + y) <= maxlen}
    elif cn == 'Prod':
        match = kw(expr, 'match')
        if not isinstance(match, ast.Lambda):
            raise AnalysisError('calc(): Prod without a match lambda')
        lang = set()
        for name, (t, v) in TOKENS.items():
            got = Evaluator(match, module=m).call_function(match, [t, v], {})
            if isinstance(got, Raised):
                raise AnalysisError(f'calc(): match predicate fails on {name!r}')
            if got:
                lang.add((name,))
    elif cn == 'PreDef.S':
        lang = {('S',)}
    elif cn == 'PreDef.funcEnd':
        lang = {(')',)}
    elif cn == 'PreDef.char' and len(expr.args) >= 2 and isinstance(expr.args[1], ast.Constant):
        lang = {(expr.args[1].value,)}
    else:
        raise AnalysisError(f'calc(): production `{cn}` not recognised')
    if opt:
        lang = lang | {()}
    return lang


def r02h(chk, rid='R02.h'):
    chk.rule(rid, 'white space around the operators of calc(): the operator production of CSSCalc._setCssText is read as a regular language over token kinds (Choice = union, Sequence = concatenation, optional members may be left out, match predicates evaluated on a representative token of each kind) and compared with the grammar: `*` and `/` stand alone, or behind white space with optional white space behind them; `+` and `-` need white space on both sides; white space may be followed by the closing parenthesis - so calc(1px*2), calc(1px *2), calc(1px* 2) and calc(1px * 2) are one value')
    m = chk.repo.mod(VALUE)
    fn = m.get('CSSCalc._setCssText')
    ops = [st for st in ast.walk(fn) if isinstance(st, ast.Assign) and len(st.targets) == 1 and isinstance(st.targets[0], ast.Name) and 'operator' in st.targets[0].id.lower()]
    if len(ops) != 1:
        raise AnalysisError(f'CSSCalc._setCssText: {len(ops)} operator productions found')
    lang = _language(m, fn, ops[0].value, 3)
    want = {('*',), ('/',), ('S', '*'), ('S', '/'), ('S', '*', 'S'), ('S', '/', 'S'), ('S', '+', 'S'), ('S', '-', 'S'), ('S', ')')}
    missing = sorted(want - lang)
    extra = sorted(lang - want)
    chk.ob(rid, VALUE, 'CSSCalc._setCssText', 'the operator production accepts every spelling of an operator the grammar allows', not missing,
           f'not accepted: {[" ".join(x) for x in missing]} - the same calc() expression written with other white space no longer parses and the declaration is dropped')
    chk.ob(rid, VALUE, 'CSSCalc._setCssText', 'the operator production accepts nothing else (+ and - need white space on both sides)', not extra, f'also accepted: {[" ".join(x) for x in extra]}')
