"""C19 - URL enumeration/replacement exact; flattening @imports preserves meaning
(structural parts)."""
from __future__ import annotations

import ast

from sa.core import AnalysisError, call_name, const, kw, text

from .c09 import denied

INIT = 'cssutils/__init__.py'
MEDIA = 'cssutils/css/cssmediarule.py'
KIND_CLASS = {
    'COMMENT': 'CSSComment', 'STYLE_RULE': 'CSSStyleRule', 'IMPORT_RULE': 'CSSImportRule', 'CHARSET_RULE': 'CSSCharsetRule',
    'NAMESPACE_RULE': 'CSSNamespaceRule', 'FONT_FACE_RULE': 'CSSFontFaceRule', 'MEDIA_RULE': 'CSSMediaRule', 'PAGE_RULE': 'CSSPageRule',
    'MARGIN_RULE': 'MarginRule', 'UNKNOWN_RULE': 'CSSUnknownRule', 'VARIABLES_RULE': 'CSSVariablesRule',
}


def run(chk):
    chk.attempt(r19a, chk)
    chk.attempt(r19b, chk)
    chk.attempt(r19c, chk)
    chk.attempt(r19d, chk)
    chk.attempt(r19e, chk)
    chk.attempt(r19f, chk)
    chk.attempt(r19g, chk)


def _replace_functions(m):
    out = []
    for st in m.tree.body:
        if isinstance(st, ast.FunctionDef) and (st.name == 'replaceUrls' or any('replaceUrls.register' in text(d) for d in st.decorator_list)):
            out.append(st)
    return out


def r19a(chk, rid='R19.a'):
    chk.rule(rid, 'replacer identity form: in replaceUrls and its overload every store has the shape X.attr = replacer(X.attr) - same object, same attribute, one call - and nothing else is written; so the identity replacer is a no-op and each URL is handed to the replacer once per visit')
    m = chk.repo.mod(INIT)
    fns = _replace_functions(m)
    if len(fns) != 2:
        raise AnalysisError(f'{len(fns)} replaceUrls implementations found (2 expected)')
    n = 0
    # module-level helpers the implementations call (transitively) belong to them
    top = {st.name: st for st in m.tree.body if isinstance(st, ast.FunctionDef) and st not in fns}
    work, helpers = list(fns), []
    while work:
        f = work.pop()
        for c in ast.walk(f):
            if isinstance(c, ast.Call) and isinstance(c.func, ast.Name) and c.func.id in top and top[c.func.id] not in helpers and c.func.id != 'replaceUrls':
                helpers.append(top[c.func.id])
                work.append(top[c.func.id])
    for fn in fns + helpers:
        q = 'replaceUrls' if fn.name == 'replaceUrls' else ('replaceUrls[CSSStyleDeclaration]' if fn in fns else fn.name)
        for st in ast.walk(fn):
            if isinstance(st, (ast.Assign, ast.AugAssign)):
                for t in (st.targets if isinstance(st, ast.Assign) else [st.target]):
                    if isinstance(t, ast.Attribute):
                        n += 1
                        v = st.value
                        ok = isinstance(st, ast.Assign) and isinstance(v, ast.Call) and text(v.func) == 'replacer' and len(v.args) == 1 and text(v.args[0]) == text(t) and not v.keywords
                        chk.ob(rid, INIT, q, text(st), ok, 'the attribute is not rewritten with exactly replacer(old value): the identity replacer would change the sheet, or another attribute is touched')
            if isinstance(st, ast.Call) and isinstance(st.func, ast.Attribute) and st.func.attr in ('setProperty', 'removeProperty', 'insertRule', 'deleteRule', 'add'):
                chk.ob(rid, INIT, q, text(st)[:60], False, 'replaceUrls changes the structure of the sheet')
        calls = [c for c in ast.walk(fn) if isinstance(c, ast.Call) and text(c.func) == 'replacer']
        for c in calls:
            par = m.parents.get(c)
            chk.ob(rid, INIT, q, f'`{text(c)}` is only used as the new value of that attribute', isinstance(par, ast.Assign), 'the replacer is called without storing its result (called more often than URLs are replaced)', trivial=True)
    if n < 2:
        raise AnalysisError('replaceUrls: stores not found')


def r19b(chk, rid='R19.b'):
    chk.rule(rid, 'combinable ⊆ accepted: the rule kinds MediaCombineDisallowed lets into an @media wrapper are kinds CSSMediaRule.insertRule does not reject')
    m = chk.repo.mod(INIT)
    fn = m.get('MediaCombineDisallowed._combinable')
    tup = [n for n in ast.walk(fn) if isinstance(n, ast.Assign) and text(n.targets[0]) == 'combinable']
    if len(tup) != 1:
        raise AnalysisError('_combinable: tuple not found')
    kinds = [e.attr for e in ast.walk(tup[0].value) if isinstance(e, ast.Attribute)]
    if not kinds:
        raise AnalysisError('_combinable: no kinds')
    den = denied(chk.repo.mod(MEDIA), chk.repo.fn(MEDIA, 'CSSMediaRule.insertRule'))
    for k in kinds:
        cls = KIND_CLASS.get(k)
        if cls is None:
            raise AnalysisError(f'unknown rule kind {k}')
        chk.ob(rid, INIT, 'MediaCombineDisallowed._combinable', f'{k} ({cls}) may be inserted into an @media rule', cls not in den,
               f'{cls} passes the combinable test but CSSMediaRule.insertRule rejects it: when the imported sheet is wrapped in @media the rule is lost (or HierarchyRequestErr is raised)')
    chk.ob(rid, INIT, 'MediaCombineDisallowed._combinable', 'style rules and comments are combinable', {'STYLE_RULE', 'COMMENT'} <= set(kinds), str(kinds))


def _model_sheet():
    """A model style sheet for the evaluator: @import rules, style rules, an @media rule with
    nested rules, an @page rule with its own declarations *and* margin boxes, a comment."""
    from sa.absint import Record

    class Sheet(Record):
        def __iter__(self):
            return iter(self.cssRules)

    IMPORT, STYLE, MEDIA, PAGE, MARGIN, COMMENT = 3, 1, 4, 6, 1006, 1001

    def style(*props):
        """props: lists of values; the last property is the effective one"""
        plist = [Record(propertyValue=list(vs)) for vs in props]
        return Record(getProperties=lambda name=None, all=False: list(plist) if all else plist[-1:])

    def uri(u):
        return Record(type='URI', uri=u)

    def ident(v):
        return Record(type='IDENT', value=v)

    def rule(type_, **kw):
        return Record(type=type_, IMPORT_RULE=IMPORT, **kw)

    rules = [
        rule(IMPORT, href='imp1'),
        rule(COMMENT),
        rule(STYLE, style=style([uri('s1-overridden')], [ident('red'), uri('s1a'), uri('s1b')])),
        rule(MEDIA, cssRules=[rule(STYLE, style=style([uri('m1')])), rule(PAGE, style=style([uri('mp-own')]), cssRules=[rule(MARGIN, style=style([uri('mp-box')]))])]),
        rule(IMPORT, href='imp2'),
        rule(PAGE, style=style([ident('x')], [uri('p-own')]), cssRules=[rule(MARGIN, style=style([uri('p-box1')])), rule(MARGIN, style=style([ident('none')]))]),
        rule(STYLE, style=style([ident('nothing')])),
        rule(STYLE, style=style([uri('s1a')])),  # the same URL text a second time: one more occurrence, one more call of the replacer
    ]
    sheet = Sheet(cssRules=rules)
    imports = ['imp1', 'imp2']
    others = ['s1-overridden', 's1a', 's1b', 'm1', 'mp-own', 'mp-box', 'p-own', 'p-box1', 's1a']
    return sheet, imports, others


def _all_values(base, out):
    for r in getattr(base, 'cssRules', ()):
        _all_values(r, out)
    if hasattr(base, 'style'):
        for p in base.style.getProperties(all=True):
            out.extend(p.propertyValue)
    return out


def r19c(chk, rid='R19.c'):
    chk.rule(rid, 'one enumeration for reading and replacing, decided by evaluation: getUrls, replaceUrls and its CSSStyleDeclaration overload (with _style_declarations, _uri_values and any helper they call) are evaluated on their syntax trees over a model sheet - @import rules, overridden and effective declarations, url() and other values, an @media rule with nested rules, @page rules that have own declarations and margin boxes: every @import target and every url() value is listed exactly once, imports first; the replacer is called exactly once for each occurrence (a URL that occurs twice is handed over twice) and its result is stored in the attribute it was read from; nothing else is written; ignoreImportRules leaves the @import targets alone')
    chk.assume('R19.c: sheets, rules, declarations and values are model objects; getProperties(all=False) of the model returns only the last declaration of a name, so all=True is observable')
    import itertools

    from sa.absint import Evaluator, Raised

    m = chk.repo.mod(INIT)
    intr = {'itertools.chain': lambda *its: [x for it in its for x in it], '_flatten': lambda its: [x for it in its for x in it],
            'itertools.chain.from_iterable': lambda its: [x for it in its for x in it], 'itertools.filterfalse': lambda f, it: [x for x in it if not f(x)]}
    sheet, imports, others = _model_sheet()
    got = Evaluator(m.get('getUrls'), intrinsics=intr, module=m).run(sheet=sheet)
    got = list(got) if not isinstance(got, Raised) else got
    ok = isinstance(got, list) and sorted(got) == sorted(imports + others)
    chk.ob(rid, INIT, 'getUrls', 'every @import target and every url() value is listed exactly once', ok,
           f'listed {got}; the sheet holds {imports + others}' + (': URLs of overridden declarations or of rules that have both nested rules and own declarations are missing' if isinstance(got, list) and len(got) < len(imports + others) else ''))
    if isinstance(got, list):
        chk.ob(rid, INIT, 'getUrls', 'imports first, in document order; then the url() values with sibling rules in document order', got[:len(imports)] == imports and [u for u in got if u in ('s1a', 'm1', 'p-own')] == ['s1a', 'm1', 'p-own', 's1a'], f'order {got}')
    fns = _replace_functions(m)
    main = [f for f in fns if f.name == 'replaceUrls']
    over = [f for f in fns if f.name != 'replaceUrls']
    if len(main) != 1 or len(over) != 1:
        raise AnalysisError('replaceUrls and its overload not found')
    for ignore in (False, True):
        sheet, imports, others = _model_sheet()
        before = [(v, dict(v.__dict__)) for v in _all_values(sheet, [])]
        calls = []

        def replacer(u):
            calls.append(u)
            return f'R({u})'

        res = Evaluator(main[0], intrinsics=intr, module=m).run(sheet=sheet, replacer=replacer, ignoreImportRules=ignore)
        want_calls = ([] if ignore else imports) + others
        label = f'replaceUrls(ignoreImportRules={ignore})'
        chk.ob(rid, INIT, 'replaceUrls', f'{label}: the replacer is called exactly once with each URL', not isinstance(res, Raised) and sorted(calls) == sorted(want_calls), f'called with {calls}, the sheet holds {want_calls}' + (f'; {res!r}' if isinstance(res, Raised) else ''))
        hrefs = [r.href for r in sheet.cssRules if r.type == 3]
        chk.ob(rid, INIT, 'replaceUrls', f'{label}: @import targets ' + ('are left alone' if ignore else 'receive the replacement'), hrefs == (imports if ignore else [f'R({u})' for u in imports]), str(hrefs))
        bad = []
        for v, old in before:
            now = dict(v.__dict__)
            exp = dict(old)
            if old.get('type') == 'URI':
                exp['uri'] = f"R({old['uri']})"
            if now != exp:
                bad.append((old, now))
        chk.ob(rid, INIT, 'replaceUrls', f'{label}: every url() value holds the replacement of its own old value, nothing else is written', not bad, str(bad[:2]))
    # the overload for a single declaration block
    sheet, imports, others = _model_sheet()
    st = sheet.cssRules[2].style
    calls = []
    res = Evaluator(over[0], intrinsics=intr, module=m).run(style=st, replacer=lambda u: (calls.append(u), f'R({u})')[1])
    vals = [v.uri for p in st.getProperties(all=True) for v in p.propertyValue if v.type == 'URI']
    chk.ob(rid, INIT, 'replaceUrls[CSSStyleDeclaration]', 'the overload replaces every url() of the block, overridden declarations included, once each', not isinstance(res, Raised) and sorted(calls) == ['s1-overridden', 's1a', 's1b'] and vals == ['R(s1-overridden)', 'R(s1a)', 'R(s1b)'], f'called with {calls}; values now {vals}')


def r19d(chk, rid='R19.d'):
    chk.rule(rid, 'path re-basing, decided by evaluation: Replacer.__init__, extract_base and __call__ are evaluated on their syntax trees (posixpath, urllib.parse and pathname2url are used as they are) for @import hrefs in child, sibling and parent directories, root-relative, scheme-relative and absolute, and for URLs that are relative (plain, dotted, with query and fragment, with quoted and unquoted special characters), root-relative, scheme-relative, absolute or data: URLs: resolved from the combined sheet, the rewritten URL denotes the same absolute URL as the original did from the imported sheet; anything with a scheme, a host or a root-relative path is kept as it is')
    chk.assume('R19.d: posixpath, urllib.parse and pathname2url are used as they are; equality of URLs is compared after unquoting')
    import urllib.parse

    from sa.absint import Evaluator, Raised, Record

    m = chk.repo.mod(INIT)
    init, call = m.get('Replacer.__init__'), m.get('Replacer.__call__')
    root = 'http://host/css/site.css'
    hrefs = ['x.css', 'sub/x.css', 'sub/deep/x.css', '../up/x.css', './x.css', '/abs/x.css', 'http://other/d/x.css', '//other/d/x.css', 'http://host/css/sub/x.css']
    urls = ['i.png', 'img/i.png', '../i.png', './a/../i.png', 'font.eot?#iefix', 'a.svg#frag', 'q.png?v=2', 'a b.png', 'a%20b.png', 'p%25q.png', '/root.png', '//cdn/x.png', 'http://o/x.png', 'data:image/png;base64,AA==', 'mailto:x@y']
    n = 0
    bad = []
    for href in hrefs:
        me = Record()
        r0 = Evaluator(init, module=m, cls='Replacer').run(self=me, base=href)
        if isinstance(r0, Raised):
            raise AnalysisError(f'Replacer.__init__({href!r}): {r0!r}')
        for url in urls:
            got = Evaluator(call, module=m, cls='Replacer').run(self=me, uri=url)
            n += 1
            nbad = len(bad)
            if isinstance(got, Raised) or not isinstance(got, str):
                bad.append(f'Replacer({href!r})({url!r}) gives {got!r}')
                chk.ob(rid, INIT, 'Replacer.__call__', f'@import {href!r}: url({url}) keeps its meaning', False, bad[-1])
                continue
            parts = urllib.parse.urlsplit(url)
            want = urllib.parse.urljoin(urllib.parse.urljoin(root, href), url)
            have = urllib.parse.urljoin(root, got)
            if parts.scheme or parts.netloc or parts.path.startswith('/'):
                href_abs = bool(urllib.parse.urlsplit(href).scheme or urllib.parse.urlsplit(href).netloc)
                if got != url and not (href_abs and urllib.parse.unquote(want) == urllib.parse.unquote(have)):
                    bad.append(f'Replacer({href!r})({url!r}) changes an absolute URL to {got!r}')
            elif urllib.parse.unquote(want) != urllib.parse.unquote(have):
                bad.append(f'Replacer({href!r})({url!r}) gives {got!r}: resolves to {have}, the original to {want}')
            chk.ob(rid, INIT, 'Replacer.__call__', f'@import {href!r}: url({url}) keeps its meaning', len(bad) == nbad, bad[-1] if len(bad) > nbad else '', trivial=True)
    chk.extra['rebasing_cases'] = n
    chk.ob(rid, INIT, 'Replacer.__call__', f'all {n} (import href, URL) pairs keep their meaning', not bad, f'{len(bad)} pairs do not')


def r19e(chk, rid='R19.e'):
    chk.rule(rid, 'flattening fall-backs: _resolve_import keeps the @import rule as it is (target.add(rule); return) when the target was not found, when resolving the nested sheet raises HierarchyRequestErr and when the media wrapper is not allowed; URLs of the imported sheet are rebased with Replacer(rule.href) without touching nested @import rules; a media wrapper is created only for media other than all; resolveImports skips @charset and keeps every other rule in order')
    m = chk.repo.mod(INIT)
    _eval_flatten(chk, rid, m)


def _eval_flatten(chk, rid, m):
    """resolveImports / _resolve_import / _check_media_proxy evaluated on their syntax trees over
    a model import tree (sheets, rules and the sheet constructors are model objects; replaceUrls is
    recorded, its own behaviour is R19.c; MediaCombineDisallowed.check applies _combinable, which
    is evaluated from the source, to every rule)."""
    chk.assume("R19.e: replaceUrls is recorded (R19.c decides it); MediaCombineDisallowed.check is modelled as 'raise if _combinable (evaluated from the source) rejects a rule'; target.add never refuses in the model")
    from sa.absint import Evaluator, Raised, Record, _Raise

    class Sheet(Record):
        def __iter__(self):
            return iter(self.cssRules)

    K = dict(CHARSET_RULE=2, IMPORT_RULE=3, STYLE_RULE=1, COMMENT=1001, NAMESPACE_RULE=10, MEDIA_RULE=4)

    def rule(kind, tag, **kw):
        return Record(type=K[kind], tag=tag, cssText=tag, **K, **kw)

    class RL(list):
        def rulesOfType(self, t):
            return [r for r in self if r.type == t]

    def sheet(*rules):
        sh = Sheet(cssRules=RL(rules), href='h', media='m', title='t')

        def add(r):
            if getattr(r, 'tag', '') == 'poison':
                raise _Raise('HierarchyRequestErr')
            sh.cssRules.append(r)
        sh.add = add
        return sh

    def imp(tag, media, target):
        return rule('IMPORT_RULE', tag, href=tag + '.css', hrefFound=target is not None, styleSheet=target, media=Record(mediaText=media))

    A1 = sheet(rule('STYLE_RULE', 'a1'))
    A = sheet(imp('A1', 'all', A1), rule('STYLE_RULE', 'a2'))
    B = sheet(rule('COMMENT', 'bc'), rule('STYLE_RULE', 'b1'))
    D = sheet(rule('NAMESPACE_RULE', 'n'), rule('STYLE_RULE', 'd1'))
    E_ = sheet(rule('STYLE_RULE', 'e1'), rule('STYLE_RULE', 'poison'))  # flattening it is refused (HierarchyRequestErr)
    F = sheet(rule('STYLE_RULE', 'f1'))  # the same media as B, further down: its rules must not move up into B's block
    root = sheet(rule('CHARSET_RULE', 'charset'), imp('A', 'all', A), rule('STYLE_RULE', 'r1'), imp('B', 'print', B), imp('C', 'all', None), imp('D', 'print', D), imp('E', 'all', E_), rule('STYLE_RULE', 'r2'),
                 imp('F', 'print', F), rule('STYLE_RULE', 'r3'))
    replaced = []
    comb = m.get('MediaCombineDisallowed._combinable')

    def check(sh):
        if [r for r in sh if not Evaluator(comb, module=m).run(rule=r)]:
            raise _Raise('MediaCombineDisallowed')

    def media_rule(text):
        w = Record(type=K['MEDIA_RULE'], tag=f'@media {text}', cssRules=RL(), media=Record(mediaText=text), **K)
        w.add = lambda r: w.cssRules.append(r)
        return w

    lg = Record(info=lambda *a, **k: None, warn=lambda *a, **k: None, error=lambda *a, **k: None)
    cssmod = Record(CSSStyleSheet=lambda **k: sheet(), CSSComment=lambda cssText=None: rule('COMMENT', cssText), CSSMediaRule=media_rule, CSSRule=Record(**K))
    intr = {'css': cssmod, 'css.CSSStyleSheet': cssmod.CSSStyleSheet, 'css.CSSComment': cssmod.CSSComment, 'css.CSSMediaRule': media_rule,
            'MediaCombineDisallowed.check': check, 'replaceUrls': lambda sh, rep, ignoreImportRules=False: replaced.append((sh, rep, ignoreImportRules)),
            'Replacer': lambda href: ('Replacer', href), 'log': lg, 'log.info': lg.info, 'log.warn': lg.warn, 'log.error': lg.error,
            'xml': Record(dom=Record(HierarchyRequestErr='HierarchyRequestErr'))}
    res = Evaluator(m.get('resolveImports'), intrinsics=intr, module=m, model_types=(RL,)).run(sheet=root)
    if isinstance(res, Raised):
        chk.ob(rid, INIT, 'resolveImports', 'flattening the model import tree', False, f'{res!r}')
        return

    def tags(container):
        out = []
        for r in container.cssRules:
            if r.type == K['MEDIA_RULE']:
                out.append((r.tag, tags(r)))
            else:
                out.append(r.tag)
        return out

    got = tags(res)
    want = ['/* START @import "A.css" */', '/* START @import "A1.css" */', 'a1', 'a2', 'r1',
            '/* START @import "B.css" */', ('@media print', ['bc', 'b1']), 'C', '/* START @import "D.css" */', 'D', '/* START @import "E.css" */', 'E', 'r2',
            '/* START @import "F.css" */', ('@media print', ['f1']), 'r3']
    chk.ob(rid, INIT, 'resolveImports', "the model import tree is flattened in cascade order: @charset dropped, imported groups in place of their @import, a group with media wrapped in @media, the @import kept when the target is missing, cannot be wrapped or cannot be flattened", got == want, f'result {got}, prescribed {want}')
    reb = sorted((rep, ign) for sh, rep, ign in replaced)
    want_reb = sorted((('Replacer', h), True) for h in ('A1.css', 'A.css', 'B.css', 'D.css', 'F.css'))
    chk.ob(rid, INIT, '_resolve_import', 'the URLs of every resolved sheet are rebased once, relative to its import href, nested @import rules untouched', reb == want_reb, f'replaceUrls calls: {reb}')


def r19f(chk, rid='R19.f'):
    chk.rule(rid, 'a replaced URL is stored as given, decided by evaluation: URIValue._setUri and the getter of the uri property are evaluated on their syntax trees: for URLs with spaces, quotes, parentheses, backslashes followed by hex digits and non-ASCII characters the value read back is the value that was set (no serialise-and-reparse round trip in between, which would interpret backslashes as CSS escapes); so replacing with the identity is a no-op')
    from sa.absint import Evaluator, Raised, Record

    rel = 'cssutils/css/value.py'
    m = chk.repo.mod(rel)
    fn = m.get('URIValue._setUri')
    prop = [st for st in m.get('URIValue', ast.ClassDef).body if isinstance(st, ast.Assign) and any(isinstance(t, ast.Name) and t.id == 'uri' for t in st.targets)]
    if len(prop) != 1 or not (isinstance(prop[0].value, ast.Call) and text(prop[0].value.func) == 'property' and prop[0].value.args):
        raise AnalysisError('URIValue.uri is not a property(getter, setter)')
    getter = prop[0].value.args[0]
    bad = []
    urls = ['a.png', 'img\\5c bg.png', 'c:\\dir\\file.png', 'x y.png', 'q"uote.png', 'a)b(c.png', 'caf\xe9.png', '', 'data:image/png;base64,AAA=']
    for u in urls:
        me = Record(_checkReadonly=lambda: None, _value='old', cssText='url(old)', _seq=None)
        ev = Evaluator(fn, intrinsics={'cssutils': Record(helper=Record(uri=lambda x: 'url(' + x + ')'))}, module=m, cls='URIValue')
        res = ev.run(self=me, uri=u)
        back = ev.call_function(getter, [me], {}) if isinstance(getter, ast.Lambda) else None
        if isinstance(res, Raised) or back != u:
            bad.append(f'set {u!r}, read {back!r}' + (f' ({res!r})' if isinstance(res, Raised) else ''))
    chk.ob(rid, rel, 'URIValue._setUri', f'all {len(urls)} URLs are read back exactly as they were set', not bad, '; '.join(bad[:3]) + ' - replaceUrls with the identity (and the path re-basing of resolveImports, which keeps absolute URLs) changes such URLs')


def r19g(chk, rid='R19.g'):
    chk.rule(rid, 'every @import target is fetched once through the parent sheet, decided by evaluation: CSSImportRule._setHref is evaluated on its syntax tree for a rule inside an import chain whose ancestors were written with the same relative href (resolving to other files): the parent sheet\'s _resolveImport is called exactly once with the href resolved against the parent sheet\'s location; text that arrives makes the target available (hrefFound) and is handed to the new sheet with the encoding override (type 0) or the found encoding (types 1-4); a target that cannot be read leaves the rule unresolved without raising')
    import urllib.parse

    from sa.absint import Evaluator, Obj, Raised, Record, _Raise

    rel = 'cssutils/css/cssimportrule.py'
    m = chk.repo.mod(rel)
    fn = m.get('CSSImportRule._setHref')
    for label, enctype, cssText, parent_href in (
        ('override', 0, 'a{}', 'http://h/css/site.css'), ('transport charset', 1, 'a{}', 'http://h/css/site.css'), ('BOM/@charset', 3, 'a{}', 'http://h/css/vendor/vendor.css'),
        ('utf-8 default', 5, 'a{}', 'http://h/css/site.css'), ('unreadable target', 1, None, 'http://h/css/site.css'), ('failing fetch', 1, 'raise', 'http://h/css/site.css'),
        ('an empty but existing target', 1, '', 'http://h/css/site.css'),
    ):
        fetched, handed = [], []

        def resolve(url):
            fetched.append(url)
            if cssText == 'raise':
                raise _Raise('OSError')
            return ('enc', enctype, cssText)

        class SheetM(Obj):
            pass

        def newsheet(**k):
            sh = SheetM(_href=None, **k)
            sh._setFetcher = lambda f: None
            sh._setCssTextWithEncodingOverride = lambda text_, encodingOverride=None, encoding=None: handed.append((text_, encodingOverride, encoding))
            return sh

        # ancestors in the import chain were written with the same relative href
        grand = Obj(href='http://h/css/site.css', ownerRule=None, _fetcher='F')
        owner = Obj(href='vendor/vendor.css', _href='vendor/vendor.css', parentStyleSheet=grand)
        parent = Obj(href=parent_href, ownerRule=owner, _resolveImport=resolve, _fetcher='F')
        me = Obj(_href=None, seq=[Record(type='href', line=1, col=1)], _seq=[None], media='M', name='N', parentStyleSheet=parent, hrefFound=None, _styleSheet=None,
                 _log=Record(warn=lambda *a, **k: None))
        intr = {'cssutils': Record(css=Record(CSSStyleSheet=newsheet), helper=Record(path2url=lambda p: 'file://' + p)), 'os': Record(getcwd=lambda: '/cwd'),
                'urllib': Record(parse=Record(urljoin=urllib.parse.urljoin)), 'self._log.warn': me._log.warn}
        res = Evaluator(fn, intrinsics=intr, module=m, cls='CSSImportRule').run(self=me, href='vendor/vendor.css')
        want_url = urllib.parse.urljoin(parent_href, 'vendor/vendor.css')
        ok = not isinstance(res, Raised) and fetched == [want_url]
        if cssText in (None, 'raise'):
            ok = ok and me.hrefFound is False and not handed
            want = 'fetched once, rule left unresolved'
        else:
            want_hand = [(cssText, 'enc' if enctype == 0 else None, 'enc' if 0 < enctype < 5 else None)]
            ok = ok and me.hrefFound is True and handed == want_hand and getattr(me._styleSheet, '_href', None) == want_url
            want = f'fetched once; text and encodings handed on as {want_hand}'
        chk.ob(rid, rel, 'CSSImportRule._setHref', f'{label} (encoding type {enctype}): {want}', ok,
               f'fetched {fetched} (prescribed [{want_url!r}]), hrefFound={me.hrefFound!r}, handed on {handed}' + (f', {res!r}' if isinstance(res, Raised) else ''))
