"""E5 - evaluation of loop-free decision procedures over the finite quotient of
their input space.

The functions handled here only *compare* their inputs with constants (or test
them for truth), so the constants they compare against, plus one value that is
none of them, form an exact partition of the input space.  The evaluator walks
the function's syntax tree for every representative input; it supports a small,
closed set of node kinds and raises AnalysisError for anything else, so a
refactoring can never turn into a wrong verdict.  The library is never
imported or called.
"""
from __future__ import annotations

import ast
import collections as _collections_module
import itertools as _itertools_module
import operator as _operator_module
import re as _re_module
import types as _types

from .core import AnalysisError, text

# standard-library modules the evaluated code may use as they are (pure functions on the model's own values)
import posixpath as _posixpath_module
import urllib.parse as _urlparse_module
import urllib.request as _urlrequest_module


class _NS:
    """A name space standing for a package of which only the listed pure parts may be used."""

    def __init__(self, **kw):
        self.__dict__.update(kw)


import codecs as _codecs_module
import colorsys as _colorsys_module
import functools as _functools_module

SAFE_MODULES = {'colorsys': _colorsys_module, 'functools': _functools_module, 'codecs': _codecs_module, 're': _re_module, 'operator': _operator_module, 'itertools': _itertools_module, 'collections': _collections_module,
                'os': _NS(path=_posixpath_module), 'urllib': _NS(parse=_urlparse_module, request=_NS(pathname2url=_urlrequest_module.pathname2url))}
_SAFE_VALUES = (_colorsys_module, _functools_module, _codecs_module, _re_module, _operator_module, _itertools_module, _posixpath_module, _urlparse_module, _collections_module)


class _Return(Exception):
    def __init__(self, value):
        self.value = value


class Raised:
    """Result of a run that ends in a (modelled) Python exception."""

    def __init__(self, kind):
        self.kind = kind

    def __eq__(self, o):
        return isinstance(o, Raised) and o.kind == self.kind

    def __hash__(self):
        return hash(('raised', self.kind))

    def __repr__(self):
        return f'raises {self.kind}'


class _Ctx:
    """A call of a generator function decorated with contextlib.contextmanager: the statements in
    front of its single top-level yield run on entering a `with`, the rest (a `finally` around the
    yield included) on leaving it."""

    def __init__(self, ev, fndef, env):
        self.ev, self.env = ev, env
        pre, post, val = [], [], None
        body = list(fndef.body)
        for i, st in enumerate(body):
            if isinstance(st, ast.Expr) and isinstance(st.value, ast.Yield):
                pre, val, post = body[:i], st.value.value, body[i + 1:]
                break
            if isinstance(st, ast.Try) and not st.handlers:
                ys = [j for j, x in enumerate(st.body) if isinstance(x, ast.Expr) and isinstance(x.value, ast.Yield)]
                if len(ys) == 1:
                    j = ys[0]
                    pre, val, post = body[:i] + st.body[:j], st.body[j].value.value, st.body[j + 1:] + st.finalbody + body[i + 1:]
                    break
        else:
            raise AnalysisError(f'context manager {fndef.name}: no single top-level yield')
        self.pre, self.post, self.val = pre, post, val

    def enter(self):
        self.ev.block(self.pre, self.env)
        return self.ev.expr(self.val, self.env) if self.val is not None else None

    def exit(self):
        self.ev.block(self.post, self.env)


class Opaque:
    """A value the evaluator does not model (an unknown call result)."""

    def __init__(self, desc):
        self.desc = desc

    def __repr__(self):
        return f'<{self.desc}>'


STR_METHODS = {'find', 'startswith', 'endswith', 'replace', 'lower', 'upper', 'strip', 'split', 'index', 'get', 'items', 'keys', 'values', 'decode', 'encode', 'count', 'join', 'lstrip', 'rstrip', 'isdigit', 'capitalize', 'title', 'swapcase', 'casefold', 'isalpha', 'isupper', 'islower', 'isspace', 'isalnum', 'zfill', 'partition', 'rpartition', 'splitlines', 'format', 'rfind', 'rindex', 'rsplit', 'removeprefix', 'removesuffix', 'hex', 'copy'}


class Evaluator:
    def __init__(self, fn, intrinsics=None, attr_ok=None, model_types=(), module=None, cls=None, _depth=0):
        self.fn = fn
        self.intrinsics = intrinsics or {}
        self.model_types = tuple(model_types) + (_re_module.Pattern, _re_module.Match)
        self.module = module  # core.Module: module-level constants and helper functions are resolved in it
        self.cls = cls  # class name: self.<helper>() and property getters are resolved in it
        self.depth = _depth
        self.trace = []
        self.steps = 0

    # -- resolution of names outside the function ------------------------------------
    def _module_binding(self, name):
        m = self.module
        if m is None:
            return None
        cache = m.__dict__.setdefault('_e5_bindings', {})
        if name not in cache:
            found = [st for st in m.tree.body if (isinstance(st, ast.Assign) and any(isinstance(t, ast.Name) and t.id == name for t in st.targets))
                     or (isinstance(st, (ast.FunctionDef, ast.ClassDef)) and st.name == name)]
            cache[name] = found[0] if len(found) == 1 else None
            if cache[name] is None and not found:
                cache[name] = self._imported_binding(name)
        return cache[name]

    def _imported_binding(self, name):
        """A function that the module imports by name from another module of the analysed package:
        ('import', target module, FunctionDef), so that the helper is evaluated from its own source."""
        m = self.module
        repo = getattr(m, 'repo', None)
        if repo is None:
            return None
        for st in m.tree.body:
            if isinstance(st, ast.ImportFrom):
                for a in st.names:
                    if (a.asname or a.name) != name:
                        continue
                    if st.level:
                        base = m.rel.split('/')[:-1]
                        base = base[:len(base) - (st.level - 1)]
                        parts = base + (st.module.split('.') if st.module else [])
                    else:
                        parts = (st.module or '').split('.')
                    for rel in ('/'.join(parts) + '.py', '/'.join(parts) + '/__init__.py'):
                        tm = repo.modules.get(rel)
                        if tm is not None:
                            cands = [x for x in tm.tree.body if isinstance(x, ast.FunctionDef) and x.name == a.name]
                            if len(cands) == 1:
                                return ('import', tm, cands[0])
        return None

    def _class_member(self, name):
        m = self.module
        if m is None or self.cls is None:
            return None
        priv = name if not (name.startswith('__') and not name.endswith('__')) else name
        for q in (f'{self.cls}.{priv}',):
            if m.has(q):
                n = m.get(q)
                if isinstance(n, ast.FunctionDef):
                    return n
        for st in m.get(self.cls).body:
            if isinstance(st, ast.Assign) and any(isinstance(t, ast.Name) and t.id == name for t in st.targets):
                return st
        return None

    def _class_namespace(self, cdef):
        """The constants of a module-level class (its simple class-body assignments, evaluated in order)."""
        cache = self.module.__dict__.setdefault('_e5_classes', {})
        if cdef.name not in cache:
            env = {}
            for st in cdef.body:
                if isinstance(st, ast.Assign) and len(st.targets) == 1 and isinstance(st.targets[0], ast.Name):
                    try:
                        env[st.targets[0].id] = self.expr(st.value, dict(env))
                    except AnalysisError:
                        pass
            cache[cdef.name] = _NS(**env)
        return cache[cdef.name]

    def _dunder(self, v, env, name):
        """The class's own implementation of a protocol method, when `v` is the object the
        evaluated method runs on and the model does not define the method itself."""
        if isinstance(v, Record) and v is env.get('self') and name not in type(v).__dict__:
            mem = self._class_member(name)
            if isinstance(mem, ast.FunctionDef):
                return mem
        return None

    def iterate(self, v, env):
        mem = self._dunder(v, env, '__iter__')
        if mem is not None:
            return list(self.call_function(mem, [], {}, bound_self=v))
        if isinstance(v, Opaque):
            raise AnalysisError(f'iteration over an unmodelled value {v}')
        if hasattr(v, '__next__'):
            return v  # an iterator is consumed as far as the loop goes, as at run time
        return list(v)

    def call_function(self, fndef, args, kwargs, bound_self=None):
        """Evaluate a helper (module function, method of the class, nested def or lambda)
        with the same intrinsics; a modelled exception propagates to the caller."""
        if self.depth > 16:
            raise AnalysisError('helper calls nest too deeply')
        a = fndef.args
        params = [x.arg for x in a.posonlyargs + a.args]
        static = any(text(d) == 'staticmethod' for d in getattr(fndef, 'decorator_list', []))
        env = dict(getattr(fndef, '_closure', {}) or {})
        vals = list(args)
        kwargs = dict(kwargs)
        if bound_self is not None and not static:
            vals = [bound_self] + vals
        if len(vals) > len(params):
            if not a.vararg:
                raise _Raise('TypeError')
            env[a.vararg.arg] = tuple(vals[len(params):])
            vals = vals[:len(params)]
        elif a.vararg:
            env[a.vararg.arg] = ()
        for nm, v in zip(params, vals):
            env[nm] = v
        defaults = dict(zip(params[len(params) - len(a.defaults):], a.defaults))
        for nm in params[len(vals):]:
            if nm in kwargs:
                env[nm] = kwargs[nm]
            elif nm in defaults:
                env[nm] = self.expr(defaults[nm], {})
            else:
                raise _Raise('TypeError')
        for ka, d in zip(a.kwonlyargs, a.kw_defaults):
            env[ka.arg] = kwargs[ka.arg] if ka.arg in kwargs else self.expr(d, {})
        extra = {k: v for k, v in kwargs.items() if k not in params and k not in [x.arg for x in a.kwonlyargs]}
        if a.kwarg:
            env[a.kwarg.arg] = extra
        elif extra:
            raise _Raise('TypeError')
        sub = Evaluator(fndef, self.intrinsics, None, self.model_types, self.module, self.cls, self.depth + 1)
        sub.steps = self.steps
        if any(text(d).endswith('contextmanager') for d in getattr(fndef, 'decorator_list', [])):
            return _Ctx(sub, fndef, env)
        is_gen = not isinstance(fndef, ast.Lambda) and any(isinstance(x, (ast.Yield, ast.YieldFrom)) for x in _walk_own(fndef))
        if is_gen:
            sub.yields = []  # a generator is evaluated eagerly: its values in order
        try:
            if isinstance(fndef, ast.Lambda):
                return sub.expr(fndef.body, env)
            sub.block(fndef.body, env)
        except _Return as r:
            return sub.yields if is_gen else r.value
        finally:
            self.steps = sub.steps
            self.trace.extend(sub.trace)
        return sub.yields if is_gen else None

    def run(_self, **args):
        self = _self
        env = dict(args)
        a = self.fn.args
        if not isinstance(self.fn, ast.Lambda) or True:
            params = [x.arg for x in a.args]
            for nm, d in zip(params[len(params) - len(a.defaults):], a.defaults):
                if nm not in env:
                    env[nm] = self.expr(d, {})
            for ka, d in zip(a.kwonlyargs, a.kw_defaults):
                if ka.arg not in env and d is not None:
                    env[ka.arg] = self.expr(d, {})
        self.trace = []
        self.steps = 0
        is_gen = not isinstance(self.fn, ast.Lambda) and any(isinstance(x, (ast.Yield, ast.YieldFrom)) for x in _walk_own(self.fn))
        if is_gen:
            self.yields = []  # a generator is evaluated eagerly: the result is the list of its values
        try:
            self.block(self.fn.body, env)
        except _Return as r:
            return self.yields if is_gen else r.value
        except _Raise as e:
            return Raised(e.kind)
        return self.yields if is_gen else None

    def block(self, stmts, env):
        for st in stmts:
            self.stmt(st, env)

    def stmt(self, st, env):
        self.steps += 1
        if self.steps > 200000:
            raise AnalysisError('evaluation does not terminate')
        if isinstance(st, ast.Expr):
            if isinstance(st.value, ast.Constant):
                return
            self.expr(st.value, env)
            return
        if isinstance(st, ast.Assign):
            v = self.expr(st.value, env)
            for t in st.targets:
                self.assign(t, v, env)
            return
        if isinstance(st, ast.AugAssign):
            cur = self.expr(ast.Name(id=st.target.id, ctx=ast.Load()), env) if isinstance(st.target, ast.Name) else self.expr(st.target, env)
            v = self.binop(st.op, cur, self.expr(st.value, env))
            self.assign(st.target, v, env)
            return
        if isinstance(st, ast.If):
            c = self.truth(self.expr(st.test, env))
            self.trace.append((st.lineno, bool(c)))
            self.block(st.body if c else st.orelse, env)
            return
        if isinstance(st, ast.Return):
            raise _Return(self.expr(st.value, env) if st.value is not None else None)
        if isinstance(st, ast.Pass):
            return
        if isinstance(st, ast.FunctionDef):
            st._closure = env
            env[st.name] = lambda *a, _f=st, **k: self.call_function(_f, a, k)
            return
        if isinstance(st, ast.For):
            it = self.expr(st.iter, env)
            if isinstance(it, Opaque):
                raise AnalysisError(f'loop over an unmodelled value in `{text(st)[:50]}`')
            broke = False
            for v in self.iterate(it, env):
                self.assign(st.target, v, env)
                try:
                    self.block(st.body, env)
                except _Break:
                    broke = True
                    break
                except _Continue:
                    continue
            if not broke:
                self.block(st.orelse, env)
            return
        if isinstance(st, ast.While):
            broke = False
            while self.truth(self.expr(st.test, env)):
                self.steps += 1
                if self.steps > 200000:
                    raise AnalysisError('evaluation does not terminate')
                try:
                    self.block(st.body, env)
                except _Break:
                    broke = True
                    break
                except _Continue:
                    continue
            if not broke:
                self.block(st.orelse, env)
            return
        if isinstance(st, ast.Raise):
            if st.exc is None:
                raise _Raise(env.get('$handling', 'Exception'))
            exc = st.exc
            if isinstance(exc, ast.Call):
                for a in exc.args:
                    self.expr(a, env)  # the message is evaluated (it may raise itself)
                exc = exc.func
            raise _Raise(text(exc).split('.')[-1])
        if isinstance(st, ast.Delete):
            for t in st.targets:
                if not isinstance(t, ast.Subscript):
                    raise AnalysisError(f'unsupported del target {text(t)}')
                c = self.expr(t.value, env)
                if isinstance(c, Opaque):
                    raise AnalysisError(f'del on an unmodelled value in `{text(st)}`')
                mem = self._dunder(c, env, '__delitem__')
                if mem is not None and not isinstance(t.slice, ast.Slice):
                    self.call_function(mem, [self.expr(t.slice, env)], {}, bound_self=c)
                    continue
                try:
                    if isinstance(t.slice, ast.Slice):
                        lo = self.expr(t.slice.lower, env) if t.slice.lower else None
                        hi = self.expr(t.slice.upper, env) if t.slice.upper else None
                        del c[lo:hi]
                    else:
                        del c[self.expr(t.slice, env)]
                except (KeyError, IndexError, TypeError) as ex:
                    raise _Raise(type(ex).__name__)
            return
        if isinstance(st, ast.Break):
            raise _Break()
        if isinstance(st, ast.Continue):
            raise _Continue()
        if isinstance(st, ast.Try):
            # only the shape `try: X except E: Y` with intrinsic-controlled raising
            try:
                self.block(st.body, env)
            except _Raise as e:
                for h in st.handlers:
                    if h.type is None or e.kind in text(h.type) or text(h.type) in ('Exception', 'BaseException'):
                        if h.name:
                            env[h.name] = Opaque('exception ' + e.kind)
                        env['$handling'] = e.kind
                        self.block(h.body, env)
                        break
                else:
                    raise
            else:
                self.block(st.orelse, env)
            self.block(st.finalbody, env)
            return
        if isinstance(st, ast.With):
            entered = []
            for item in st.items:
                cm = self.expr(item.context_expr, env)
                if isinstance(cm, _Ctx):
                    val = cm.enter()
                elif hasattr(cm, '__enter__') and not isinstance(cm, Opaque):
                    val = cm.__enter__()
                else:
                    raise AnalysisError(f'with: unmodelled context manager in `{text(item.context_expr)[:50]}`')
                if item.optional_vars is not None:
                    self.assign(item.optional_vars, val, env)
                entered.append(cm)
            try:
                self.block(st.body, env)
            except _Raise as e:
                # a model context manager may swallow the modelled exception (contextlib.suppress)
                swallowed = False
                for cm in reversed(entered):
                    if isinstance(cm, _Ctx):
                        cm.exit()
                    elif cm.__exit__(e.kind, e, None):
                        swallowed = True
                if not swallowed:
                    raise
                return
            except BaseException:
                for cm in reversed(entered):
                    if isinstance(cm, _Ctx):
                        cm.exit()
                    else:
                        cm.__exit__(None, None, None)
                raise
            for cm in reversed(entered):
                if isinstance(cm, _Ctx):
                    cm.exit()
                else:
                    cm.__exit__(None, None, None)
            return
        if isinstance(st, ast.Assert):
            if not self.truth(self.expr(st.test, env)):
                raise _Raise('AssertionError')
            return
        raise AnalysisError(f'unsupported statement in decision procedure: {type(st).__name__}: {text(st)[:60]}')

    def assign(self, t, v, env):
        if isinstance(t, ast.Name):
            env[t.id] = v
        elif isinstance(t, (ast.Tuple, ast.List)):
            vals = list(v)
            if len(vals) != len(t.elts):
                raise _Raise('ValueError')
            for a, b in zip(t.elts, vals):
                self.assign(a, b, env)
        elif isinstance(t, ast.Attribute) and isinstance(t.value, ast.Name) and isinstance(env.get(t.value.id), Record):
            setattr(env[t.value.id], t.attr, v)
        elif isinstance(t, ast.Attribute) and isinstance(self.expr(t.value, env), (Record,) + self.model_types):
            setattr(self.expr(t.value, env), t.attr, v)
        elif isinstance(t, ast.Subscript) and not isinstance(t.slice, ast.Slice):
            c = self.expr(t.value, env)
            if isinstance(c, Opaque):
                raise AnalysisError(f'store into an unmodelled value {text(t)}')
            try:
                c[self.expr(t.slice, env)] = v
            except (KeyError, IndexError, TypeError) as ex:
                raise _Raise(type(ex).__name__)
        elif isinstance(t, ast.Subscript) and isinstance(t.slice, ast.Slice) and t.slice.step is None:
            c = self.expr(t.value, env)
            if not isinstance(c, list):
                raise AnalysisError(f'slice store into an unmodelled value {text(t)}')
            lo = self.expr(t.slice.lower, env) if t.slice.lower else None
            hi = self.expr(t.slice.upper, env) if t.slice.upper else None
            c[lo:hi] = list(v)
        else:
            raise AnalysisError(f'unsupported assignment target {text(t)}')

    def truth(self, v):
        if isinstance(v, Opaque):
            raise AnalysisError(f'branch on an unmodelled value {v}')
        return bool(v)

    def binop(self, op, a, b):
        if isinstance(a, Opaque) or isinstance(b, Opaque):
            return Opaque('arith')
        if isinstance(op, ast.BitAnd):
            return a & b
        if isinstance(op, ast.BitOr):
            return a | b
        if isinstance(op, ast.Sub):
            return a - b
        if isinstance(op, ast.Add):
            return a + b
        if isinstance(op, ast.Mod):
            if isinstance(a, str) and not any(isinstance(x, Opaque) for x in (b if isinstance(b, tuple) else (b,))):
                try:
                    return a % b
                except (TypeError, ValueError):
                    raise _Raise('TypeError')
            return Opaque('format') if isinstance(a, str) else a % b
        if isinstance(op, ast.Mult):
            return a * b
        if isinstance(op, ast.FloorDiv):
            return a // b
        if isinstance(op, ast.Div):
            return a / b
        raise AnalysisError(f'unsupported operator {type(op).__name__}')

    def expr(self, e, env):
        if isinstance(e, ast.Constant):
            return e.value
        if isinstance(e, ast.Name):
            if e.id in env:
                return env[e.id]
            if e.id in self.intrinsics:
                return self.intrinsics[e.id]
            if e.id in ('None', 'True', 'False'):
                return {'None': None, 'True': True, 'False': False}[e.id]
            if e.id in ('ord', 'chr', 'str', 'int', 'len'):
                return {'ord': ord, 'chr': chr, 'str': str, 'int': int, 'len': len}[e.id]
            import builtins

            if e.id in SAFE_MODULES:
                return SAFE_MODULES[e.id]
            if isinstance(getattr(builtins, e.id, None), type) and issubclass(getattr(builtins, e.id), BaseException):
                return e.id  # exception classes are modelled by their names
            b = self._module_binding(e.id)
            if isinstance(b, tuple) and b[0] == 'import':
                return lambda *a, _b=b, **k: Evaluator(_b[2], self.intrinsics, None, self.model_types, _b[1], None, self.depth + 1).call_function(_b[2], a, k)
            if isinstance(b, ast.Assign):
                return self.expr(b.value, {})
            if isinstance(b, ast.FunctionDef):
                return lambda *a, **k: self.call_function(b, a, k)
            if isinstance(b, ast.ClassDef):
                return self._class_namespace(b)
            if e.id in ('frozenset', 'tuple', 'list', 'dict', 'set', 'bool', 'bytes'):
                return {'frozenset': frozenset, 'tuple': tuple, 'list': list, 'dict': dict, 'set': set, 'bool': bool, 'bytes': bytes}[e.id]
            if e.id in ('int', 'float', 'str', 'bool', 'len', 'list', 'tuple', 'dict', 'set', 'frozenset', 'bytes', 'sorted', 'min', 'max', 'abs', 'repr', 'ord', 'chr'):
                return {'int': int, 'float': float, 'str': str, 'bool': bool, 'len': len, 'list': list, 'tuple': tuple, 'dict': dict, 'set': set, 'frozenset': frozenset, 'bytes': bytes, 'sorted': sorted,
                        'min': min, 'max': max, 'abs': abs, 'repr': repr, 'ord': ord, 'chr': chr}[e.id]  # a built-in used as a value (conv = float if ... else int)
            raise AnalysisError(f'unknown name {e.id} in decision procedure')
        if isinstance(e, ast.Tuple):
            return tuple(self.expr(x, env) for x in e.elts)
        if isinstance(e, ast.List):
            return [self.expr(x, env) for x in e.elts]
        if isinstance(e, ast.Dict):
            return {self.expr(k, env): self.expr(v, env) for k, v in zip(e.keys, e.values)}
        if isinstance(e, ast.Yield):
            if not hasattr(self, 'yields'):
                raise AnalysisError('yield outside a modelled generator')
            self.yields.append(self.expr(e.value, env) if e.value is not None else None)
            return None
        if isinstance(e, ast.YieldFrom):
            if not hasattr(self, 'yields'):
                raise AnalysisError('yield from outside a modelled generator')
            self.yields.extend(list(self.expr(e.value, env)))
            return None
        if isinstance(e, ast.Lambda):
            e._closure = env
            return lambda *a, **k: self.call_function(e, a, k)
        if isinstance(e, ast.IfExp):
            return self.expr(e.body if self.truth(self.expr(e.test, env)) else e.orelse, env)
        if isinstance(e, (ast.GeneratorExp, ast.ListComp, ast.SetComp)):
            out = []

            def gen(i, env2):
                if i == len(e.generators):
                    out.append(self.expr(e.elt, env2))
                    return
                g = e.generators[i]
                for v in self.iterate(self.expr(g.iter, env2), env2):
                    env3 = dict(env2)
                    self.assign(g.target, v, env3)
                    if all(self.truth(self.expr(c, env3)) for c in g.ifs):
                        gen(i + 1, env3)

            gen(0, env)
            return set(out) if isinstance(e, ast.SetComp) else out
        if isinstance(e, ast.DictComp):
            out = {}
            g = e.generators[0]
            for v in self.iterate(self.expr(g.iter, env), env):
                env3 = dict(env)
                self.assign(g.target, v, env3)
                if all(self.truth(self.expr(c, env3)) for c in g.ifs):
                    out[self.expr(e.key, env3)] = self.expr(e.value, env3)
            return out
        if isinstance(e, ast.JoinedStr):
            parts = []
            for v in e.values:
                if isinstance(v, ast.Constant):
                    parts.append(str(v.value))
                elif isinstance(v, ast.FormattedValue) and v.format_spec is None and v.conversion == -1:
                    x = self.expr(v.value, env)
                    if isinstance(x, Opaque):
                        return Opaque('f-string')
                    parts.append(str(x))
                else:
                    return Opaque('f-string')
            return ''.join(parts)
        if isinstance(e, ast.UnaryOp):
            v = self.expr(e.operand, env)
            if isinstance(e.op, ast.Not):
                return not self.truth(v)
            if isinstance(e.op, ast.Invert):
                return ~v
            if isinstance(e.op, ast.USub):
                return -v
            raise AnalysisError('unsupported unary operator')
        if isinstance(e, ast.BinOp):
            return self.binop(e.op, self.expr(e.left, env), self.expr(e.right, env))
        if isinstance(e, ast.BoolOp):
            if isinstance(e.op, ast.And):
                v = True
                for x in e.values:
                    v = self.expr(x, env)
                    if not self.truth(v):
                        return v
                return v
            v = False
            for x in e.values:
                v = self.expr(x, env)
                if self.truth(v):
                    return v
            return v
        if isinstance(e, ast.Compare):
            left = self.expr(e.left, env)
            for op, r in zip(e.ops, e.comparators):
                right = self.expr(r, env)
                if isinstance(left, Opaque) or isinstance(right, Opaque):
                    raise AnalysisError(f'comparison with an unmodelled value in `{text(e)}`')
                if isinstance(op, ast.Eq):
                    ok = left == right
                elif isinstance(op, ast.NotEq):
                    ok = left != right
                elif isinstance(op, ast.GtE):
                    ok = left >= right
                elif isinstance(op, ast.Gt):
                    ok = left > right
                elif isinstance(op, ast.LtE):
                    ok = left <= right
                elif isinstance(op, ast.Lt):
                    ok = left < right
                elif isinstance(op, ast.In):
                    ok = left in right
                elif isinstance(op, ast.NotIn):
                    ok = left not in right
                elif isinstance(op, ast.Is):
                    ok = left is right
                elif isinstance(op, ast.IsNot):
                    ok = left is not right
                else:
                    raise AnalysisError('unsupported comparison')
                if not ok:
                    return False
                left = right
            return True
        if isinstance(e, ast.Subscript):
            v = self.expr(e.value, env)
            if isinstance(v, Opaque):
                return Opaque('item')
            mem = self._dunder(v, env, '__getitem__')
            if mem is not None and not isinstance(e.slice, ast.Slice):
                return self.call_function(mem, [self.expr(e.slice, env)], {}, bound_self=v)
            if isinstance(e.slice, ast.Slice):
                lo = self.expr(e.slice.lower, env) if e.slice.lower else None
                hi = self.expr(e.slice.upper, env) if e.slice.upper else None
                return v[lo:hi]
            try:
                return v[self.expr(e.slice, env)]
            except (IndexError, KeyError, TypeError) as ex:
                raise _Raise(type(ex).__name__)
        if isinstance(e, ast.Attribute):
            if isinstance(e.value, ast.Name) and self.cls and e.value.id == self.cls and e.value.id not in env and e.value.id not in self.intrinsics:
                mem = self._class_member(e.attr)
                if isinstance(mem, ast.Assign):
                    return self.expr(mem.value, {})
                if isinstance(mem, ast.FunctionDef):
                    return lambda *a, **k: self.call_function(mem, a, k)
                raise AnalysisError(f'class attribute {text(e)} not found')
            v = self.expr(e.value, env)
            if (isinstance(v, _types.ModuleType) and v in _SAFE_VALUES) or isinstance(v, _NS):
                return getattr(v, e.attr)
            if isinstance(v, Opaque):
                return Opaque(f'{v.desc}.{e.attr}')
            if isinstance(v, Record):
                if v is env.get('self') and e.attr not in v.__dict__:
                    mem = self._class_member(e.attr)
                    if isinstance(mem, ast.FunctionDef) and any(text(d) == 'property' for d in mem.decorator_list):
                        return self.call_function(mem, [], {}, bound_self=v)
                    if isinstance(mem, ast.FunctionDef):
                        return lambda *a, **k: self.call_function(mem, a, k, bound_self=v)
                    if isinstance(mem, ast.Assign) and isinstance(mem.value, ast.Call) and text(mem.value.func) == 'property' and mem.value.args:
                        g = mem.value.args[0]
                        if isinstance(g, ast.Lambda):
                            return self.call_function(g, [v], {})
                        if isinstance(g, ast.Name) and isinstance(self._class_member(g.id), ast.FunctionDef):
                            return self.call_function(self._class_member(g.id), [], {}, bound_self=v)
                    if isinstance(mem, ast.Assign):
                        return self.expr(mem.value, {})
                try:
                    return getattr(v, e.attr)
                except AttributeError:
                    if isinstance(v, Obj):
                        raise _Raise('AttributeError')  # a complete model: the program would fail the same way
                    raise AnalysisError(f'attribute {text(e)} is not part of the model')
            if isinstance(v, type) and issubclass(v, Record) and hasattr(v, e.attr):
                return getattr(v, e.attr)  # class attribute of a model class
            if self.model_types and isinstance(v, self.model_types):
                try:
                    return getattr(v, e.attr)
                except AttributeError:
                    raise _Raise('AttributeError')
            if isinstance(v, (str, bytes, list, dict, set, frozenset, tuple)) and hasattr(v, e.attr):
                return getattr(v, e.attr)  # a bound method of a built-in value, used as a callable
            if v is None or isinstance(v, (bool, int, float, str, bytes, list, tuple, dict, set, frozenset)):
                raise _Raise('AttributeError')  # None, numbers and built-in containers have none of the attributes the code asks for
            raise AnalysisError(f'unsupported attribute access {text(e)}')
        if isinstance(e, ast.Call):
            try:
                return self._call(e, env)
            except (TypeError, ValueError, IndexError, KeyError, AttributeError, UnicodeError, OverflowError, ZeroDivisionError) as ex:
                # the modelled operation itself raises, as it would at run time
                raise _Raise(type(ex).__name__)
        raise AnalysisError(f'unsupported expression in decision procedure: {text(e)[:60]}')

    def _call(self, e, env):
        if True:
            f = e.func
            if isinstance(f, ast.Name) and f.id == 'isinstance' and len(e.args) == 2:
                v = self.expr(e.args[0], env)
                tn = text(e.args[1])
                kinds = {'str': str, 'bytes': bytes, 'tuple': tuple, 'list': list, 'dict': dict, 'int': int, 'float': float, 'bool': bool}
                if isinstance(self.intrinsics.get(tn), type):
                    return isinstance(v, self.intrinsics[tn])  # a model class supplied by the rule
                if tn not in kinds and not (isinstance(e.args[1], ast.Tuple) and all(text(x) in kinds for x in e.args[1].elts)):
                    try:
                        tv = self.expr(e.args[1], env)
                    except AnalysisError:
                        tv = None
                    if isinstance(tv, type) or (isinstance(tv, tuple) and tv and all(isinstance(x, type) for x in tv)):
                        return isinstance(v, tv)  # model classes reached through the rule's model objects
                if isinstance(e.args[1], ast.Tuple) and all(text(x) in kinds for x in e.args[1].elts):
                    return isinstance(v, tuple(kinds[text(x)] for x in e.args[1].elts))
                if tn not in kinds:
                    raise AnalysisError(f'isinstance test against unmodelled type {tn}')
                return isinstance(v, kinds[tn])
            if isinstance(f, ast.Name) and f.id == 'issubclass' and len(e.args) == 2 and 'issubclass' not in self.intrinsics:
                a0, a1 = self.expr(e.args[0], env), self.expr(e.args[1], env)
                if isinstance(a0, type) and (isinstance(a1, type) or (isinstance(a1, tuple) and all(isinstance(x, type) for x in a1))):
                    return issubclass(a0, a1)  # model classes supplied by the rule
                raise AnalysisError(f'issubclass on unmodelled values in `{text(e)[:50]}`')
            args = []
            for a in e.args:
                if isinstance(a, ast.Starred):
                    args.extend(list(self.expr(a.value, env)))
                else:
                    args.append(self.expr(a, env))
            kwargs = {}
            for k in e.keywords:
                if k.arg is None:
                    kwargs.update(dict(self.expr(k.value, env)))
                else:
                    kwargs[k.arg] = self.expr(k.value, env)
            if isinstance(f, ast.Name) and f.id in env and callable(env[f.id]):
                return env[f.id](*args, **kwargs)
            if not isinstance(f, (ast.Name, ast.Attribute)):
                fv = self.expr(f, env)
                if callable(fv):
                    return fv(*args, **kwargs)
                raise AnalysisError(f'call of unmodelled value {text(f)}')
            if isinstance(f, ast.Name):
                if f.id == 'len':
                    mem = self._dunder(args[0], env, '__len__')
                    if mem is not None:
                        return self.call_function(mem, [], {}, bound_self=args[0])
                    return len(args[0])
                if f.id in ('list', 'tuple', 'sorted', 'set', 'enumerate', 'reversed', 'sum', 'any', 'all') and args and self._dunder(args[0], env, '__iter__') is not None:
                    args = [self.iterate(args[0], env)] + args[1:]
                if f.id == 'isinstance':
                    tn = text(e.args[1])
                    return {'str': isinstance(args[0], str), 'bytes': isinstance(args[0], bytes)}.get(tn, False)
                if f.id in ('str', 'bool', 'int', 'ord', 'chr', 'tuple', 'list', 'set', 'dict', 'min', 'max', 'any', 'all', 'sorted', 'reversed', 'enumerate', 'zip', 'abs'):
                    r = {'str': str, 'bool': bool, 'int': int, 'ord': ord, 'chr': chr, 'tuple': tuple, 'list': list, 'set': set, 'dict': dict, 'min': min, 'max': max, 'any': any, 'all': all, 'sorted': sorted, 'reversed': reversed, 'enumerate': enumerate, 'zip': zip, 'abs': abs}[f.id](*args, **kwargs)
                    return list(r) if f.id in ('reversed', 'enumerate', 'zip') else r
                if f.id == 'map' and len(args) == 2 and callable(args[0]):
                    return [args[0](x) for x in args[1]]
                if f.id in self.intrinsics:
                    return self.intrinsics[f.id](*args, **kwargs)
                b = self._module_binding(f.id)
                if isinstance(b, tuple) and b[0] == 'import':
                    return Evaluator(b[2], self.intrinsics, None, self.model_types, b[1], None, self.depth + 1).call_function(b[2], args, kwargs)
                if isinstance(b, ast.FunctionDef):
                    return self.call_function(b, args, kwargs)
                if isinstance(b, ast.Assign):
                    fv = self.expr(b.value, {})  # e.g. a bound method of a compiled pattern
                    if callable(fv):
                        return fv(*args, **kwargs)
                if f.id == 'next' and e.args and isinstance(e.args[0], ast.GeneratorExp) and isinstance(args[0], list):
                    args[0] = iter(args[0])  # a generator expression is evaluated eagerly; next() takes its first value
                if f.id in ('frozenset', 'bytes', 'sum', 'repr', 'iter', 'next', 'filter', 'hasattr', 'callable', 'getattr', 'hex', 'oct', 'bin', 'round', 'float', 'range', 'divmod', 'type', 'id'):
                    r = {'frozenset': frozenset, 'bytes': bytes, 'sum': sum, 'repr': repr, 'iter': iter, 'next': next, 'filter': filter, 'hasattr': hasattr, 'callable': callable, 'getattr': getattr, 'hex': hex, 'oct': oct, 'bin': bin, 'round': round, 'float': float, 'range': range, 'divmod': divmod, 'type': type, 'id': id}[f.id](*args, **kwargs)
                    return list(r) if f.id in ('filter', 'range') else r
                if f.id == 'setattr' and len(args) == 3 and not kwargs and isinstance(args[0], Record) and isinstance(args[1], str):
                    setattr(args[0], args[1], args[2])  # on a model object only
                    return None
                raise AnalysisError(f'call of unmodelled function {f.id}')
            if isinstance(f, ast.Attribute):
                d = text(f)
                if d in self.intrinsics:
                    return self.intrinsics[d](*args, **kwargs)
                recv = self.expr(f.value, env)
                if (isinstance(recv, _types.ModuleType) and recv in _SAFE_VALUES) or isinstance(recv, _NS):
                    return getattr(recv, f.attr)(*args, **kwargs)
                if isinstance(recv, (str, bytes, dict, list, tuple)) and f.attr in STR_METHODS:
                    r = getattr(recv, f.attr)(*args)
                    return list(r) if f.attr in ('items', 'keys', 'values') else r
                if isinstance(recv, (int, float)) and not isinstance(recv, bool) and f.attr in ('is_integer', 'bit_length', 'as_integer_ratio', 'hex', 'conjugate'):
                    return getattr(recv, f.attr)(*args, **kwargs)
                if isinstance(recv, Record) and callable(getattr(recv, f.attr, None)):
                    return getattr(recv, f.attr)(*args, **kwargs)
                if isinstance(recv, Record) and recv is env.get('self') and isinstance(self._class_member(f.attr), ast.FunctionDef):
                    return self.call_function(self._class_member(f.attr), args, kwargs, bound_self=recv)
                if isinstance(recv, Record) and recv is env.get('self') and isinstance(self._class_member(f.attr), ast.Assign):
                    mem = self._class_member(f.attr)
                    if isinstance(mem.value, ast.Lambda):
                        return self.call_function(mem.value, [recv] + args, kwargs)
                    fv = self.expr(mem.value, {})  # a callable stored as class attribute (e.g. the match method of a pattern)
                    if callable(fv):
                        return fv(*args, **kwargs)
                if isinstance(f.value, ast.Name) and self.cls and f.value.id == self.cls and isinstance(self._class_member(f.attr), ast.FunctionDef):
                    return self.call_function(self._class_member(f.attr), args, kwargs)
                if isinstance(recv, list) and f.attr in ('append', 'extend', 'sort', 'insert', 'pop', 'remove', 'reverse', 'clear', 'copy') or isinstance(recv, dict) and f.attr in ('update', 'copy', 'pop', 'setdefault', 'clear') or isinstance(recv, (set, frozenset)) and f.attr in ('add', 'discard', 'union', 'copy', 'intersection', 'difference', 'issubset', 'isdisjoint', 'update', 'remove', 'clear', 'issuperset'):
                    return getattr(recv, f.attr)(*args, **kwargs)
                if isinstance(recv, (list, dict, tuple, set, frozenset, str)) and f.attr in ('__iter__', '__len__', '__contains__', '__getitem__'):
                    return getattr(recv, f.attr)(*args, **kwargs)  # the container protocol of a built-in value, called by name
                if self.model_types and isinstance(recv, self.model_types) and callable(getattr(recv, f.attr, None)):
                    return getattr(recv, f.attr)(*args, **kwargs)
                if isinstance(recv, (str, bytes, int, float, tuple, list, dict, type(None))) and not hasattr(recv, f.attr):
                    raise _Raise('AttributeError')
                raise AnalysisError(f'call of unmodelled method {d}')
        raise AnalysisError(f'unsupported expression in decision procedure: {text(e)[:60]}')


def _walk_own(fndef):
    """Nodes of a function body, not descending into nested functions."""
    todo = list(fndef.body)
    while todo:
        n = todo.pop()
        yield n
        if isinstance(n, (ast.FunctionDef, ast.Lambda, ast.ClassDef)):
            continue
        for c in ast.iter_child_nodes(n):
            if not isinstance(c, (ast.FunctionDef, ast.Lambda, ast.ClassDef)):
                todo.append(c)


class _Break(Exception):
    pass


class _Continue(Exception):
    pass


class _Raise(Exception):
    def __init__(self, kind):
        self.kind = kind


class Record:
    """A mutable record object (e.g. EncodingInfo) for the evaluator."""

    def __init__(self, **kw):
        self.__dict__.update(kw)


class Obj(Record):
    """A record that models its object completely: reading an attribute it does not have
    raises AttributeError in the evaluated program (for Record it is an analysis error)."""


class SourceBacked(Record):
    """A model object whose methods, properties and container protocol are the ones of a class of the
    analysed program, evaluated from its source: only the state (the attributes given at construction)
    is the rule's. Attributes the class does not define are missing, as on the real object."""

    def __init__(self, module, cls, intrinsics=None, **state):
        object.__setattr__(self, '_sb', (module, cls, dict(intrinsics or {})))
        Record.__init__(self, **state)

    def _sb_member(self, name):
        module, cls, _ = object.__getattribute__(self, '_sb')
        q = f'{cls}.{name}'
        defs = [st for st in module.get(cls).body if isinstance(st, ast.FunctionDef) and st.name == name]
        if defs:
            # a property getter and its setter share the name: the getter is the one to read through
            getters = [d for d in defs if any(text(x) == 'property' for x in d.decorator_list)]
            return (getters or defs)[0]
        if module.has(q):
            n = module.get(q)
            if isinstance(n, ast.FunctionDef):
                return n
        for st in module.get(cls).body:
            if isinstance(st, ast.Assign) and any(isinstance(t, ast.Name) and t.id == name for t in st.targets):
                return st
        return None

    def _sb_call(self, fn, a, k):
        module, cls, intr = object.__getattribute__(self, '_sb')
        return Evaluator(fn, intrinsics=intr, module=module, cls=cls).call_function(fn, list(a), dict(k), bound_self=self)

    def __getattr__(self, name):
        if name.startswith('_sb'):
            raise AttributeError(name)
        mem = self._sb_member(name)
        if isinstance(mem, ast.FunctionDef):
            if any(text(d) == 'property' for d in mem.decorator_list):
                return self._sb_call(mem, (), {})
            return lambda *a, **k: self._sb_call(mem, a, k)
        if isinstance(mem, ast.Assign):
            v = mem.value
            if isinstance(v, ast.Call) and text(v.func) == 'property' and v.args:
                g = v.args[0]
                module, cls, intr = object.__getattribute__(self, '_sb')
                if isinstance(g, ast.Lambda):
                    return Evaluator(g, intrinsics=intr, module=module, cls=cls).call_function(g, [self], {})
                gm = self._sb_member(g.id) if isinstance(g, ast.Name) else None
                if isinstance(gm, ast.FunctionDef):
                    return self._sb_call(gm, (), {})
            module, cls, intr = object.__getattribute__(self, '_sb')
            return Evaluator(mem, intrinsics=intr, module=module, cls=cls).expr(v, {})
        raise AttributeError(name)

    def _sb_proto(self, name, *a):
        mem = self._sb_member(name)
        if not isinstance(mem, ast.FunctionDef):
            raise TypeError(f'the class does not define {name}')
        return self._sb_call(mem, a, {})

    def __len__(self):
        return self._sb_proto('__len__')

    def __iter__(self):
        return iter(self._sb_proto('__iter__'))

    def __getitem__(self, i):
        return self._sb_proto('__getitem__', i)

    def __delitem__(self, i):
        return self._sb_proto('__delitem__', i)

    def __setitem__(self, i, v):
        return self._sb_proto('__setitem__', i, v)

    def __contains__(self, x):
        mem = self._sb_member('__contains__')
        if isinstance(mem, ast.FunctionDef):
            return self._sb_call(mem, (x,), {})
        return any(y == x for y in self)


DOM_EXCEPTIONS = ('DOMException', 'IndexSizeErr', 'DomstringSizeErr', 'HierarchyRequestErr', 'WrongDocumentErr', 'InvalidCharacterErr', 'NoDataAllowedErr', 'NoModificationAllowedErr', 'NotFoundErr',
                  'NotSupportedErr', 'InuseAttributeErr', 'InvalidStateErr', 'SyntaxErr', 'InvalidModificationErr', 'NamespaceErr', 'InvalidAccessErr', 'ValidationErr')


def xml_model():
    """`xml` as far as the library uses it: the DOM exception classes, modelled by their names."""
    return Record(dom=Record(**{n: n for n in DOM_EXCEPTIONS}))


class Loose(Record):
    """A collaborator the rule does not look at: whatever method the evaluated code calls on it is a
    no-op that returns None (change notifications, cache invalidation hooks)."""

    def __getattr__(self, name):
        if name.startswith('__'):
            raise AttributeError(name)
        if name in ('get', 'keys', 'items', 'values', 'pop', 'index', 'count', 'copy'):
            raise AnalysisError(f'the evaluated code reads `{name}` of a collaborator the rule does not model')
        return lambda *a, **k: None


def compared_constants(fn, kinds=(int, str, bytes)):
    """Constants the function compares something with (==, !=, in)."""
    out = set()
    for n in ast.walk(fn):
        if isinstance(n, ast.Compare):
            for x in [n.left] + n.comparators:
                for c in ast.walk(x):
                    if isinstance(c, ast.Constant) and isinstance(c.value, kinds):
                        out.add(c.value)
    return out
