"""C02 - the parsed DOM is what the source denotes, whatever the spelling."""
from __future__ import annotations

import ast
import re

from sa.core import AnalysisError, call_name, const, resolve_collection, text

HAS_LETTER = re.compile('[A-Za-z]')
SKIP = ('cssutils/sac.py', 'cssutils/css/cssvalue.py', 'cssutils/css2productions.py', 'conftest.py')
TOKEN_NAMES = ('token', 't', 'tok', 'attoken', 'starttoken', 'nexttoken', 'identtoken', 'colontoken', 'encodingtoken', 'end', 'last')

# raw comparisons that are right as they are
EXEMPT = {
    ('cssutils/css/value.py', '_MSValueProd'): "vendor token `progid:DXImageTransform.Microsoft.`: not a CSS keyword; the tokenizer production that creates the token (cssproductions._DXImageTransform) is itself case-sensitive, so no other spelling can arrive here",
}


def run(chk):
    chk.attempt(r02a, chk)
    from .c13 import r13a, r13b

    chk.attempt(r13a, chk, 'R02.b')
    chk.attempt(r13b, chk, 'R02.b2')
    chk.attempt(r02c, chk)
    from .c18 import r18h

    chk.attempt(r18h, chk, 'R02.e')
    from .c16 import r16b

    chk.attempt(r16b, chk, 'R02.d')
    from .c04 import r02f

    chk.attempt(r02f, chk)
    chk.attempt(r02g, chk)
    from .c02b import r02h

    chk.attempt(r02h, chk)


def lit_strings(node):
    out = []
    if isinstance(node, ast.Constant) and isinstance(node.value, str):
        out.append(node.value)
    elif isinstance(node, (ast.Tuple, ast.List, ast.Set)):
        for e in node.elts:
            out += lit_strings(e)
    elif isinstance(node, ast.Dict):
        for k in node.keys:
            out += lit_strings(k)
    return out


def is_norm(e):
    if isinstance(e, ast.Call):
        cn = call_name(e)
        if cn.split('.')[-1] in ('normalize', '_normalize'):
            return True
        if isinstance(e.func, ast.Attribute) and e.func.attr in ('lower', 'upper', 'casefold'):
            return True
        if cn.endswith('_tokenvalue'):
            if any(k.arg == 'normalize' and const(k.value) is True for k in e.keywords):
                return True
            if len(e.args) > 1 and const(e.args[1]) is True:
                return True
    return False


def is_raw_src(e):
    if isinstance(e, ast.Call) and call_name(e).endswith('_tokenvalue') and not is_norm(e):
        return True
    if isinstance(e, ast.Subscript) and isinstance(e.value, ast.Name) and const(e.slice) == 1 and e.value.id in TOKEN_NAMES:
        return True
    return False


def keyword_tables(m, fn):
    """Local names bound to dict/tuple literals of keywords (e.g. `factories`)."""
    out = {}
    for n in ast.walk(fn):
        if isinstance(n, ast.Assign) and len(n.targets) == 1 and isinstance(n.targets[0], ast.Name):
            lits = lit_strings(n.value)
            if lits and isinstance(n.value, (ast.Dict, ast.Tuple, ast.List, ast.Set)):
                out[n.targets[0].id] = lits
    return out


def raw_comparisons(repo):
    """(rel, qual, node) for comparisons of raw token text with a literal that
    contains a letter."""
    hits = []
    n_tracked = 0
    margins = None
    try:
        margins = [k for k in lit_strings(repo.mod('cssutils/css/marginrule.py').class_assign('MarginRule', 'margins'))]
    except AnalysisError:
        margins = None
    for rel, m in repo.modules.items():
        if rel in SKIP:
            continue
        for q, fn in list(m.functions()):
            raw, notraw = set(), set()
            for n in ast.walk(fn):
                if isinstance(n, ast.Assign):
                    for t in n.targets:
                        if isinstance(t, ast.Name):
                            (raw if is_raw_src(n.value) else notraw).add(t.id)
                        elif isinstance(t, ast.Tuple) and len(t.elts) == 4 and isinstance(n.value, ast.Name) and all(isinstance(e, ast.Name) for e in t.elts):
                            raw.add(t.elts[1].id)
                        elif isinstance(t, ast.Tuple) and isinstance(n.value, ast.Tuple) and len(t.elts) == len(n.value.elts):
                            for a, b in zip(t.elts, n.value.elts):
                                if isinstance(a, ast.Name):
                                    (raw if is_raw_src(b) else notraw).add(a.id)
                elif isinstance(n, ast.For) and isinstance(n.target, ast.Tuple) and len(n.target.elts) == 4 and all(isinstance(e, ast.Name) for e in n.target.elts):
                    raw.add(n.target.elts[1].id)
            raw -= notraw
            n_tracked += len(raw)
            tables = keyword_tables(m, fn)

            def rawexpr(e, lam):
                if is_raw_src(e):
                    return True
                return isinstance(e, ast.Name) and (e.id in raw or e.id == lam)

            for n in ast.walk(fn):
                lam = None
                p = m.parents.get(n)
                while p is not None and p is not fn:
                    if isinstance(p, ast.Lambda) and [a.arg for a in p.args.args][:2] == ['t', 'v']:
                        lam = 'v'
                    p = m.parents.get(p)
                if m.enclosing_def(n) is not fn and lam is None:
                    continue
                if isinstance(n, ast.Compare) and len(n.ops) == 1:
                    l, r = n.left, n.comparators[0]
                    for a, b in ((l, r), (r, l)):
                        if rawexpr(a, lam):
                            lits = lit_strings(b)
                            if isinstance(b, ast.Name) and b.id in tables:
                                lits = tables[b.id]
                            elif not lits and isinstance(b, (ast.Name, ast.Call)):
                                # a named (module level) collection of keywords, possibly wrapped in frozenset()/tuple()
                                elts = resolve_collection(m, fn, b, dicts=True)
                                lits = [x for e in (elts or []) for x in lit_strings(e)]
                            if text(b).endswith('MarginRule.margins') and margins:
                                lits = margins
                            if [x for x in lits if HAS_LETTER.search(x)]:
                                hits.append((rel, q, n))
                elif isinstance(n, ast.Call) and isinstance(n.func, ast.Attribute) and n.func.attr in ('startswith', 'endswith') and rawexpr(n.func.value, lam):
                    if [x for a in n.args for x in lit_strings(a) if HAS_LETTER.search(x)]:
                        hits.append((rel, q, n))
    return hits, n_tracked


def normalized_comparisons(repo):
    """Count comparisons of a *normalised* token value with a keyword literal -
    the positive instances of the rule (so that it cannot pass vacuously)."""
    k = 0
    for rel, m in repo.modules.items():
        if rel in SKIP:
            continue
        for n in ast.walk(m.tree):
            if isinstance(n, ast.Compare) and len(n.ops) == 1:
                l, r = n.left, n.comparators[0]
                for a, b in ((l, r), (r, l)):
                    if is_norm(a) and [x for x in lit_strings(b) if HAS_LETTER.search(x)]:
                        k += 1
    return k


def r02a(chk, rid='R02.a'):
    chk.rule(rid, 'case-insensitive keywords are compared in normalised form: a small dataflow tags expressions as raw token text (_tokenvalue(t), token[1], the value unpacked from a token tuple, the `v` of a Prod matcher) or normalised (normalize(), _normalize(), .lower(), _tokenvalue(t, normalize=True)); a comparison (==, !=, in, startswith, endswith) of raw text with a literal containing a letter is a violation')
    hits, tracked = raw_comparisons(chk.repo)
    pos = normalized_comparisons(chk.repo)
    if pos < 15 or tracked < 20:
        raise AnalysisError(f'R02.a: only {pos} normalised keyword comparisons / {tracked} raw-value variables recognised - the idioms the rule tracks have changed')
    chk.extra['normalised_keyword_comparisons'] = pos
    chk.extra['raw_value_variables'] = tracked
    chk.ob(rid, 'cssutils', '<package>', f'{pos} keyword comparisons use a normalised value', True)
    for rel, q, n in hits:
        ex = EXEMPT.get((rel, q))
        chk.ob(rid, rel, q, text(n), bool(ex), ('exempt: ' + ex) if ex else
               'raw token text is compared with a lower-case keyword: the same construct written in another letter case (or with a simple escape) takes the other branch and gives a different DOM',
               trivial=bool(ex))


def r02c(chk, rid='R02.c'):
    chk.rule(rid, 'the comment switch only filters: CSSParser hands parseComments to the tokenizer as doComments and nowhere else; in Tokenizer.tokenize the switch guards nothing but yields (position bookkeeping is outside it)')
    pm = chk.repo.mod('cssutils/parse.py')
    init = pm.get('CSSParser.__init__')
    uses = [n for n in ast.walk(init) if isinstance(n, ast.Name) and n.id == 'parseComments' and isinstance(n.ctx, ast.Load)]
    ok = len(uses) == 1 and isinstance(pm.parents.get(uses[0]), ast.keyword) and pm.parents[uses[0]].arg == 'doComments'
    chk.ob(rid, 'cssutils/parse.py', 'CSSParser.__init__', 'parseComments is only passed on as Tokenizer(doComments=...)', ok, f'{len(uses)} uses')
    tm = chk.repo.mod('cssutils/tokenize2.py')
    fn = tm.get('Tokenizer.tokenize')
    n = 0
    for x in ast.walk(fn):
        if isinstance(x, ast.If) and '_doComments' in text(x.test):
            n += 1
            inner = x.body + x.orelse
            only = all(isinstance(s, ast.Expr) and isinstance(s.value, (ast.Yield, ast.YieldFrom)) for s in inner)
            chk.ob(rid, 'cssutils/tokenize2.py', 'Tokenizer.tokenize', f'`if {text(x.test)[:60]}` guards only the yield', only,
                   'statements other than the yield depend on the comment switch: ' + '; '.join(text(s)[:40] for s in inner))
    if n < 2:
        raise AnalysisError('Tokenizer.tokenize: comment switch not found')
    # the switch is read nowhere else
    others = [tm.qualname_of(x) for x in ast.walk(tm.tree) if isinstance(x, ast.Attribute) and x.attr == '_doComments' and isinstance(x.ctx, ast.Load) and tm.qualname_of(x) != 'Tokenizer.tokenize']
    chk.ob(rid, 'cssutils/tokenize2.py', 'Tokenizer', '_doComments is read only in tokenize', not others, str(others))


def r02g(chk, rid='R02.g'):
    chk.rule(rid, 'disabling comment parsing removes exactly the comment tokens, decided by evaluation: Tokenizer.tokenize (evaluated on its syntax tree as in R05.i) is run with the comment switch on and off on every text made of a comment piece - complete, multi-line, or left open at the end of input - before, behind or between other token texts: the stream with the switch off is the stream with the switch on minus its COMMENT tokens, with the same types, values, lines, columns and offsets')
    import itertools

    from sa.absint import Raised

    from .c05 import PIECES, tokenize_text

    comments = [p for p in PIECES if p.startswith('/*')]
    if len(comments) < 3:
        raise AnalysisError('R02.g: comment pieces vanished from the corpus')
    texts = set()
    for c in comments:
        for a in PIECES:
            texts |= {c + a, a + c, a + c + a}
    bad = []
    for t in sorted(texts):
        for full in (True, False):
            on = tokenize_text(chk.repo, t, fullsheet=full, comments=True)
            off = tokenize_text(chk.repo, t, fullsheet=full, comments=False)
            if isinstance(on, Raised) or isinstance(off, Raised) or [x for x in on if x[0] != 'COMMENT'] != off:
                bad.append(t)
                break
    chk.extra['comment_switch_texts'] = len(texts)
    chk.ob(rid, 'cssutils/tokenize2.py', 'Tokenizer.tokenize', f'the comment switch only filters COMMENT tokens ({len(texts)} texts)', not bad,
           f'{len(bad)} texts differ beyond their comments, e.g. {bad[:2]!r}: a sheet parsed with parseComments=False has other tokens or positions than with comments')
