"""E3 - class table, call resolution and may-raise-DOM summaries.

A *site* is a construct that can raise a DOM exception when the library is in
raising mode: ``raise xml.dom.*``; a call of the error handler without
``neverraise=True`` (``_ErrorHandler.__handle`` raises for every level when
``raiseExceptions`` is on); ``self._checkReadonly()``; a call / attribute store
that resolves to a function with such a site (to a fixpoint).  Sites enclosed in
a ``try`` whose handler catches DOM exceptions and does not re-raise are not
propagated.
"""
from __future__ import annotations

import ast

from sa.cfg import node_exprs, walk_expr
from sa.core import AnalysisError, call_name, dotted, kw, const, text, walk_local

LOG_METHODS = {'error', 'warn', 'warning', 'info', 'debug', 'critical', 'fatal'}
SKIP_MODULES = ('cssutils/sac.py', 'cssutils/css/cssvalue.py', 'cssutils/css2productions.py', 'conftest.py')
# attribute-call names never resolved by name (container / string API)
GENERIC = {
    'append', 'insert', 'extend', 'pop', 'get', 'items', 'keys', 'values', 'update', 'clear', 'replace', 'strip',
    'lower', 'upper', 'startswith', 'endswith', 'join', 'split', 'find', 'count', 'index', 'format', 'copy', 'sort',
    'remove', 'encode', 'decode', 'read', 'write', 'match', 'search', 'sub', 'group', 'end', 'start', 'add',
    'setdefault', 'lstrip', 'rstrip', 'close', 'tell', 'seek', 'rfind', 'reverse', 'splitlines', 'isspace', 'groupdict',
    '__iter__', '__setattr__', '__getattribute__', 'item', 'appendItem', 'appendToVal', 'rulesOfType',
}


class ClassInfo:
    def __init__(self, rel, node):
        self.rel = rel
        self.node = node
        self.name = node.name
        self.bases = [dotted(b).split('.')[-1] for b in node.bases if dotted(b)]
        self.methods = {}
        self.setters = {}  # attr -> FunctionDef | Lambda
        self.getters = {}
        for st in node.body:
            if isinstance(st, ast.FunctionDef):
                deco = [text(d) for d in st.decorator_list]
                if any(d.endswith('.setter') for d in deco):
                    self.setters[st.name] = st
                elif 'property' in deco:
                    self.getters[st.name] = st
                else:
                    self.methods[st.name] = st
        for st in node.body:
            if isinstance(st, ast.Assign) and isinstance(st.value, ast.Call) and call_name(st.value) == 'property':
                c = st.value
                fget = c.args[0] if len(c.args) > 0 else kw(c, 'fget')
                fset = c.args[1] if len(c.args) > 1 else kw(c, 'fset')
                for t in st.targets:
                    if isinstance(t, ast.Name):
                        for slot, f in ((self.getters, fget), (self.setters, fset)):
                            if isinstance(f, ast.Name) and f.id in self.methods:
                                slot[t.id] = self.methods[f.id]
                            elif isinstance(f, ast.Lambda):
                                slot[t.id] = f

    def mangled(self, name):
        if name.startswith('__') and not name.endswith('__'):
            return f'_{self.name.lstrip("_")}{name}'
        return name


class Effects:
    _cache = {}

    @classmethod
    def get(cls, repo):
        key = id(repo)
        if key not in cls._cache:
            cls._cache[key] = Effects(repo)
        return cls._cache[key]

    def __init__(self, repo):
        self.repo = repo
        self.classes = {}  # name -> [ClassInfo]
        self.fn_key = {}  # id(FunctionDef/Lambda) -> (rel, qual)
        self.fn_node = {}  # key -> node
        self.fn_class = {}  # key -> ClassInfo | None (class of the outermost method)
        self.by_method = {}  # method name -> [key]
        self.by_setter = {}
        self.module_funcs = {}  # name -> [key]
        for rel, m in repo.modules.items():
            if rel in SKIP_MODULES:
                continue
            for q, c in m.classes():
                if '.' in q:
                    continue
                self.classes.setdefault(c.name, []).append(ClassInfo(rel, c))
            for q, f in m.functions():
                key = (rel, q)
                self.fn_key[id(f)] = key
                self.fn_node[key] = f
                if '.' not in q:
                    self.module_funcs.setdefault(q, []).append(key)
        for name, infos in self.classes.items():
            for ci in infos:
                for mn, f in list(ci.methods.items()) + list(ci.getters.items()):
                    k = self.fn_key.get(id(f))
                    if k:
                        self.by_method.setdefault(mn, []).append(k)
                for an, f in ci.setters.items():
                    k = self.fn_key.get(id(f))
                    if k is None and isinstance(f, ast.Lambda):
                        continue
                    if k:
                        self.by_setter.setdefault(an, []).append(k)
        for key in self.fn_node:
            rel, q = key
            cname = q.split('.')[0]
            ci = None
            for c in self.classes.get(cname, []):
                if c.rel == rel:
                    ci = c
            self.fn_class[key] = ci
        self._sites = {}
        self._raises = {}
        self._compute()

    # -- lookup -----------------------------------------------------------
    def mro_lookup(self, ci, name, slot='methods', seen=None):
        seen = seen or set()
        if ci is None or ci.name in seen:
            return None
        seen.add(ci.name)
        table = getattr(ci, slot)
        if name in table:
            return table[name]
        if slot == 'methods' and name in ci.getters:
            return ci.getters[name]
        for b in ci.bases:
            for bi in self.classes.get(b, []):
                r = self.mro_lookup(bi, name, slot, seen)
                if r is not None:
                    return r
        return None

    def class_of(self, rel, qual):
        return self.fn_class.get((rel, qual))

    def resolve_call(self, rel, qual, call):
        """Callee keys of a call made inside function (rel, qual)."""
        ci = self.fn_class.get((rel, qual))
        m = self.repo.mod(rel)
        f = call.func
        out = []
        if isinstance(f, ast.Name):
            # nested def in an enclosing function
            parts = qual.split('.')
            for i in range(len(parts), 0, -1):
                k = (rel, '.'.join(parts[:i]) + '.' + f.id)
                if k in self.fn_node:
                    return [k]
            if (rel, f.id) in self.fn_node:
                return [(rel, f.id)]
            if f.id in self.classes:
                return self._ctor(f.id)
            return list(self.module_funcs.get(f.id, []))
        if isinstance(f, ast.Attribute):
            base = f.value
            name = f.attr
            if isinstance(base, ast.Name) and base.id == 'self' and ci is not None:
                t = self.mro_lookup(ci, name) or self.mro_lookup(ci, ci.mangled(name))
                if t is None and name.startswith('__'):
                    t = self.mro_lookup(ci, name[2:])
                if t is not None and id(t) in self.fn_key:
                    return [self.fn_key[id(t)]]
                return []
            if isinstance(base, ast.Call) and call_name(base) == 'super' and ci is not None:
                for b in ci.bases:
                    for bi in self.classes.get(b, []):
                        t = self.mro_lookup(bi, name)
                        if t is not None and id(t) in self.fn_key:
                            return [self.fn_key[id(t)]]
                return []
            d = dotted(f)
            if d.startswith(('cssutils.css.', 'cssutils.stylesheets.', 'css.', 'stylesheets.')) and name in self.classes:
                return self._ctor(name)
            if d.startswith('cssutils.ser.'):
                for c in self.classes.get('CSSSerializer', []):
                    t = c.methods.get(name)
                    if t is not None:
                        return [self.fn_key[id(t)]]
                return []
            if d.startswith(('cssutils.util.', 'cssutils.helper.', 'cssutils.codec.', 'codec.', 'helper.', 'util.')):
                return list(self.module_funcs.get(name, []))
            if name in GENERIC or name in LOG_METHODS:
                return []
            return list(self.by_method.get(name, []))
        return out

    def _ctor(self, cname):
        out = []
        for ci in self.classes.get(cname, []):
            t = self.mro_lookup(ci, '__init__')
            if t is not None and id(t) in self.fn_key:
                out.append(self.fn_key[id(t)])
        return out

    def resolve_store(self, rel, qual, target):
        """Setter keys of an attribute store ``obj.attr = ...``."""
        if not isinstance(target, ast.Attribute):
            return []
        ci = self.fn_class.get((rel, qual))
        if isinstance(target.value, ast.Name) and target.value.id == 'self' and ci is not None:
            t = self.mro_lookup(ci, target.attr, 'setters')
            if t is not None and id(t) in self.fn_key:
                return [self.fn_key[id(t)]]
            return []
        if target.attr.startswith('_'):
            return []
        return list(self.by_setter.get(target.attr, []))

    # -- sites ----------------------------------------------------------------
    @staticmethod
    def is_log_call(call):
        f = call.func
        if not (isinstance(f, ast.Attribute) and f.attr in LOG_METHODS):
            return False
        d = dotted(f)
        if not d:
            return False
        recv = d.rsplit('.', 1)[0]
        return recv == 'log' or recv.endswith('._log') or recv == 'cssutils.log' or recv == '_log'

    @staticmethod
    def log_raises(call):
        nr = kw(call, 'neverraise')
        return not (nr is not None and const(nr) is True)

    @staticmethod
    def is_dom_raise(st):
        if not isinstance(st, ast.Raise) or st.exc is None:
            return False
        t = text(st.exc)
        return 'xml.dom.' in t

    def _direct_sites(self, key):
        """[(node, description, callee keys or None)] for constructs inside the
        function itself (nested defs excluded)."""
        rel, q = key
        fn = self.fn_node[key]
        m = self.repo.mod(rel)
        sites = []
        for n in walk_local(fn, include_lambda=False):
            if isinstance(n, ast.Raise) and self.is_dom_raise(n):
                sites.append((n, 'raise ' + text(n.exc)[:60], None))
            elif isinstance(n, ast.Call):
                if self.is_log_call(n):
                    if self.log_raises(n):
                        sites.append((n, text(n.func) + '(...)', None))
                elif call_name(n) == 'self._checkReadonly':
                    sites.append((n, 'self._checkReadonly()', None))
                else:
                    callees = self.resolve_call(rel, q, n)
                    if callees:
                        sites.append((n, text(n.func) + '(...)', callees))
            elif isinstance(n, (ast.Assign, ast.AugAssign)):
                tgts = n.targets if isinstance(n, ast.Assign) else [n.target]
                for t in tgts:
                    for x in [t] + (list(t.elts) if isinstance(t, (ast.Tuple, ast.List)) else []):
                        callees = self.resolve_store(rel, q, x)
                        if callees:
                            sites.append((x, f'{text(x)} = ... (setter)', callees))
        # drop sites protected by a try that catches DOM exceptions
        out = []
        for node, desc, callees in sites:
            if not self._caught(m, fn, node):
                out.append((node, desc, callees))
        return out

    @staticmethod
    def _handler_catches_dom(h):
        if h.type is None:
            return True
        names = [text(h.type)] if not isinstance(h.type, ast.Tuple) else [text(e) for e in h.type.elts]
        for t in names:
            if t in ('Exception', 'BaseException', 'xml.dom.DOMException') or t.startswith('xml.dom.'):
                return True
        return False

    def _caught(self, m, fn, node):
        child = node
        n = m.parents.get(node)
        while n is not None and n is not fn:
            if isinstance(n, ast.Try) and child in n.body:
                for h in n.handlers:
                    if self._handler_catches_dom(h):
                        # re-raising handlers do not protect
                        if not any(isinstance(x, ast.Raise) for x in ast.walk(h)):
                            return True
            child = n
            n = m.parents.get(n)
        return False

    def _compute(self):
        direct = {k: self._direct_sites(k) for k in self.fn_node}
        raises = {k: any(c is None for _, _, c in v) for k, v in direct.items()}
        changed = True
        rounds = 0
        while changed:
            changed = False
            rounds += 1
            for k, v in direct.items():
                if raises[k]:
                    continue
                for _, _, callees in v:
                    if callees and any(raises.get(c) for c in callees):
                        raises[k] = True
                        changed = True
                        break
        self._raises = raises
        self._sites = {}
        for k, v in direct.items():
            self._sites[k] = [(n, d, c) for n, d, c in v if c is None or any(raises.get(x) for x in c)]
        self.rounds = rounds

    def may_raise(self, key):
        return self._raises.get(key, False)

    def sites(self, key):
        return self._sites.get(key, [])

    def node_may_raise(self, rel, cls, expr_or_stmt, qual=None):
        """Does evaluating this statement/expression possibly raise a DOM
        exception?  (used as the CFG may_raise predicate; ``qual`` defaults to
        any function of the module that contains the node)"""
        m = self.repo.mod(rel)
        fn = m.enclosing_def(expr_or_stmt) if not isinstance(expr_or_stmt, (ast.FunctionDef,)) else expr_or_stmt
        # climb out of lambdas
        while isinstance(fn, ast.Lambda):
            fn = m.enclosing_def(fn)
        key = self.fn_key.get(id(fn))
        if key is None:
            return False
        site_nodes = {id(n) for n, _, _ in self.sites(key)}
        if not site_nodes:
            return False
        for x in walk_expr(expr_or_stmt):
            if id(x) in site_nodes:
                return True
        return False

    def site_desc(self, rel, expr_or_stmt):
        m = self.repo.mod(rel)
        fn = m.enclosing_def(expr_or_stmt)
        while isinstance(fn, ast.Lambda):
            fn = m.enclosing_def(fn)
        key = self.fn_key.get(id(fn))
        out = []
        if key:
            sn = {id(n): d for n, d, _ in self.sites(key)}
            for x in walk_expr(expr_or_stmt):
                if id(x) in sn:
                    out.append(sn[id(x)])
        return out
