"""C17 - media lists are canonical ordered sets; media queries survive intact."""
from __future__ import annotations

import ast

from sa.core import AnalysisError, call_name, const, text

from .effects import Effects

ML = 'cssutils/stylesheets/medialist.py'
MQ = 'cssutils/stylesheets/mediaquery.py'
SER = 'cssutils/serialize.py'
PROTOCOL = ['__iter__', '__len__', '__getitem__', '__delitem__', '__setitem__', 'length', 'item']


def run(chk):
    chk.attempt(r17a, chk)
    chk.attempt(r17b, chk)
    chk.attempt(r17c, chk)
    from .c12 import r12d
    from .c15 import r15a

    chk.attempt(r17f, chk)
    chk.attempt(r12d, chk, 'R17.d')
    chk.attempt(r15a, chk, 'R17.e')


def _member(eff, ci, name):
    f = eff.mro_lookup(ci, name)
    if f is None:
        f = eff.mro_lookup(ci, name, 'getters')
    if f is None:
        # class-level `length = property(lambda ...)`
        for st in ci.node.body:
            if isinstance(st, ast.Assign) and any(isinstance(t, ast.Name) and t.id == name for t in st.targets):
                return st
    return f


def _filters(node):
    """Type constants an accessor filters the raw item list by."""
    out = set()
    for n in ast.walk(node):
        if isinstance(n, ast.Compare) and len(n.ops) == 1 and isinstance(n.ops[0], ast.Eq):
            sides = [n.left, n.comparators[0]]
            if any(text(s).endswith('.type') for s in sides):
                for s in sides:
                    if isinstance(const(s), str):
                        out.add(s.value)
    return out


def coherent(eff, ci):
    """Do all members of the container protocol see the same (filtered) view?
    Returns (ok, reason)."""
    it = _member(eff, ci, '__iter__')
    if it is None:
        return True, ''
    flt = _filters(it)
    if not flt:
        return True, ''
    view = {'__iter__'}  # members known to use the filtered view
    members = {n: _member(eff, ci, n) for n in PROTOCOL}
    helpers = {}
    for n, f in ci.methods.items():
        if _filters(f) >= flt and n not in PROTOCOL:
            helpers[n] = f
    changed = True
    while changed:
        changed = False
        for n, f in members.items():
            if n in view or f is None:
                continue
            src = ast.unparse(f)
            if _filters(f) >= flt:
                ok = True
            else:
                ok = False
                # delegation: iterating self / list(self) / self[...] / a helper / another view member
                if any(f'self.{h}(' in src or f'self._{ci.name}{h}(' in src or f'self.{h.lstrip("_")}(' in src for h in helpers):
                    ok = True
                if 'list(self)' in src or 'for _ in self' in src or 'in self)' in src or 'in self:' in src:
                    ok = True
                if 'self[' in src and '__getitem__' in view:
                    ok = True
                if 'len(self)' in src and '__len__' in view:
                    ok = True
            if ok:
                view.add(n)
                changed = True
    raw = [n for n, f in members.items() if f is not None and n not in view]
    if raw:
        return False, f'__iter__ yields only {sorted(flt)} items but {raw} work on the raw item list'
    return True, ''



def _init_literals(chk, m, cls='MediaList'):
    """{attribute: value} for every `self.X = <literal>` of the class's __init__: state a receiver model must have
    even when no rule looks at it (a cache, a counter) - without it a harmless new attribute stops the analysis."""
    out = {}
    m = chk.repo.mod('cssutils/stylesheets/medialist.py')
    init = m.get(f'{cls}.__init__')
    for st in ast.walk(init):
        if isinstance(st, ast.Assign) and len(st.targets) == 1 and isinstance(st.targets[0], ast.Attribute) and text(st.targets[0].value) == 'self':
            try:
                out[st.targets[0].attr] = ast.literal_eval(st.value)
            except (ValueError, SyntaxError):
                pass
    return out


def _with_init(chk, m, me, cls='MediaList'):
    import copy

    for k, v in _init_literals(chk, m, cls).items():
        if k not in vars(me):
            setattr(me, k, copy.deepcopy(v))
    return me


def r17a(chk, rid='R17.a'):
    chk.rule(rid, 'container protocol coherence: for every list-like DOM class whose __iter__ skips items, __len__, __getitem__, __delitem__, __setitem__, length and item (resolved through the class hierarchy) use the same filtered view - directly, through a helper that applies the filter, or by delegating to a member that does')
    eff = Effects.get(chk.repo)
    from .c15 import filtering_iter_classes

    classes = filtering_iter_classes(eff)
    n = 0
    for (rel, name), ci in sorted(classes.items()):
        if not rel.startswith(('cssutils/css/', 'cssutils/stylesheets/')) or rel.endswith('cssvalue.py'):
            continue
        n += 1
        ok, why = coherent(eff, ci)
        chk.ob(rid, rel, name, 'count, indexing, deletion and iteration agree', ok, why + ': len(), x[i] and item(i) disagree with iteration as soon as a skipped item (a comment) is present')
    if n < 1:
        raise AnalysisError('no filtering list class found (MediaList confirmed by hand)')


def r17b(chk, rid='R17.b'):
    chk.rule(rid, "canonicalisation agreement between parsing and editing a media list: _setMediaText collapses to 'all' and drops repeated media types; appendMedium rejects additions to 'all', moves a type already present to the end (delete, then append) and clears the list when 'all' is appended; deleteMedium rejects an absent type; the serializer writes 'all' for the empty list")
    m = chk.repo.mod(ML)
    _eval_set_media_text(chk, rid, m)
    _eval_edit_media(chk, rid, m)
    _eval_medialist_writer(chk, rid)


def _eval_medialist_writer(chk, rid):
    """CSSSerializer.do_stylesheets_medialist evaluated on its syntax tree: Out is modelled as the
    list of (value, type) pairs appended to it."""
    from sa.absint import Evaluator, Raised, Record

    sm = chk.repo.mod(SER)
    fn = sm.get('CSSSerializer.do_stylesheets_medialist')

    class ML(Record):
        def __len__(self):
            return sum(1 for it in self.seq if it.type == 'MediaQuery')

    def item(t, v):
        return Record(type=t, value=v)

    cases = {
        'empty list': ([], 'all'),
        'comment only': ([item('COMMENT', 'c')], 'all'),
        'one query': ([item('MediaQuery', 'tv')], [('tv', 'MediaQuery')]),
        'three queries and comments': ([item('COMMENT', 'c0'), item('MediaQuery', 'tv'), item('COMMENT', 'c1'), item('MediaQuery', 'print'), item('MediaQuery', 'x')],
                                       [('c0', 'COMMENT'), ('tv', 'MediaQuery'), ('c1', 'COMMENT'), (',', 'CHAR'), ('print', 'MediaQuery'), (',', 'CHAR'), ('x', 'MediaQuery')]),
    }
    for label, (seq, want) in cases.items():
        parts = []
        out = Record(append=lambda val, type_=None, *a, **k: parts.append((val, type_)), value=lambda: list(parts))
        got = Evaluator(fn, intrinsics={'Out': lambda ser: out}, module=sm, cls='CSSSerializer').run(self=Record(), medialist=ML(seq=seq))
        chk.ob(rid, SER, 'CSSSerializer.do_stylesheets_medialist', f"{label}: the empty list is written 'all'; otherwise every item in list order with one comma between consecutive queries (by evaluation)", got == want, f'{got!r}, prescribed {want!r}')


def r17c(chk, rid='R17.c'):
    chk.rule(rid, "media query grammar: the keyword predicates (only/not, media type, and) compare the normalised token value; the media type production hands back the first token that no longer matches (stopIfNoMoreMatch) so that the list parser sees the comma; MEDIA_TYPES holds the ten CSS 2.1 types")
    m = chk.repo.mod(MQ)
    fn = m.get('MediaQuery._setMediaText')
    # every match predicate of the productions (a lambda or a local function handed over as match=) is evaluated:
    # a keyword it accepts in lower case is accepted in upper case and with a simple escape too
    from sa.absint import Evaluator, Raised, Record

    preds = []
    for c in ast.walk(fn):
        if isinstance(c, ast.Call):
            for k in c.keywords:
                if k.arg == 'match':
                    tgt = k.value
                    if isinstance(tgt, ast.Name):
                        defs = [d for d in ast.walk(fn) if isinstance(d, ast.FunctionDef) and d.name == tgt.id]
                        binds = [st.value for st in ast.walk(fn) if isinstance(st, ast.Assign) and any(isinstance(t, ast.Name) and t.id == tgt.id for t in st.targets)]
                        tgt = (defs or [b for b in binds if isinstance(b, ast.Lambda)] or [None])[0]
                    if isinstance(tgt, (ast.Lambda, ast.FunctionDef)) and tgt not in preds:
                        preds.append(tgt)
    mt = m.class_assign('MediaQuery', 'MEDIA_TYPES')
    types_ = [const(e) for e in mt.elts] if isinstance(mt, (ast.List, ast.Tuple)) else []
    me = Record(MEDIA_TYPES=types_, _prods=Record(IDENT='IDENT', CHAR='CHAR', S='S'))

    def norm(x):
        import re as _re
        return _re.sub(r'\\([^0-9a-fA-F\n\r\f])', r'\1', x).lower() if x else x

    intr = {'normalize': norm, 'self': me, 'types': me._prods, 'PreDef': Record(types=me._prods)}
    n = 0
    for p_ in preds:
        ev = Evaluator(p_, intrinsics=intr, module=m, cls='MediaQuery')
        accepted = []
        for kw_ in ('only', 'not', 'and', 'print', 'screen', 'all', 'tv'):
            try:
                lo = ev.call_function(p_, ['IDENT', kw_], {})
                up = ev.call_function(p_, ['IDENT', kw_.upper()], {})
                esc = ev.call_function(p_, ['IDENT', kw_[0] + '\\' + kw_[1:] if kw_[1] not in 'abcdef' else kw_], {})
            except AnalysisError:
                lo = None
            if lo is None or isinstance(lo, Raised):
                accepted = None
                break
            if lo:
                accepted.append(kw_)
                chk.ob(rid, MQ, 'MediaQuery._setMediaText', f'the predicate that accepts `{kw_}` accepts it in upper case and with an escape as well', bool(up) and bool(esc), 'keyword recognised in lower case only')
        if accepted:
            n += 1
    if n < 3:
        raise AnalysisError('MediaQuery productions not recognised')
    # a query that continues with `and (...)` is not a simple media type: the AND production
    # behind the media type must mark it, otherwise the list treats `tv and (color)` as plain tv
    ands = [c for c in ast.walk(fn) if isinstance(c, ast.Call) and call_name(c).endswith('Prod') and any(k.arg == 'name' and const(k.value) == 'AND' for k in c.keywords)]
    marked = [c for c in ands if any(k.arg == 'toStore' and const(k.value) == 'not simple' for k in c.keywords)]
    chk.ob(rid, MQ, 'MediaQuery._setMediaText', "the AND production after a media type stores 'not simple'", bool(ands) and bool(marked),
           "`tv and (color)` reports mediaType 'tv': duplicate filtering and the 'all' collapse of the media list drop feature queries")
    only = [c for c in ast.walk(fn) if isinstance(c, ast.Call) and call_name(c).endswith('Prod') and any(k.arg == 'name' and const(k.value) == 'ONLY|NOT' for k in c.keywords)]
    chk.ob(rid, MQ, 'MediaQuery._setMediaText', "the ONLY|NOT production stores 'not simple'", bool(only) and all(any(k.arg == 'toStore' and const(k.value) == 'not simple' for k in c.keywords) for c in only), '')
    # what is committed after the parse, by evaluation with the parse result supplied
    from sa.absint import Obj

    for label, store, want in (('a plain media type', {'media_type': Record(value='tv')}, 'tv'), ('a media type followed by `and (...)`', {'media_type': Record(value='tv'), 'not simple': Record(value='and')}, 'OLD'),
                               ('only/not in front of the type', {'not simple': Record(value='only'), 'media_type': Record(value='tv')}, 'OLD'), ('features only', {}, 'OLD')):
        me2 = Obj(_checkReadonly=lambda: None, _wellformed=None, mediaType='OLD', _mediaType='OLD', _partof=False, MEDIA_TYPES=types_, _setSeq=lambda sq: None, _text=None)
        lax = Record(char=lambda **k: None, types=me._prods, comma=lambda **k: None, S=lambda **k: None, ident=lambda **k: None, comment=lambda **k: None)
        intr2 = {'ProdParser().parse': lambda *a, store=store, **k: (True, ['seq'], dict(store), None), 'Sequence': lambda *a, **k: None, 'Choice': lambda *a, **k: None, 'Prod': lambda *a, **k: None,
                 'PreDef': lax, 'normalize': norm, 'cssutils': Record(css=Record(value=Record(MediaQueryValueProd=lambda *a, **k: None)))}
        r = Evaluator(fn, intrinsics=intr2, module=m, cls='MediaQuery').run(self=me2, mediaText='text')
        if isinstance(r, Raised):
            raise AnalysisError(f'MediaQuery._setMediaText: {r!r}')
        chk.ob(rid, MQ, 'MediaQuery._setMediaText', f'{label}: mediaType ' + ('is the type' if want != 'OLD' else 'is not set (the query is not a simple type)'), me2.mediaType == want and me2._wellformed is True,
               f'mediaType becomes {me2.mediaType!r}: the media list treats a query with features as a plain type (duplicate filtering, the all collapse)')
    src = ast.unparse(fn)
    chk.ob(rid, MQ, 'MediaQuery._setMediaText', 'the media type production stops and hands back on the first non-matching token', "name='media_type'" in src and 'stopIfNoMoreMatch=True' in src, '', shape=True)
    mt = m.class_assign('MediaQuery', 'MEDIA_TYPES')
    vals = {const(e) for e in mt.elts} if isinstance(mt, (ast.List, ast.Tuple)) else set()
    want = {'all', 'braille', 'handheld', 'print', 'projection', 'speech', 'screen', 'tty', 'tv', 'embossed'}
    chk.ob(rid, MQ, 'MediaQuery.MEDIA_TYPES', 'the ten known media types', want <= vals, f'missing {sorted(want - vals)}')



def _eval_set_media_text(chk, rid, m):
    """MediaList._setMediaText after the production parse, evaluated on its syntax tree for
    model sequences of comments and media queries (the parse result is supplied by the model)."""
    chk.assume('R17.b: the production parse is replaced by its result (a sequence of comment and media-query items); a media query is modelled by mediaType and wellformed')
    import itertools

    from sa.absint import Evaluator, Raised, Record

    fn = m.get('MediaList._setMediaText')

    class MQ(Record):
        pass

    class Comment(Record):
        pass

    class SeqM(Record):
        pass

    def seqm(readonly=False):
        sq = SeqM(items=[])
        sq.append = lambda item, *a, **k: sq.items.append(item)
        return sq

    # item kinds: comment, simple types, 'all', a query with features (no simple type), a malformed query
    kinds = {'c': lambda: Record(type='COMMENT', value=Comment(cssText='/*c*/')),
             'tv': lambda: Record(type='MediaQuery', value=MQ(mediaType='tv', wellformed=True)),
             'print': lambda: Record(type='MediaQuery', value=MQ(mediaType='print', wellformed=True)),
             'all': lambda: Record(type='MediaQuery', value=MQ(mediaType='all', wellformed=True)),
             'TV': lambda: Record(type='MediaQuery', value=MQ(mediaType='TV', wellformed=True)),
             'ALL': lambda: Record(type='MediaQuery', value=MQ(mediaType='All', wellformed=True)),
             'feat': lambda: Record(type='MediaQuery', value=MQ(mediaType=None, wellformed=True)),
             'bad': lambda: Record(type='MediaQuery', value=MQ(mediaType='tv', wellformed=False))}
    n = 0
    classes = {}
    for length in range(0, 5):
        for combo in itertools.product(sorted(kinds), repeat=length):
            if length == 4 and (combo.count('c') + combo.count('feat') > 2 or len(set(combo)) > 3):
                continue
            items = [kinds[k]() for k in combo]
            for it, k in zip(items, combo):
                it.tag = k
            errors = []
            me = Record(_checkReadonly=lambda: None, _log=Record(error=lambda *a, **k: errors.append(a)), _wellformed=None, committed=None)
            me._setSeq = lambda sq: setattr(me, 'committed', sq)
            intr = {'ProdParser().parse': lambda *a, **k: (True, list(items), {}, []), 'Prod': lambda *a, **k: None, 'Sequence': lambda *a, **k: None,
                    'PreDef.comment': lambda *a, **k: None, 'PreDef.comma': lambda *a, **k: None, 'MediaQuery': MQ, 'cssutils.css.csscomment.CSSComment': Comment,
                    'cssutils.util.Seq': seqm, 'self._log.error': lambda *a, **k: errors.append(a), 'xml': Record(dom=Record(SyntaxErr='SyntaxErr'))}
            res = Evaluator(fn, intrinsics=intr, module=m, cls='MediaList').run(self=me, mediaText='...')
            n += 1
            mqs = [k for k in combo if k != 'c']
            # prescribed result
            if isinstance(res, Raised):
                got, want = f'raises {res.kind}', 'no exception'
            elif 'bad' in mqs or not mqs:
                # (a malformed query before any other decides; no query at all is an error)
                firstbad = next((i for i, k in enumerate(mqs) if k == 'bad'), None)
                want = ('rejected',)
                got = ('rejected',) if me._wellformed is False and me.committed is None else ('accepted', me._wellformed)
            else:
                if 'all' in combo or 'ALL' in combo:
                    i = min(combo.index(x) for x in ('all', 'ALL') if x in combo)
                    want_tags = [k for k in combo[:i] if k == 'c'] + [combo[i]]
                else:
                    want_tags, seen = [], set()
                    for k in combo:
                        if k in ('tv', 'print', 'TV'):
                            if k.lower() in seen:
                                continue  # media types are case-insensitive
                            seen.add(k.lower())
                        want_tags.append(k)
                want = ('accepted', want_tags)
                got = ('accepted', [it.tag for it in me.committed.items]) if me.committed is not None and me._wellformed else ('rejected',)
            cls = "lists with 'all' in another letter case" if 'ALL' in combo else 'lists with one type in two spellings' if ('TV' in combo and 'tv' in combo) else 'lists with an upper-case type' if 'TV' in combo else 'lists of lower-case types'
            classes.setdefault(cls, [0, 0, ''])
            classes[cls][0] += 1
            if got != want:
                classes[cls][1] += 1
                classes[cls][2] = classes[cls][2] or f'queries {list(combo)}: {got}, prescribed {want}'
    chk.extra['medialist_cases_evaluated'] = n
    for cls, (k, b, first) in sorted(classes.items()):
        chk.ob(rid, ML, 'MediaList._setMediaText', f"{cls}: 'all' replaces everything but the comments before it, a repeated media type - in any letter case - is dropped, queries without a simple type are kept, one malformed query or no query rejects the list", b == 0, f'{b} of {k} cases differ, e.g. {first}')



def _eval_edit_media(chk, rid, m):
    """MediaList.appendMedium / deleteMedium evaluated on their syntax trees; iteration, deletion and
    the index mapping are the class's own __iter__/__delitem__/__seqindex, evaluated as well."""
    from sa.absint import Evaluator, Raised, Record

    class MQ(Record):
        pass

    class SeqM(list):
        _readonly = True

        def append(self, val, typ=None, *a, **k):  # Seq.append(val, typ)
            list.append(self, Record(value=val, type=typ))

        def __setitem__(self, i, v):  # Seq.__setitem__(i, (val, typ, line, col))
            if isinstance(v, tuple) and len(v) == 4:
                v = Record(value=v[0], type=v[1])
            list.__setitem__(self, i, v)

    def mk(kinds):
        sq = SeqM()
        for i, k in enumerate(kinds):
            if k == 'c':
                list.append(sq, Record(value=Record(cssText='/*c*/'), type='COMMENT', tag=f'c{i}'))
            else:
                list.append(sq, Record(value=MQ(mediaType=k, mediaText=f'{k or ""} /*q*/ and (color)', wellformed=True, tag=f'{k}{i}'), type='MediaQuery', tag=f'{k}{i}'))
        return sq

    def tags(sq):
        return [getattr(it, 'tag', None) or getattr(it.value, 'tag', '?') for it in sq]

    lists = [[], ['tv'], ['c', 'tv', 'c', 'print'], ['TV', 'print', 'c'], ['all'], ['c', 'all'], [None, 'tv', None], ['tv', 'tv']]
    news = [('tv', True), ('TV', True), ('print', True), ('all', True), ('ALL', True), (None, True), ('handheld', True), ('tv', False)]
    n = 0
    bad = []
    for kinds in lists:
        for newtype, wf in news:
            logged = []
            sq = mk(kinds)
            me = _with_init(chk, m, Record(_seq=sq, _checkReadonly=lambda: None, _log=Record(info=lambda *a, **k: logged.append(('info', k.get('error'))), error=lambda *a, **k: logged.append(('error', k.get('error'))))))
            me._clearSeq = lambda sq=sq: sq.clear()
            new = MQ(mediaType=newtype, mediaText=f'{newtype or ""} and (monochrome)', wellformed=wf, tag='NEW')
            intr = {'normalize': lambda x: x.lower() if x else x, 'MediaQuery': MQ, 'xml': Record(dom=Record(InvalidModificationErr='InvalidModificationErr', NotFoundErr='NotFoundErr')),
                    'self._log.info': me._log.info, 'self._log.error': me._log.error}
            res = Evaluator(m.get('MediaList.appendMedium'), intrinsics=intr, model_types=(SeqM,), module=m, cls='MediaList').run(self=me, newMedium=new)
            n += 1
            before = tags(mk(kinds))
            types = [(k or '').lower() for k in kinds if k != 'c']
            nt = (newtype or '').lower()
            if not wf:
                want = before
            elif 'all' in types:
                want = before
            elif nt and nt in types:
                i = [j for j, k in enumerate(kinds) if k != 'c' and (k or '').lower() == nt][0]
                want = before[:i] + before[i + 1:] + ['NEW']
            elif nt == 'all':
                want = ['NEW']
            else:
                want = before + ['NEW']
            got = tags(sq) if not isinstance(res, Raised) else repr(res)
            if got != want or sq._readonly is not True:
                bad.append(f'appendMedium({newtype!r}) to {kinds}: {got}, prescribed {want}' + ('' if sq._readonly is True else '; the item list is left writable'))
    for kinds in lists:
        for old in ('tv', 'TV', 'print', 'all', 'absent'):
            logged = []
            sq = mk(kinds)
            me = _with_init(chk, m, Record(_seq=sq, _checkReadonly=lambda: None, _log=Record(error=lambda *a, **k: logged.append(k.get('error')))))
            intr = {'normalize': lambda x: x.lower() if x else x, 'MediaQuery': MQ, 'xml': Record(dom=Record(NotFoundErr='NotFoundErr')), 'self._log.error': me._log.error}
            res = Evaluator(m.get('MediaList.deleteMedium'), intrinsics=intr, model_types=(SeqM,), module=m, cls='MediaList').run(self=me, oldMedium=old)
            n += 1
            before = tags(mk(kinds))
            hits = [j for j, k in enumerate(kinds) if k != 'c' and (k or '').lower() == old.lower()]
            want = (before[:hits[0]] + before[hits[0] + 1:], []) if hits else (before, ['NotFoundErr'])
            got = (tags(sq), logged) if not isinstance(res, Raised) else repr(res)
            if got != want:
                bad.append(f'deleteMedium({old!r}) from {kinds}: {got}, prescribed {want}')
    chk.extra['media_edit_cases_evaluated'] = n
    chk.ob(rid, ML, 'MediaList.appendMedium', f"all {n} edit cases: nothing is added to a list that holds 'all'; a type already present moves to the end; appending 'all' clears the list; queries without a simple type never displace another; deleteMedium removes the first query of the (normalised) type and reports NotFoundErr otherwise (by evaluation, through the class's own __iter__/__delitem__)", not bad, f'{len(bad)} cases differ, e.g. ' + '; '.join(bad[:2]))

    # -- no hidden state: after any short history of edits the list behaves like a fresh list with the same items
    import itertools

    def receiver(sq):
        logged = []
        me = _with_init(chk, m, Record(_seq=sq, _checkReadonly=lambda: None, _log=Record(info=lambda *a, **k: logged.append(('info', k.get('error'))), error=lambda *a, **k: logged.append(('error', k.get('error'))))))
        me._clearSeq = lambda sq=sq: sq.clear()
        me.logged = logged
        return me

    def apply(me, op):
        kind, arg = op
        intr = {'normalize': lambda x: x.lower() if x else x, 'MediaQuery': MQ, 'xml': Record(dom=Record(InvalidModificationErr='InvalidModificationErr', NotFoundErr='NotFoundErr')),
                'self._log.info': me._log.info, 'self._log.error': me._log.error}
        if kind == 'append':
            return Evaluator(m.get('MediaList.appendMedium'), intrinsics=intr, model_types=(SeqM,), module=m, cls='MediaList').run(self=me, newMedium=MQ(mediaType=arg, mediaText=arg, wellformed=True, tag=f'+{arg}'))
        if kind == 'delete':
            return Evaluator(m.get('MediaList.deleteMedium'), intrinsics=intr, model_types=(SeqM,), module=m, cls='MediaList').run(self=me, oldMedium=arg)
        return Evaluator(m.get('MediaList.__setitem__'), intrinsics=intr, model_types=(SeqM,), module=m, cls='MediaList').run(self=me, index=0, newMedium=MQ(mediaType=arg, mediaText=arg, wellformed=True, tag=f'={arg}'))

    def clone(sq):
        c = SeqM()
        for it in sq:
            list.append(c, it)
        return c

    ops = [('append', 'tv'), ('append', 'all'), ('append', 'print'), ('delete', 'tv'), ('delete', 'all'), ('set0', 'print'), ('set0', 'all')]
    hn = 0
    hbad = []
    for kinds in ([], ['all'], ['tv'], ['tv', 'print']):
        for hist_ in itertools.product(ops, repeat=2):
            me = receiver(mk(kinds))
            broken = False
            for op in hist_:
                r = apply(me, op)
                if isinstance(r, Raised) and op[0] == 'set0' and not len(me._seq):
                    broken = True  # item assignment on an empty list: IndexError, nothing to compare
                    break
            if broken:
                continue
            fresh = receiver(clone(me._seq))
            for probe in ops:
                a, b = receiver(clone(me._seq)), receiver(clone(fresh._seq))
                # the object with the history keeps whatever private state the history left; the fresh one has none
                for k, v in vars(me).items():
                    if k not in ('_seq', '_log', '_clearSeq', 'logged', '_checkReadonly'):
                        setattr(a, k, v)
                ra, rb = apply(a, probe), apply(b, probe)
                hn += 1
                if (repr(ra), tags(a._seq), a.logged) != (repr(rb), tags(b._seq), b.logged):
                    hbad.append(f'{kinds} after {list(hist_)}: {probe} gives {ra!r} {tags(a._seq)}, on a fresh list with the same items {rb!r} {tags(b._seq)}')
    chk.extra['media_history_probes'] = hn
    chk.ob(rid, ML, 'MediaList', f'all {hn} probes: after any two edits (append, delete, item assignment - accepted or refused) a further edit behaves as on a fresh list with the same items', not hbad,
           f'{len(hbad)} differ, e.g. ' + ' | '.join(hbad[:2]) + ' - the list keeps state besides its items (a cache that an edit path does not refresh)')


def r17f(chk, rid='R17.f'):
    chk.rule(rid, 'what the grammar accepted is what is stored, decided by evaluation: MediaQuery._setMediaText after the production parse (the parse result is supplied by the model: media type, "and", several feature expressions - two of them with the same feature name and different values - and a comment) commits exactly that sequence: every item, in order; item assignment on a MediaList (__setitem__, through the class\'s own index mapping) replaces exactly the addressed query for every index, negative ones included, and changes neither length nor neighbours')
    from sa.absint import Evaluator, Obj, Raised, Record

    m = chk.repo.mod(MQ)
    fn = m.get('MediaQuery._setMediaText')

    def it(t, v):
        return Record(type=t, value=v, line=1, col=1)

    parsed = [it('IDENT', 'screen'), it('IDENT', 'and'), it('CHAR', '('), it('IDENT', 'min-width'), it('CHAR', ':'), it('DIMENSION', '100px'), it('CHAR', ')'),
              it('COMMENT', '/*c*/'), it('IDENT', 'AND'), it('CHAR', '('), it('IDENT', 'MIN-WIDTH'), it('CHAR', ':'), it('DIMENSION', '20em'), it('CHAR', ')'),
              it('IDENT', 'and'), it('CHAR', '('), it('IDENT', 'color'), it('CHAR', ')'), it('IDENT', 'and'), it('CHAR', '('), it('IDENT', 'color'), it('CHAR', ':'), it('NUMBER', '8'), it('CHAR', ')')]

    class SeqM(list):
        def appendItem(self, item):
            list.append(self, item)

        def append(self, val, typ=None, line=None, col=None):
            list.append(self, Record(type=typ, value=val, line=line, col=col))

    committed = []
    me = Obj(_checkReadonly=lambda: None, _partof=False, MEDIA_TYPES=['all', 'screen', 'tv'], _wellformed=None, mediaType=None, _mediaType=None)
    me._setSeq = lambda sq: committed.append(list(sq))
    me._tempSeq = lambda *a, **k: SeqM()
    stub = lambda *a, **k: None  # noqa: E731
    intr = {'ProdParser().parse': lambda *a, **k: (True, SeqM(parsed), {'media_type': it('IDENT', 'screen'), 'not simple': it('IDENT', 'and')}, []), 'Sequence': stub, 'Choice': stub, 'Prod': stub,
            'PreDef': Record(char=stub, types=Record(IDENT='IDENT'), comment=stub), 'cssutils': Record(css=Record(value=Record(MediaQueryValueProd=stub))), 'normalize': lambda x: x.lower() if x else x}
    res = Evaluator(fn, intrinsics=intr, model_types=(SeqM,), module=m, cls='MediaQuery').run(self=me, mediaText='...')
    ok = not isinstance(res, Raised) and len(committed) == 1 and [(x.type, x.value) for x in committed[0]] == [(x.type, x.value) for x in parsed]
    chk.ob(rid, MQ, 'MediaQuery._setMediaText', 'the parsed sequence is committed item by item, repeated feature names included', ok,
           f'{res!r}; committed {[x.value for x in committed[0]] if committed else None}: a feature expression the source contained is gone after parsing' if not ok else '')
    # item assignment
    lm = chk.repo.mod(ML)
    si = lm.get('MediaList.__setitem__')

    class MQm(Record):
        pass

    class Seq2(list):
        _readonly = False

        def __setitem__(self, i, x):  # Seq.__setitem__ takes (val, typ, line, col)
            list.__setitem__(self, i, Record(value=x[0], type=x[1], line=x[2], col=x[3]) if isinstance(x, tuple) else x)

    bad = []
    n = 0
    for index in range(-4, 4):
        sq = Seq2([Record(type='COMMENT', value='c'), Record(type='MediaQuery', value=MQm(mediaType='tv', wellformed=True, tag='tv')), Record(type='MediaQuery', value=MQm(mediaType='print', wellformed=True, tag='print')),
                   Record(type='COMMENT', value='c2'), Record(type='MediaQuery', value=MQm(mediaType='tv', wellformed=True, tag='tv2'))])
        me = _with_init(chk, m, Record(_seq=sq, _checkReadonly=lambda: None))
        new = MQm(mediaType='tv', wellformed=True, tag='NEW')
        res = Evaluator(si, intrinsics={'MediaQuery': MQm}, model_types=(Seq2,), module=lm, cls='MediaList').run(self=me, index=index, newMedium=new)
        n += 1

        def tag(x):
            v = x[0] if isinstance(x, tuple) else x.value
            return getattr(v, 'tag', 'comment')

        tags = [tag(x) for x in sq]
        base = ['comment', 'tv', 'print', 'comment', 'tv2']
        qpos = [1, 2, 4]
        if -3 <= index < 3:
            want = list(base)
            want[qpos[index]] = 'NEW'
            ok = not isinstance(res, Raised) and tags == want
        else:
            ok = isinstance(res, Raised) and res.kind == 'IndexError' and tags == base
            want = 'IndexError, list unchanged'
        if not ok:
            bad.append(f'ml[{index}] = tv: {res!r}, items {tags}; prescribed {want}')
    chk.ob(rid, ML, 'MediaList.__setitem__', f'all {n} index values replace exactly the addressed query', not bad, ' | '.join(bad[:2]))
