"""CLI: ./check <ID> [--tier quick|thorough] [--replay file]"""
import argparse
import importlib
import os
import sys
import traceback

from . import core


_ST = None


def _st_job(mutant):
    pid, modname, base_keys = _ST
    mod = importlib.import_module(modname)
    ov = {}
    for c in mutant['changes']:
        src = ov.get(c['file'])
        if src is None:
            try:
                src = (core.REPO / c['file']).read_text()
            except OSError:
                return (mutant['name'], 'stale')
        if src.count(c['find']) != 1:
            return (mutant['name'], 'stale')
        ov[c['file']] = src.replace(c['find'], c['replace'])
    try:
        repo = core.Repo(overrides=ov)
    except core.AnalysisError:
        return (mutant['name'], 'stale')
    chk = core.Check(pid, 'quick', repo)
    try:
        mod.run(chk)
    except core.AnalysisError:
        pass
    new = {o['key'] for o in chk.obs if not o['ok']} - base_keys
    return (mutant['name'], 'reported' if new else 'MISSED')


def selftest(pid, mod, chk):
    """Thorough tier: replay, in memory, every recorded variant of the tree that
    this property's check is known to report (reverse of each repair, seeded
    changes) and insist that it is still reported - a rule that has silently
    stopped matching must not answer ok."""
    import json
    import multiprocessing as mp

    global _ST
    p = core.VERIF / 'selftest' / 'mutants.json'
    if not p.exists():
        raise core.AnalysisError('selftest/mutants.json is missing')
    mutants = [m for m in json.loads(p.read_text())['mutants'] if pid in m['expect']]
    base_keys = {o['key'] for o in chk.obs if not o['ok']}
    _ST = (pid, mod.__name__, base_keys)
    # the replay is bounded in time (VERIF_SELFTEST_BUDGET seconds, default 1200): on a small machine the variants that
    # were not reached are listed as not replayed - that is not a failure, the check of the tree itself is complete
    import time

    budget = float(os.environ.get('VERIF_SELFTEST_BUDGET', '1200') or 1200)
    t0 = time.time()
    res = []
    try:
        pool = mp.get_context('fork').Pool(min(16, max(1, len(mutants))))
        try:
            it = pool.imap_unordered(_st_job, mutants)
            for _ in mutants:
                try:
                    res.append(it.next(timeout=max(1.0, budget - (time.time() - t0))))
                except mp.TimeoutError:
                    break
        finally:
            pool.terminate()
            pool.join()
    except Exception:
        if not res:
            for m in mutants:
                if time.time() - t0 > budget:
                    break
                res.append(_st_job(m))
    done = {n for n, _ in res}
    skipped = [m['name'] for m in mutants if m['name'] not in done]
    missed = [n for n, r in res if r == 'MISSED']
    chk.extra['selftest'] = {'variants_replayed': len(res), 'reported': sum(1 for _, r in res if r == 'reported'), 'stale_context': [n for n, r in res if r == 'stale'], 'missed': missed, 'not_replayed_time_budget': skipped}
    print(f"selftest {pid}: {len(res)} recorded variants, {chk.extra['selftest']['reported']} reported, {len(chk.extra['selftest']['stale_context'])} stale, {len(missed)} missed" + (f', {len(skipped)} not replayed (time budget)' if skipped else ''))
    if missed:
        raise core.AnalysisError(f'self-test: variants that this check used to report are no longer reported: {missed}')


def run(pid, tier, replay=None):
    try:
        repo = core.Repo()
        mod = importlib.import_module(f'rules.{pid.lower()}')
        chk = core.Check(pid, tier, repo)
        mod.run(chk)
        chk.raise_deferred()
        if not chk.obs:
            raise core.AnalysisError('no obligation was generated')
        if tier == 'thorough' and not replay:
            selftest(pid, mod, chk)
        if replay:
            import json

            want = json.load(open(replay))['key']
            hits = [o for o in chk.obs if o['key'] == want]
            if not hits:
                print(f'replay: construct no longer present: {want}')
                return 0
            bad = [o for o in hits if not o['ok']]
            for o in bad:
                print(f"FINDING {o['rule']} {o['file']}:{o['where']}: {o['construct']} :: {o['detail']}")
                print(f'VIOLATION property={pid} replay={replay}')
            return 1 if bad else 0
        seed = int(os.environ.get('VERIF_SEED', '0') or 0)
        return core.finish(chk, seed)
    except core.AnalysisError as e:
        print(f'ANALYSIS-ERROR property={pid}: {e}')
        # obligations that were already decided as failing stand on their own:
        # report them (exit 1) instead of hiding them behind the analysis error
        try:
            if 'chk' in locals() and not replay:
                known = {k['key'] for k in core.load_known() if k['property'] == pid and k.get('status') == 'known'}
                if any((not o['ok']) and o['key'] not in known for o in chk.obs):
                    chk.extra['analysis_error'] = str(e)
                    return core.finish(chk, int(os.environ.get('VERIF_SEED', '0') or 0))
        except Exception:
            traceback.print_exc()
        return 2
    except Exception:
        print(f'ANALYSIS-ERROR property={pid}: internal error')
        traceback.print_exc()
        return 2


def main():
    ap = argparse.ArgumentParser()
    ap.add_argument('pid')
    ap.add_argument('--tier', default=os.environ.get('VERIF_TIER') or 'quick')
    ap.add_argument('--replay')
    a = ap.parse_args()
    sys.exit(run(a.pid.upper(), a.tier, a.replay))


if __name__ == '__main__':
    main()
