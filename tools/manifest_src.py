NOTES = ('Technique family: static analysis only. Every check parses /repo\'s working tree and decides '
         'structural rules (necessary conditions of the property); no check imports or runs cssutils. '
         'exit 0 ok / exit 1 VIOLATION / exit 2 ANALYSIS-ERROR (shape no longer analysable - never a silent pass).')
CHECKS = {
 'C05': {
  'technique': 'regex automata analysis (nullability, first sets, language equivalence, exponential ambiguity) of the tokenizer tables + CFG path rules on Tokenizer.tokenize',
  'text': 'Decides structural necessary conditions of the tokenizer property on every path / every string of the production languages: '
          'totality and progress (no nullable production, every code point covered, position advances once per token on all CFG paths), '
          'fast-path exclusivity, ordering beliefs of the production list, IDENT/FUNCTION guard, sibling-regex agreement (unicodesub vs {unicode}, letter macros), '
          'EOF/completion guards, and absence of exponentially ambiguous patterns. Does not decide value decoding or column arithmetic on concrete inputs.',
  'note': 'Trusts: re._parser\'s syntax tree equals what re compiles; Glushkov construction; known findings (exponential STRING/URI patterns) are listed in known_findings.json.',
 },
}
CHECKS['C01'] = {
  'technique': 'CFG must-pass-through + callback return-state analysis + regex ambiguity automata + evaluation-count dataflow on the serializer cycle',
  'text': 'Decides necessary conditions of "never raises, never hangs" that are visible on every path: DOM work only inside the log-mode window (R01.a), every production callback returns a parser state on all paths (R01.b), tokenizer totality/progress (R01.c), no exponentially ambiguous token/helper pattern (R01.d; validation patterns in the thorough tier), at most one evaluation of a child text per serializer path (R01.e), token-value helpers only on typed tokens (R01.f). Does not decide absence of data-dependent exceptions, recursion depth or cyclic @import.',
  'note': 'Name-based call resolution (self.X, nested defs, New.productions); known findings: exponential STRING/URI token patterns (known_findings.json).',
}
CHECKS['C09'] = {
  'technique': 'who-may-write query on rule lists + extraction of the insertRule position tables against the rank order + CFG pairing of insertion and parent link (with exceptional edges from the may-raise summaries)',
  'text': 'Treats the ordering clause as an inductive invariant and decides its static obligations: the set of writers of a rule list is closed (R09.a), each per-kind position scan of insertRule covers all lower/higher ranks and ordered-add scans stop only at safe kinds (R09.b), parse-time levels equal the ranks (R09.c), the parent link is set on exactly the paths that insert, deletions detach, setters adopt (R09.d), nested lists deny the document-level kinds before inserting (R09.e). Does not decide arbitrary histories beyond this induction (e.g. namespace write-through) nor serialise/reparse.',
  'note': 'Table extraction is shape dependent (if/elif chain on rule.type, for-loops over self._cssRules slices): a rewrite gives ANALYSIS-ERROR, not a verdict. May-raise summaries are name-resolved over-approximations; one exemption (_updateVariables) is listed with its reason.',
}
CHECKS['C12'] = {
  'technique': 'CFG acquire/release pairing with exceptional edges (error mode, serializer swap, _level), reaching-definition query on the restored value, who-may-write inventory of process-wide state, scratch-state reset inclusion',
  'text': 'Decides the structural half of "no hidden state": every switch of the global error mode / global serializer is undone on all exits and restores a value read in the same call (R12.a/b); the writers of each process-wide object named in the property are exactly the sanctioned ones (R12.c); scratch state written during a production parse is reset where a parse starts (R12.d); serializer instance counters are balanced (R12.e). Does not decide independence from arbitrary earlier call sequences.',
  'note': 'Any statement containing a call is treated as may-raise for the pairing rules. Known finding: experimental indentSpecificities state.',
}

def _c(pid, technique, text, note):
    CHECKS[pid] = {'technique': technique, 'text': text, 'note': note}

_c('C02', 'taint-style dataflow (raw token text vs normalised) over all comparisons with keyword literals; purity summaries of the validators; evaluation of type-test conditions for every produced item type',
   'Decides: case-insensitive keywords are compared in normalised form everywhere (R02.a); validation writes nothing and the validating flag guards only reporting (R02.b); the comment switch only filters yields (R02.c); every namespaced item type is accepted by its consumers (R02.d). Does not decide equality of the DOM with the denoted structure over the input space.',
   'Raw/normalised tagging is flow-insensitive per function; one exemption (MS progid token) with its reason.')
_c('C04', 'callback resolution + CFG post-dominance + extraction of the bracket-counting table and its sibling (start token) block',
   'Decides: error callbacks hand the offending token to the bracket counter (R04.a); statement callbacks consume on every path with the default terminators and insert only well-formed rules (R04.b); end-of-input completion only in full-sheet mode with one EOF (R04.c); _tokensupto2 counts exactly the six brackets + FUNCTION, identically for the start token, and stops only at zero (R04.d). Does not decide DOM equality with the undamaged sheet.',
   'Shape dependent on the if/elif counting chain; rewrites give ANALYSIS-ERROR.')
_c('C10', 'exhaustive evaluation of the two name converters over all property-table keys; key-discipline dataflow on the variables block; CFG dominance for parent links; path-sensitive co-written-field analysis',
   'Decides: DOM-name round trip for every known property (R10.a, exhaustive); _vars/seq key discipline and joint update (R10.b); single enumerator and cascade pick (R10.c); update targets the effective entry, remove reads before deleting (R10.d); properties get their parent before entering a block (R10.e); priority/name fields are written together (R10.f). Does not decide the multimap model over arbitrary histories.',
   'The converter replacement functions are matched by shape, then simulated with the patterns read from the source.')
_c('C11', 'may-raise-DOM and writes-self summaries to a fixpoint over a name-resolved call graph, one level of argument-sensitive pruning, CFG reachability write -> raise -> exceptional exit',
   'Decides the commit-last discipline for every public mutator (>= 90 functions): no statement that can raise a DOM exception is reachable after a write rooted at the receiver (or at an object it holds) unless caught locally or overwritten (R11.a); read-only guard before the first write and the flag stored by every constructor (R11.b). Candidates were triaged by witness: genuine ones fixed or listed as known findings, infeasible ones exempted by (function, callee) with a reason. Does not decide "observably unchanged" as a statement about serialisations.',
   'Over-approximating may-raise summaries; exemption table in rules/c11.py; two unconfirmed candidates (_cleanNamespaces) exempted and recorded in DESIGN.md.')
_c('C13', 'purity summaries, macro-table closure/acyclicity under both expansion orders, finite-language extraction from regex automata compared with the CSS 2.1 keyword lists, unit membership on automata',
   'Decides: validators are pure and only report with neverraise (R13.a/b); all 148 patterns expand and compile under bulk registration and re-expansion, identically (R13.c); 29 CSS 2.1 keyword-list properties accept exactly their keyword lists, unit macros exactly the CSS 2.1 units, unknown names rejected first (R13.d); conjunction upwards covers all declarations and all rule kinds (R13.e); properties know their block (R13.g). Thorough: no exponentially ambiguous validation pattern. Does not decide numeric grammars or spelling invariance of verdicts.',
   'Oracle keyword lists typed from CSS 2.1 (run-in accepted as optional for display).')
_c('C14', 'CFG must-pass-through (refresh after table write, lookup before delete) + shape rules on the macro environment reset + shared macro-table checks',
   'Decides: every table write is followed by the known-name refresh (R14.a); removeProfile fails before deleting (R14.b); every branch that removes raw profiles recomputes the macro environment (R14.c); default-profile restriction cannot change validity (R14.d); macro tables closed/acyclic (R14.e); no verdict cache (R14.f). Does not decide verdict restoration over arbitrary histories.',
   'Several obligations are source-shape matches of small functions; a rewrite yields a failing obligation that has to be re-read, see DESIGN.md risks.')
_c('C15', 'index-space taint (enumerate over filtered views), CFG dominance of the in-use guard, Item-comparison lint, state-free view check',
   'Decides: positions among filtered items never index another sequence (R15.a); the in-use test dominates namespace deletion (R15.b); Seq items are compared through .type/.value (R15.c); the namespace mapping keeps no state (R15.d); namespaced item types agree between producers and consumers (R15.e); parent links on insert (R15.f). Does not decide reachable namespace states or meaning preservation.',
   '')
_c('C16', 'table extraction from New.append, three-valued evaluation of type conditions, commit-block dominance',
   'Decides: the specificity table equals (id; class, attribute; type, :not(type), pseudo-element) in root and :not() context (R16.a); item-type vocabulary agreement (R16.b); commit only when well-formed + all handlers return states (R16.c); list de-duplication / all-or-nothing / NamespaceErr path (R16.d). Does not decide counts for generated selectors.',
   '')
_c('C17', 'container-protocol coherence fixpoint over the class hierarchy, index-space rule, shape rules for canonicalisation branches',
   'Decides: length/indexing/deletion/iteration of a filtering list class use one view (R17.a); parse-time and edit-time canonicalisation both handle all/duplicates, absent deletion rejected, empty list = all (R17.b); media query keyword predicates normalised, hand-back flag present, ten media types (R17.c); hand-back channel reset (R17.d). Does not decide canonicalisation over histories.',
   '')

_c('C03', 'reader/writer table agreement on exact character sets from the regex syntax trees; producer/consumer kind tables',
   'Decides: every character the STRING token refuses raw is escaped by helper.string and every emitted escape is readable (R03.a); every character url(...) refuses unquoted triggers quoting (R03.b); every token kind that can carry non-ASCII text is decoded by the tokenizer, STRING/URI are re-escaped, the decode-only set does not grow (R03.c); every serializer entry point used by the DOM exists (R03.d); namespaced item types agree (R03.e). Does not decide equivalence of the reparsed DOM or byte-identical second serialisation.',
   'Three known findings (backslash in strings, ATKEYWORD not decoded, identifier escapes not re-encoded).')
_c('C06', 'set comparison of four extracted preference vocabularies; control-dependence lint for layout preferences; shared guards of the number formatter and hash shortening',
   'Decides: documented = defaults, minified ⊆ defaults, reads ⊆ defaults, no dead preference (R06.a); branches on pure layout preferences cannot drop or select content (R06.b); namespace filter sees every namespaced item type (R06.c); leading-zero omission only for |v| < 1 under the preference, integers never through %f (R06.d); hash shortening lossless, decided by evaluation (R06.e). Does not decide reparse equivalence under the 2^24 combinations.',
   '')
_c('C07', 'complete evaluation of loop-free decision procedures over the finite quotient their own comparisons induce (abstract interpretation with an exact domain), CFG rules for buffering',
   'Decides detectencoding_str on its whole input space (11 byte classes, lengths 0-4, final, @charset tails incl. name lengths around every integer constant: ~32k abstract inputs) against a CSS 2.1 section 4.4 oracle (R07.a); detectencoding_unicode/_fixencoding over all prefix relations (R07.b); buffer-until-decided and "undecided always buffers" on the CFG of the incremental/stream classes (R07.c); str/bytes kind of buffers and flushes (R07.d). Does not decide the round trip over all encodings.',
   'The evaluator interprets the syntax tree itself (closed node set, AnalysisError otherwise); codec.chars is replaced by an equivalent after a shape check. The library is never imported.')
_c('C08', 'complete evaluation of _readUrl over its finite input quotient; dataflow on the hand-over call; who-encodes-how lint; shape rules on the encoding mirror',
   'Decides the precedence ladder for all 128 source combinations (R08.a); the override/new-encoding hand-over to imported sheets and their storage before parsing (R08.b); every encode in the serializer uses the registered escapecss handler, which resumes at e.end with one escape per character (R08.c); the encoding attribute only goes through rule 0 (R08.d). Does not decide decodability for all characters.',
   '')
_c('C18', 'evaluation of _hash on its syntax tree; unit-set inclusion; table consistency; control-dependence guards of the number formatter; shared string/url tables',
   'Decides: hash shortening exactly #aabbcc -> #abc under the preference (R18.a); unit dropped only for zero lengths (R18.b); colour table internally consistent and CSS 2.1 colours correct (R18.c); leading-zero stripping guarded by |v|<1, integers via int() (R18.d); string / url content tables (R18.e/f). Declines number formatting arithmetic, colour-space conversion (e.g. hue wrapping) - runtime values.',
   'Known finding shared with C03 (backslash in strings).')
_c('C19', 'store-shape lint, kind-set inclusion between two modules, enumeration agreement, fall-back pairing',
   'Decides: every store in replaceUrls is X.a = replacer(X.a) (R19.a); combinable kinds ⊆ kinds @media accepts (R19.b); getUrls and replaceUrls share one enumeration that visits own style and nested rules and all properties (R19.c); Replacer keeps absolute URLs and takes the base from the path component (R19.d); the three fall-backs keep the @import rule (R19.e). Declines path arithmetic, cascade order and fetch counts.',
   'Several obligations are shape matches on small functions.')
_c('C20', 'complete evaluation of getEncodingInfo / _getTextTypeByMediaType / encodingByMediaType on their syntax trees over the finite table of source combinations; CFG pairing for the stream position',
   'Decides the precedence chain, the mismatch flag and which sniffers are consulted for all 304 rows (7 media classes x transport x XML x meta) (R20.a); media-type classification of 20 representatives incl. +xml subtypes and default table (R20.b); lower-casing of every source (R20.c); BOM before declaration before default, stream position restored on every return, str and bytes wrapped (R20.d). Does not decide the sniffers on arbitrary documents.',
   'Extractor functions are replaced by scenario values inside the evaluator; re.match on the two media-type patterns is executed on the representative strings.')

NOT_APPLICABLE = {}
