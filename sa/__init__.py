"""Static-analysis engines for the cssutils property checks (stdlib only)."""
