"""E3 - class table, call resolution and may-raise-DOM summaries.

A *site* is a construct that can raise a DOM exception when the library is in
raising mode: ``raise xml.dom.*``; a call of the error handler without
``neverraise=True`` (``_ErrorHandler.__handle`` raises for every level when
``raiseExceptions`` is on); ``self._checkReadonly()``; a call / attribute store
that resolves to a function with such a site (to a fixpoint).  Sites enclosed in
a ``try`` whose handler catches DOM exceptions and does not re-raise are not
propagated.
"""
from __future__ import annotations

import ast
import re

from sa.cfg import node_exprs, walk_expr
from sa.core import AnalysisError, call_name, dotted, kw, const, text, walk_local

LOG_METHODS = {'error', 'warn', 'warning', 'info', 'debug', 'critical', 'fatal'}
SKIP_MODULES = ('cssutils/sac.py', 'cssutils/css/cssvalue.py', 'cssutils/css2productions.py', 'conftest.py')
# attribute-call names never resolved by name (container / string API)
GENERIC = {
    'append', 'insert', 'extend', 'pop', 'get', 'items', 'keys', 'values', 'update', 'clear', 'replace', 'strip',
    'lower', 'upper', 'startswith', 'endswith', 'join', 'split', 'find', 'count', 'index', 'format', 'copy', 'sort',
    'remove', 'encode', 'decode', 'read', 'write', 'match', 'search', 'sub', 'group', 'end', 'start', 'add',
    'setdefault', 'lstrip', 'rstrip', 'close', 'tell', 'seek', 'rfind', 'reverse', 'splitlines', 'isspace', 'groupdict',
    '__iter__', '__setattr__', '__getattribute__', 'item', 'appendItem', 'appendToVal', 'rulesOfType',
}


class ClassInfo:
    def __init__(self, rel, node):
        self.rel = rel
        self.node = node
        self.name = node.name
        self.bases = [dotted(b).split('.')[-1] for b in node.bases if dotted(b)]
        self.methods = {}
        self.setters = {}  # attr -> FunctionDef | Lambda
        self.getters = {}
        for st in node.body:
            if isinstance(st, ast.FunctionDef):
                deco = [text(d) for d in st.decorator_list]
                if any(d.endswith('.setter') for d in deco):
                    self.setters[st.name] = st
                elif 'property' in deco:
                    self.getters[st.name] = st
                else:
                    self.methods[st.name] = st
        for st in node.body:
            if isinstance(st, ast.Assign) and isinstance(st.value, ast.Call) and call_name(st.value) == 'property':
                c = st.value
                fget = c.args[0] if len(c.args) > 0 else kw(c, 'fget')
                fset = c.args[1] if len(c.args) > 1 else kw(c, 'fset')
                for t in st.targets:
                    if isinstance(t, ast.Name):
                        for slot, f in ((self.getters, fget), (self.setters, fset)):
                            if isinstance(f, ast.Name) and f.id in self.methods:
                                slot[t.id] = self.methods[f.id]
                            elif isinstance(f, ast.Lambda):
                                slot[t.id] = f

    def mangled(self, name):
        if name.startswith('__') and not name.endswith('__'):
            return f'_{self.name.lstrip("_")}{name}'
        return name


class Effects:
    _cache = {}

    @classmethod
    def get(cls, repo):
        key = id(repo)
        if key not in cls._cache:
            cls._cache[key] = Effects(repo)
        return cls._cache[key]

    def __init__(self, repo):
        self.repo = repo
        self.classes = {}  # name -> [ClassInfo]
        self.fn_key = {}  # id(FunctionDef/Lambda) -> (rel, qual)
        self.fn_node = {}  # key -> node
        self.fn_class = {}  # key -> ClassInfo | None (class of the outermost method)
        self.by_method = {}  # method name -> [key]
        self.by_setter = {}
        self.module_funcs = {}  # name -> [key]
        for rel, m in repo.modules.items():
            if rel in SKIP_MODULES:
                continue
            for q, c in m.classes():
                if '.' in q:
                    continue
                self.classes.setdefault(c.name, []).append(ClassInfo(rel, c))
            for q, f in m.functions():
                key = (rel, q)
                self.fn_key[id(f)] = key
                self.fn_node[key] = f
                if '.' not in q:
                    self.module_funcs.setdefault(q, []).append(key)
        for name, infos in self.classes.items():
            for ci in infos:
                for mn, f in list(ci.methods.items()) + list(ci.getters.items()):
                    k = self.fn_key.get(id(f))
                    if k:
                        self.by_method.setdefault(mn, []).append(k)
                for an, f in ci.setters.items():
                    k = self.fn_key.get(id(f))
                    if k is None and isinstance(f, ast.Lambda):
                        continue
                    if k:
                        self.by_setter.setdefault(an, []).append(k)
        for key in self.fn_node:
            rel, q = key
            cname = q.split('.')[0]
            ci = None
            for c in self.classes.get(cname, []):
                if c.rel == rel:
                    ci = c
            self.fn_class[key] = ci
        self._sites = {}
        self._raises = {}
        self._compute()

    # -- lookup -----------------------------------------------------------
    def mro_lookup(self, ci, name, slot='methods', seen=None):
        seen = seen or set()
        if ci is None or ci.name in seen:
            return None
        seen.add(ci.name)
        table = getattr(ci, slot)
        if name in table:
            return table[name]
        if slot == 'methods' and name in ci.getters:
            return ci.getters[name]
        for b in ci.bases:
            for bi in self.classes.get(b, []):
                r = self.mro_lookup(bi, name, slot, seen)
                if r is not None:
                    return r
        return None

    def class_of(self, rel, qual):
        return self.fn_class.get((rel, qual))

    def resolve_call(self, rel, qual, call):
        """Callee keys of a call made inside function (rel, qual)."""
        ci = self.fn_class.get((rel, qual))
        m = self.repo.mod(rel)
        f = call.func
        out = []
        if isinstance(f, ast.Name):
            # nested def in an enclosing function
            parts = qual.split('.')
            for i in range(len(parts), 0, -1):
                k = (rel, '.'.join(parts[:i]) + '.' + f.id)
                if k in self.fn_node:
                    return [k]
            if (rel, f.id) in self.fn_node:
                return [(rel, f.id)]
            if f.id in self.classes:
                return self._ctor(f.id)
            return list(self.module_funcs.get(f.id, []))
        if isinstance(f, ast.Attribute):
            base = f.value
            name = f.attr
            if isinstance(base, ast.Name) and base.id == 'self' and name == '_parse':
                extra = [self.fn_key[id(cb.target)] for cb in self._parse_callbacks().get(id(call), []) if id(cb.target) in self.fn_key]
                t = self.mro_lookup(ci, name) if ci is not None else None
                if t is not None and id(t) in self.fn_key:
                    extra.append(self.fn_key[id(t)])
                # default productions (ATKEYWORD/COMMENT/S/EOF) may be used as well
                for k, f in self.fn_node.items():
                    if k[1].endswith('_adddefaultproductions.ATKEYWORD') or k[1].endswith('_adddefaultproductions.COMMENT') or k[1].endswith('_adddefaultproductions.S'):
                        extra.append(k)
                return extra
            if isinstance(base, ast.Name) and base.id == 'self' and ci is not None:
                t = self.mro_lookup(ci, name) or self.mro_lookup(ci, ci.mangled(name))
                if t is None and name.startswith('__'):
                    t = self.mro_lookup(ci, name[2:])
                if t is not None and id(t) in self.fn_key:
                    return [self.fn_key[id(t)]]
                return []
            if isinstance(base, ast.Call) and call_name(base) == 'super' and ci is not None:
                for b in ci.bases:
                    for bi in self.classes.get(b, []):
                        t = self.mro_lookup(bi, name)
                        if t is not None and id(t) in self.fn_key:
                            return [self.fn_key[id(t)]]
                return []
            d = dotted(f)
            if d.startswith(('cssutils.css.', 'cssutils.stylesheets.', 'css.', 'stylesheets.')) and name in self.classes:
                return self._ctor(name)
            if d.startswith('cssutils.ser.'):
                for c in self.classes.get('CSSSerializer', []):
                    t = c.methods.get(name)
                    if t is not None:
                        return [self.fn_key[id(t)]]
                return []
            if d.startswith(('cssutils.util.', 'cssutils.helper.', 'cssutils.codec.', 'codec.', 'helper.', 'util.')):
                return list(self.module_funcs.get(name, []))
            if name in GENERIC or name in LOG_METHODS:
                return []
            return list(self.by_method.get(name, []))
        return out

    def _parse_callbacks(self):
        if not hasattr(self, '_pcb'):
            from .callbacks import callbacks

            sites, cbs = callbacks(self.repo)
            by_owner = {}
            for cb in cbs:
                by_owner.setdefault((cb.rel, cb.owner), []).append(cb)
            self._pcb = {}
            for m, fn, q, cls, call in sites:
                lst = list(by_owner.get((m.rel, q), []))
                if any(cb.owner == 'New.productions' for cb in cbs) and 'new.productions' in text(call):
                    lst += by_owner.get((m.rel, 'New.productions'), [])
                self._pcb[id(call)] = lst
        return self._pcb

    def _ctor(self, cname):
        out = []
        for ci in self.classes.get(cname, []):
            t = self.mro_lookup(ci, '__init__')
            if t is not None and id(t) in self.fn_key:
                out.append(self.fn_key[id(t)])
        return out

    def resolve_store(self, rel, qual, target, delete=False):
        """Setter keys of an attribute store ``obj.attr = ...`` (or of an item
        store / delete on ``self``)."""
        if isinstance(target, ast.Subscript) and isinstance(target.value, ast.Name) and target.value.id == 'self':
            ci = self.fn_class.get((rel, qual))
            t = self.mro_lookup(ci, '__delitem__' if delete else '__setitem__') if ci else None
            return [self.fn_key[id(t)]] if t is not None and id(t) in self.fn_key else []
        if not isinstance(target, ast.Attribute):
            return []
        ci = self.fn_class.get((rel, qual))
        if isinstance(target.value, ast.Name) and target.value.id == 'self' and ci is not None:
            t = self.mro_lookup(ci, target.attr, 'setters')
            if t is not None and id(t) in self.fn_key:
                return [self.fn_key[id(t)]]
            return []
        if target.attr.startswith('_'):
            return []
        return list(self.by_setter.get(target.attr, []))

    # -- sites ----------------------------------------------------------------
    @staticmethod
    def is_log_call(call):
        f = call.func
        if not (isinstance(f, ast.Attribute) and f.attr in LOG_METHODS):
            return False
        d = dotted(f)
        if not d:
            return False
        recv = d.rsplit('.', 1)[0]
        return recv == 'log' or recv.endswith('._log') or recv == 'cssutils.log' or recv == '_log'

    @staticmethod
    def log_raises(call):
        nr = kw(call, 'neverraise')
        return not (nr is not None and const(nr) is True)

    @staticmethod
    def _rhs_kind(fn, st):
        """'input' if the stored value is (part of) a parameter of the function -
        text handed in by the caller that the setter still has to validate -
        else 'derived'."""
        if not isinstance(st, ast.Assign) or isinstance(fn, ast.Lambda):
            return 'derived'
        params = {a.arg for a in fn.args.args + fn.args.kwonlyargs} - {'self'}
        v = st.value
        if isinstance(v, ast.Name) and v.id in params:
            return 'input'
        return 'derived'

    @staticmethod
    def _msg(call):
        """First string literal of a log call's message (identifies the site
        independently of local variable names)."""
        for a in call.args[:1]:
            for x in ast.walk(a):
                if isinstance(x, ast.Constant) and isinstance(x.value, str):
                    # the constant text up to the first placeholder: the same for '%s' % x,
                    # '{}'.format(x) and an f-string
                    head = re.split(r'%[srdif(]|\{[\w!:.]*\}', x.value)[0].rstrip(' :')
                    return repr(head[:48])
        return '...'

    @staticmethod
    def _canon(m, expr, callees):
        """Text of a call/store target with a local receiver replaced by the class
        of the resolved callee, so that descriptions (and the finding keys built
        from them) do not depend on the names of local variables."""
        root = expr
        while isinstance(root, (ast.Attribute, ast.Subscript, ast.Call)):
            root = root.value if not isinstance(root, ast.Call) else root.func
        t = text(expr)
        if not isinstance(root, ast.Name) or root.id in ('self', 'cls', 'super') or not isinstance(expr, ast.Attribute):
            return t
        if root.id in m.toplevel_names():
            return t
        owners = sorted({cq.split('.')[0] for _, cq in callees if '.' in cq})
        if not owners:
            return t
        return '<' + '|'.join(owners) + '>' + t[len(root.id):]

    @staticmethod
    def is_dom_raise(st):
        if not isinstance(st, ast.Raise) or st.exc is None:
            return False
        t = text(st.exc)
        return 'xml.dom.' in t

    def _direct_sites(self, key):
        """[(node, description, callee keys or None)] for constructs inside the
        function itself (nested defs excluded)."""
        rel, q = key
        fn = self.fn_node[key]
        m = self.repo.mod(rel)
        sites = []
        for n in walk_local(fn, include_lambda=False):
            if isinstance(n, ast.Raise) and self.is_dom_raise(n):
                sites.append((n, 'raise ' + text(n.exc)[:60], None))
            elif isinstance(n, ast.Call):
                if self.is_log_call(n):
                    if self.log_raises(n):
                        sites.append((n, text(n.func) + '(' + self._msg(n) + ')', None))
                elif call_name(n) == 'self._checkReadonly':
                    sites.append((n, 'self._checkReadonly()', None))
                else:
                    callees = self.resolve_call(rel, q, n)
                    if callees:
                        sites.append((n, self._canon(m, n.func, callees) + '(...)', callees))
            elif isinstance(n, (ast.Assign, ast.AugAssign, ast.Delete)):
                tgts = n.targets if not isinstance(n, ast.AugAssign) else [n.target]
                for t in tgts:
                    for x in [t] + (list(t.elts) if isinstance(t, (ast.Tuple, ast.List)) else []):
                        callees = self.resolve_store(rel, q, x, delete=isinstance(n, ast.Delete))
                        if callees:
                            if isinstance(x, ast.Subscript):
                                sites.append((x, ('del ' if isinstance(n, ast.Delete) else '') + 'self[...]' + ('' if isinstance(n, ast.Delete) else ' = ...'), callees))
                            else:
                                sites.append((x, f'{self._canon(m, x, callees)} = <{self._rhs_kind(fn, n)}> (setter)', callees))
        # drop sites protected by a try that catches DOM exceptions
        out = []
        for node, desc, callees in sites:
            if not self._caught(m, fn, node):
                out.append((node, desc, callees))
        return out

    @staticmethod
    def _handler_catches_dom(h):
        if h.type is None:
            return True
        names = [text(h.type)] if not isinstance(h.type, ast.Tuple) else [text(e) for e in h.type.elts]
        for t in names:
            if t in ('Exception', 'BaseException', 'xml.dom.DOMException') or t.startswith('xml.dom.'):
                return True
        return False

    def _caught(self, m, fn, node):
        child = node
        n = m.parents.get(node)
        while n is not None and n is not fn:
            if isinstance(n, ast.Try) and child in n.body:
                for h in n.handlers:
                    if self._handler_catches_dom(h):
                        # re-raising handlers do not protect
                        if not any(isinstance(x, ast.Raise) for x in ast.walk(h)):
                            return True
            child = n
            n = m.parents.get(n)
        return False

    def _compute(self):
        direct = {k: self._direct_sites(k) for k in self.fn_node}
        raises = {k: any(c is None for _, _, c in v) for k, v in direct.items()}
        # 'hard' = can raise something other than the read-only guard
        hard = {k: any(c is None and d != 'self._checkReadonly()' for _, d, c in v) for k, v in direct.items()}
        changed = True
        rounds = 0
        while changed:
            changed = False
            rounds += 1
            for k, v in direct.items():
                for _, _, callees in v:
                    if not callees:
                        continue
                    if not raises[k] and any(raises.get(c) for c in callees):
                        raises[k] = True
                        changed = True
                    if not hard[k] and any(hard.get(c) for c in callees):
                        hard[k] = True
                        changed = True
        self._raises = raises
        self._hard = hard
        self._sites = {}
        for k, v in direct.items():
            self._sites[k] = [(n, d, c) for n, d, c in v if c is None or any(raises.get(x) for x in c)]
        self.rounds = rounds

    # -- writes ---------------------------------------------------------------
    SELF_MUTATORS = {'append', 'insert', 'extend', 'pop', 'remove', 'clear', 'update', 'sort', 'reverse', 'replace', 'appendItem', 'appendToVal', 'rstrip', 'setdefault', '__delitem__', '__setitem__'}

    @staticmethod
    def self_attr(node):
        """`self.a` / `self.a.b` ... -> 'a' (first attribute after self), else None"""
        n = node
        first = None
        while isinstance(n, (ast.Attribute, ast.Subscript)):
            if isinstance(n, ast.Attribute):
                first = n.attr
            n = n.value
        if isinstance(n, ast.Name) and n.id == 'self':
            return first
        return None

    def direct_writes(self, key):
        """[(node, attr)] - stores / in-place mutations rooted at self inside the
        function (nested defs excluded)."""
        fn = self.fn_node[key]
        out = []
        for n in walk_local(fn, include_lambda=False):
            if isinstance(n, (ast.Assign, ast.AugAssign, ast.Delete)):
                tgts = n.targets if not isinstance(n, ast.AugAssign) else [n.target]
                for t in tgts:
                    for x in [t] + (list(t.elts) if isinstance(t, (ast.Tuple, ast.List)) else []):
                        a = self.self_attr(x)
                        if isinstance(x, ast.Attribute) and x.attr == '_readonly':
                            continue  # guard flag of a Seq toggled around an internal write
                        if a is not None and isinstance(x, (ast.Attribute, ast.Subscript)):
                            out.append((n, a))
            elif isinstance(n, ast.Call) and isinstance(n.func, ast.Attribute) and n.func.attr in self.SELF_MUTATORS:
                a = self.self_attr(n.func.value)
                if a is not None:
                    out.append((n, a))
        return out

    def same_receiver(self, caller, callee):
        """Is `self` of the callee the caller's receiver?  True for methods of
        the caller's class hierarchy and for closures nested in its methods;
        False for helper objects (selector.New) reached through callbacks."""
        a = self.fn_class.get(caller)
        b = self.fn_class.get(callee)
        if a is None or b is None:
            return a is b
        if a is b:
            return True
        seen, todo = set(), [a]
        while todo:
            c = todo.pop()
            if c.name in seen:
                continue
            seen.add(c.name)
            for bn in c.bases:
                todo.extend(self.classes.get(bn, []))
        return b.name in seen

    def compute_writes(self, scratch=()):
        """writes[key] = set of self attributes a function may write, through
        self-calls and setter stores on self, to a fixpoint."""
        w = {}
        calls = {}
        for key in self.fn_node:
            rel, q = key
            w[key] = {a for _, a in self.direct_writes(key) if a not in scratch}
            cs = []
            fn = self.fn_node[key]
            for n in walk_local(fn, include_lambda=False):
                if isinstance(n, ast.Call) and isinstance(n.func, ast.Attribute):
                    base = n.func.value
                    if (isinstance(base, ast.Name) and base.id == 'self') or (isinstance(base, ast.Call) and call_name(base) == 'super'):
                        cs.extend(c for c in self.resolve_call(rel, q, n) if self.same_receiver(key, c))
                elif isinstance(n, ast.Call) and isinstance(n.func, ast.Name):
                    # nested helper closures share `self`
                    for c in self.resolve_call(rel, q, n):
                        # (a call of the class by its name builds a fresh object: its constructor does not write the receiver)
                        if c[0] == rel and c[1].startswith(q.rsplit('.', 1)[0]) and c[1].count('.') >= 2:
                            cs.append(c)
                elif isinstance(n, (ast.Assign, ast.AugAssign, ast.Delete)):
                    for t in (n.targets if not isinstance(n, ast.AugAssign) else [n.target]):
                        if isinstance(t, (ast.Attribute, ast.Subscript)) and isinstance(t.value, ast.Name) and t.value.id == 'self':
                            cs.extend(self.resolve_store(rel, q, t, delete=isinstance(n, ast.Delete)))
            calls[key] = cs
        changed = True
        while changed:
            changed = False
            for key, cs in calls.items():
                for c in cs:
                    add = w.get(c, set()) - w[key]
                    if add:
                        w[key] |= add
                        changed = True
        self.writes = w
        self.self_calls = calls
        return w

    def may_raise(self, key):
        return self._raises.get(key, False)

    def site_is_hard(self, site):
        """Can this site raise anything but NoModificationAllowedErr from the
        read-only guard?"""
        node, desc, callees = site
        if callees is None:
            return desc != 'self._checkReadonly()'
        return any(self._hard.get(c) for c in callees)

    def node_hard_raise(self, rel, expr_or_stmt):
        return bool(self.hard_sites_at(rel, expr_or_stmt))

    def hard_sites_at(self, rel, expr_or_stmt):
        """Sites at this statement that can raise something other than the
        read-only guard, after pruning callee branches that the call's own
        arguments make dead (one level of context sensitivity)."""
        m = self.repo.mod(rel)
        fn = m.enclosing_def(expr_or_stmt)
        while isinstance(fn, ast.Lambda):
            fn = m.enclosing_def(fn)
        key = self.fn_key.get(id(fn))
        if key is None:
            return []
        by_id = {id(s[0]): s for s in self.sites(key) if self.site_is_hard(s)}
        out = []
        for x in walk_expr(expr_or_stmt):
            s = by_id.get(id(x))
            if s is None:
                continue
            node, desc, callees = s
            if callees is None:
                out.append(s)
                continue
            live = [c for c in callees if self._hard.get(c) and self._callee_live(m, fn, node, c)]
            if live:
                out.append(s)
        return out

    # -- one level of context sensitivity -----------------------------------
    def _arg_kinds(self, m, fn, node, callee_fn):
        """param name -> 'falsy' | 'object' for the parameters whose kind the
        call site fixes."""
        params = [a.arg for a in callee_fn.args.args]
        defaults = dict(zip(params[len(params) - len(callee_fn.args.defaults):], callee_fn.args.defaults))
        kinds = {}
        if isinstance(node, ast.Call):
            supplied = {}
            pos = params[1:] if params and params[0] == 'self' else params
            for p, a in zip(pos, node.args):
                supplied[p] = a
            for k in node.keywords:
                if k.arg:
                    supplied[k.arg] = k.value
            if any(k.arg is None for k in node.keywords) or any(isinstance(a, ast.Starred) for a in node.args):
                return {}
            for p in pos:
                if p in supplied:
                    kinds[p] = self._expr_kind(m, fn, supplied[p])
                elif p in defaults and isinstance(defaults[p], ast.Constant) and not defaults[p].value:
                    kinds[p] = 'falsy'
        elif isinstance(node, ast.Attribute):
            # setter store: obj.attr = value ; the value is the statement's RHS
            st = m.enclosing_stmt(node)
            if isinstance(st, ast.Assign) and len(params) >= 2:
                kinds[params[1]] = self._expr_kind(m, fn, st.value)
        return {p: k for p, k in kinds.items() if k}

    def _expr_kind(self, m, fn, e):
        if isinstance(e, ast.Constant):
            return 'falsy' if not e.value else ('str' if isinstance(e.value, str) else None)
        if isinstance(e, ast.Call):
            cn = call_name(e).split('.')[-1]
            if cn in self.classes:
                return 'object'
            return None
        if isinstance(e, ast.Name):
            kinds = set()
            for n in ast.walk(fn):
                if isinstance(n, ast.Assign) and m.enclosing_def(n) is fn:
                    for t in n.targets:
                        if isinstance(t, ast.Name) and t.id == e.id:
                            kinds.add(self._expr_kind(m, fn, n.value) if not isinstance(n.value, ast.Name) else None)
                elif isinstance(n, (ast.For, ast.With, ast.AugAssign)) and any(isinstance(x, ast.Name) and x.id == e.id and isinstance(x.ctx, ast.Store) for x in ast.walk(n.target if isinstance(n, (ast.For, ast.AugAssign)) else ast.Tuple(elts=[i.optional_vars for i in n.items if i.optional_vars], ctx=ast.Store()))):
                    kinds.add(None)
            if fn is not None and e.id in [a.arg for a in fn.args.args]:
                kinds.add(None)
            if len(kinds) == 1:
                return kinds.pop()
        return None

    def _callee_live(self, m, fn, node, callee):
        """Does the callee still have a hard raising site once branches that the
        call's arguments rule out are removed?"""
        cf = self.fn_node[callee]
        if isinstance(cf, ast.Lambda):
            return True
        kinds = self._arg_kinds(m, fn, node, cf)
        if not kinds:
            return True
        cm = self.repo.mod(callee[0])
        for site in self.sites(callee):
            if not self.site_is_hard(site):
                continue
            if self._site_dead(cm, cf, site[0], kinds):
                continue
            # nested: constructor/setter sites inside the callee get the same treatment
            snode, sdesc, scallees = site
            if scallees is not None and not any(self._hard.get(c) and self._callee_live(cm, cf, snode, c) for c in scallees):
                continue
            return True
        return False

    @staticmethod
    def _site_dead(cm, cf, node, kinds):
        child = node
        n = cm.parents.get(node)
        while n is not None and n is not cf:
            if isinstance(n, ast.If):
                in_body = child in n.body
                in_else = child in n.orelse
                t = n.test
                # if <param>:
                if isinstance(t, ast.Name) and t.id in kinds:
                    k = kinds[t.id]
                    if in_body and k == 'falsy':
                        return True
                    if in_else and k in ('object', 'str'):
                        return True
                # if <param> is not None:
                if isinstance(t, ast.Compare) and isinstance(t.left, ast.Name) and t.left.id in kinds and len(t.ops) == 1 and isinstance(t.comparators[0], ast.Constant) and t.comparators[0].value is None:
                    k = kinds[t.left.id]
                    if isinstance(t.ops[0], ast.IsNot) and in_body and k == 'falsy' :
                        pass  # '' is not None: cannot decide
                # if isinstance(<param>, str):
                if isinstance(t, ast.Call) and call_name(t) == 'isinstance' and len(t.args) == 2 and isinstance(t.args[0], ast.Name) and t.args[0].id in kinds and text(t.args[1]) == 'str':
                    k = kinds[t.args[0].id]
                    if in_body and k in ('object', 'falsy'):
                        return True
                    if in_else and k == 'str':
                        return True
            child = n
            n = cm.parents.get(n)
        return False

    def sites(self, key):
        return self._sites.get(key, [])

    def node_may_raise(self, rel, cls, expr_or_stmt, qual=None):
        """Does evaluating this statement/expression possibly raise a DOM
        exception?  (used as the CFG may_raise predicate; ``qual`` defaults to
        any function of the module that contains the node)"""
        m = self.repo.mod(rel)
        fn = m.enclosing_def(expr_or_stmt) if not isinstance(expr_or_stmt, (ast.FunctionDef,)) else expr_or_stmt
        # climb out of lambdas
        while isinstance(fn, ast.Lambda):
            fn = m.enclosing_def(fn)
        key = self.fn_key.get(id(fn))
        if key is None:
            return False
        site_nodes = {id(n) for n, _, _ in self.sites(key)}
        if not site_nodes:
            return False
        for x in walk_expr(expr_or_stmt):
            if id(x) in site_nodes:
                return True
        return False

    def site_desc(self, rel, expr_or_stmt):
        m = self.repo.mod(rel)
        fn = m.enclosing_def(expr_or_stmt)
        while isinstance(fn, ast.Lambda):
            fn = m.enclosing_def(fn)
        key = self.fn_key.get(id(fn))
        out = []
        if key:
            sn = {id(n): d for n, d, _ in self.sites(key)}
            for x in walk_expr(expr_or_stmt):
                if id(x) in sn:
                    out.append(sn[id(x)])
        return out


def explain(eff, key, hard=True, depth=0, seen=None):
    """One chain from a function to a direct raising site (for triage output)."""
    seen = seen or set()
    if key in seen or depth > 8:
        return ['...']
    seen.add(key)
    for site in eff.sites(key):
        node, desc, callees = site
        if callees is None and (not hard or desc != 'self._checkReadonly()'):
            return [f'{key[1]}: {desc}']
    for site in eff.sites(key):
        node, desc, callees = site
        if callees:
            for c in callees:
                if (eff._hard if hard else eff._raises).get(c):
                    return [f'{key[1]}: {desc}'] + explain(eff, c, hard, depth + 1, seen)
    return ['?']
