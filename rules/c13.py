"""C13 - validation verdict depends only on name, value, profiles; it only annotates."""
from __future__ import annotations

import ast

from sa import rx
from sa.core import AnalysisError, call_name, const, text, walk_local

from .effects import Effects
from .tables import ProfileTables

PROFILES = 'cssutils/profiles.py'
PROP = 'cssutils/css/property.py'


def run(chk):
    chk.attempt(r13a, chk)
    chk.attempt(r13b, chk)
    chk.attempt(r13c, chk)
    chk.attempt(r13d, chk)
    chk.attempt(r13e, chk)
    chk.attempt(r13k, chk)
    chk.attempt(r13l, chk)
    chk.attempt(r13m, chk)
    chk.attempt(r13n, chk)
    from .c10 import r10e

    chk.attempt(r10e, chk, 'R13.g')
    chk.attempt(r13h, chk)
    chk.attempt(r13j, chk)
    if chk.tier == 'thorough':
        chk.attempt(profile_eda, chk, 'R13.f')


VALIDATORS = [
    (PROP, 'Property.validate'),
    (PROP, 'Property._isValidating'),
    (PROFILES, 'Profiles.validate'),
    (PROFILES, 'Profiles.validateWithProfile'),
    (PROFILES, 'Profiles._getDefaultProfiles'),
    ('cssutils/css/cssstyledeclaration.py', 'CSSStyleDeclaration._getValid'),
    ('cssutils/css/cssstyledeclaration.py', 'CSSStyleDeclaration._getValidating'),
    ('cssutils/css/cssstylerule.py', 'CSSStyleRule._getValid'),
    ('cssutils/css/cssfontfacerule.py', 'CSSFontFaceRule._getValid'),
    ('cssutils/css/cssstylesheet.py', 'CSSStyleSheet._getValid'),
]
CUSTOM_VALIDATOR_SITE = "self._log.error(...)"  # `self._log.error(e, error=Exception)` in the except branch of a validator call


def r13a(chk, rid='R13.a'):
    chk.rule(rid, 'validators are pure: Property.validate, Profiles.validate/validateWithProfile and the `valid` getters write no attribute of their receiver (directly or through self-calls) and every report on their paths is made with neverraise=True (one exemption: the handler for a failing user-supplied validator function)')
    eff = Effects.get(chk.repo)
    if not hasattr(eff, 'writes'):
        eff.compute_writes(scratch={'_readonly', '_log'})
    for rel, q in VALIDATORS:
        key = (rel, q)
        if key not in eff.fn_node:
            raise AnalysisError(f'anchor vanished: {rel}:{q}')
        w = sorted(eff.writes.get(key, set()))
        chk.ob(rid, rel, q, 'writes nothing', not w, f'writes {w} of its receiver: the verdict (or the stored content) now depends on earlier validations')
        fn = eff.fn_node[key]
        for n in walk_local(fn):
            if isinstance(n, ast.Call) and Effects.is_log_call(n):
                if Effects.log_raises(n):
                    m = chk.repo.mod(rel)
                    in_handler = False
                    p = m.parents.get(n)
                    while p is not None and p is not fn:
                        if isinstance(p, ast.ExceptHandler):
                            in_handler = True
                        p = m.parents.get(p)
                    errkw = [k for k in n.keywords if k.arg == 'error' and text(k.value) == 'Exception']
                    ok = in_handler and bool(errkw)
                    chk.ob(rid, rel, q, f'`{text(n)[:70]}` cannot interrupt validation', ok,
                           'exempt: reports the failure of a user-supplied validator function (error=Exception inside the except branch)' if ok else
                           'a report without neverraise=True raises in raising mode: validation would reject content instead of annotating it', trivial=ok)
                else:
                    chk.ob(rid, rel, q, f'`{text(n)[:70]}` is made with neverraise=True', True)
    # the lazy regex wrapper only fills its own cache fields
    key = ('cssutils/util.py', 'LazyRegex.ensure')
    w = eff.writes.get(key, set())
    chk.ob(rid, key[0], key[1], 'fills only its own compiled-pattern slots', w <= {'matcher', 'flags', 'groups', 'groupindex'}, f'writes {sorted(w)}')


def r13b(chk, rid='R13.b'):
    chk.rule(rid, 'the validating flag guards only effect-free statements: every statement control-dependent on _isValidating() / .validating is a call of the (pure) validator, a neverraise report, or pass')
    n = 0
    for rel, m in chk.repo.modules.items():
        if not rel.startswith(('cssutils/css/', 'cssutils/stylesheets/')) or rel.endswith('cssvalue.py'):
            continue
        for q, fn in m.functions():
            if q.split('.')[-1] in ('_getValidating', '_isValidating', '_setValidating'):
                continue
            for x in walk_local(fn):
                if isinstance(x, ast.If) and ('_isValidating()' in text(x.test) or '.validating' in text(x.test)):
                    n += 1
                    bad = []
                    for st in x.body + x.orelse:
                        for s in ast.walk(st):
                            if isinstance(s, ast.stmt) and not isinstance(s, (ast.If, ast.Pass, ast.Expr)):
                                bad.append(text(s)[:50])
                            if isinstance(s, ast.Expr) and isinstance(s.value, ast.Call):
                                c = s.value
                                if call_name(c) == 'self.validate':
                                    continue
                                if Effects.is_log_call(c) and not Effects.log_raises(c):
                                    continue
                                bad.append(text(s)[:50])
                    chk.ob(rid, rel, q, f'`if {text(x.test)[:60]}` guards only validation/reporting', not bad,
                           'content-changing statements depend on the validation switch: ' + '; '.join(bad))
    if n < 2:
        raise AnalysisError(f'only {n} uses of the validating flag found (2 confirmed by hand)')


# ---------------------------------------------------------------------------


def envs(pt):
    """The macro environments the registry can be in for the built-in profiles:
    bulk registration, and re-expansion by _resetProperties."""
    bulk = pt.bulk_macros()
    reset = dict(pt.token_macros)
    reset.update(pt.general_macros)
    for prof, props, mac in pt.registration:
        reset.update(pt.macros[mac])
    return {'bulk (addProfiles)': bulk, 're-expansion (_resetProperties)': reset}


def expanded(pt, env):
    out = {}
    for prof, props, mac in pt.registration:
        for name, pat in pt.properties[props].items():
            if pat is None:
                continue
            out[(props, name)] = pt.expand(pat, env)
    return out


def r13c(chk, rid='R13.c'):
    chk.rule(rid, 'macro tables are closed and acyclic: under both expansion orders every {macro} used by a property pattern of the nine built-in profiles is defined, expansion terminates, and the expanded pattern compiles with the flags and wrapper _compile_regexes uses')
    pt = ProfileTables(chk.repo)
    chk.ob(rid, PROFILES, 'Profiles._compile_regexes', "patterns are anchored '^(?:...)$' and case-insensitive", pt.compile_wrap == '^(?:%s)$' and bool(pt.flags & 2), f'{pt.compile_wrap!r} flags={pt.flags}')
    n = 0
    seen_ok = {}
    for label, env in envs(pt).items():
        for prof, props, mac in pt.registration:
            for name, pat in pt.properties[props].items():
                if pat is None:
                    continue
                n += 1
                try:
                    full = pt.expand(pat, env)
                    if full not in seen_ok:
                        seen_ok[full] = rx.compiles(pt.compile_wrap % full, pt.flags)
                    ok, why = seen_ok[full]
                except KeyError as e:
                    ok, why = False, f'macro {e} is not defined in the {label} environment'
                except AnalysisError as e:
                    ok, why = False, str(e)
                chk.ob(rid, PROFILES, f'properties[{props}]', f'{name}: expands and compiles ({label})', ok, why)
    chk.require(rid, 290, 'profile patterns x environments')
    # the two environments agree (the verdict must not depend on how the registry was filled)
    e = envs(pt)
    a, b = expanded(pt, e['bulk (addProfiles)']), expanded(pt, e['re-expansion (_resetProperties)'])
    diff = [k for k in a if a[k] != b.get(k)]
    chk.ob(rid, PROFILES, 'Profiles', 'bulk registration and re-expansion give the same patterns', not diff, f'{len(diff)} patterns differ, e.g. {diff[:3]}')


ORACLE = {
    # CSS 2.1 property index; every list + inherit.  (required, optional)
    'background-attachment': ('scroll fixed', ''),
    'background-repeat': ('repeat repeat-x repeat-y no-repeat', ''),
    'border-collapse': ('collapse separate', ''),
    'caption-side': ('top bottom', ''),
    'clear': ('none left right both', ''),
    'direction': ('ltr rtl', ''),
    'display': ('inline block list-item inline-block table inline-table table-row-group table-header-group table-footer-group table-row table-column-group table-column table-cell table-caption none', 'run-in'),
    'empty-cells': ('show hide', ''),
    'float': ('left right none', ''),
    'font-style': ('normal italic oblique', ''),
    'font-variant': ('normal small-caps', ''),
    'font-weight': ('normal bold bolder lighter 100 200 300 400 500 600 700 800 900', ''),
    'list-style-position': ('inside outside', ''),
    'list-style-type': ('disc circle square decimal decimal-leading-zero lower-roman upper-roman lower-greek lower-latin upper-latin armenian georgian lower-alpha upper-alpha none', ''),
    'overflow': ('visible hidden scroll auto', ''),
    'page-break-after': ('auto always avoid left right', ''),
    'page-break-before': ('auto always avoid left right', ''),
    'page-break-inside': ('avoid auto', ''),
    'position': ('static relative absolute fixed', ''),
    'speak-header': ('once always', ''),
    'speak-numeral': ('digits continuous', ''),
    'speak-punctuation': ('code none', ''),
    'speak': ('normal none spell-out', ''),
    'table-layout': ('auto fixed', ''),
    'text-align': ('left right center justify', ''),
    'text-transform': ('capitalize uppercase lowercase none', ''),
    'unicode-bidi': ('normal embed bidi-override', ''),
    'visibility': ('visible hidden collapse', ''),
    'white-space': ('normal pre nowrap pre-wrap pre-line', ''),
}
UNITS = {
    'length': ('em ex px in cm mm pt pc', ['1xx', '1', 'px', '1 px', '1e']),
    'angle': ('deg grad rad', ['1px', '1']),
    'time': ('ms s', ['1px', '1']),
    'frequency': ('hz khz', ['1px', '1']),
}


def r13d(chk, rid='R13.d'):
    chk.rule(rid, 'keyword-list grammars: for each CSS 2.1 property whose expanded pattern denotes a finite language (decided on the automaton, in the environment the registry really uses), that language equals the CSS 2.1 keyword list + inherit kept in the checker; unit macros accept exactly the CSS 2.1 units; validateWithProfile tests knownNames first (unknown names are never valid)')
    pt = ProfileTables(chk.repo)
    env = pt.bulk_macros()
    props = pt.properties.get('CSS_LEVEL_2')
    if props is None:
        raise AnalysisError('CSS_LEVEL_2 table vanished')
    nfin = 0
    for name, (req, opt) in ORACLE.items():
        if name not in props or props[name] is None:
            chk.ob(rid, PROFILES, 'properties[CSS_LEVEL_2]', f'{name} is defined', False, 'the CSS 2.1 property lost its grammar')
            continue
        full = pt.expand(props[name], env)
        nfa = rx.compile_nfa(full, 0)
        if not rx.is_finite(nfa):
            chk.ob(rid, PROFILES, 'properties[CSS_LEVEL_2]', f'{name} is a keyword list', False, 'the pattern now accepts infinitely many values')
            continue
        nfin += 1
        lang = {w.lower() for w in rx.finite_language(nfa)}
        required = set(req.split()) | {'inherit'}
        allowed = required | set(opt.split())
        miss, extra = sorted(required - lang), sorted(lang - allowed)
        chk.ob(rid, PROFILES, 'properties[CSS_LEVEL_2]', f'{name} accepts exactly its CSS 2.1 keywords', not miss and not extra,
               f'missing {miss}, unexpected {extra}')
    if nfin < 25:
        raise AnalysisError(f'only {nfin} finite keyword grammars recognised')
    for mac, (units, rejects) in UNITS.items():
        full = pt.expand('{%s}' % mac, env)
        nfa = rx.compile_nfa(full, pt.flags)
        bad = [u for u in units.split() if not rx.accepts(nfa, '1' + u) or not rx.accepts(nfa, '-1.5' + u.upper())]
        wrong = [r for r in rejects if rx.accepts(nfa, r)]
        chk.ob(rid, PROFILES, 'Profiles._MACROS', f'{{{mac}}} accepts a number with each of {units.split()} and 0', not bad and not wrong and rx.accepts(nfa, '0'),
               f'rejects units {bad}; accepts {wrong}')
    eval_validate(chk, rid)


def eval_validate(chk, rid):
    """Profiles.validate / validateWithProfile(unknown name) over a three-profile model registry."""
    # validate() and validateWithProfile() over a three-profile model registry, by evaluation
    import itertools

    from sa.absint import Evaluator, Raised, Record, _Raise

    pm = chk.repo.mod(PROFILES)
    vfn, wfn = pm.get('Profiles.validate'), pm.get('Profiles.validateWithProfile')
    names = ['A', 'B', 'C']

    def validator(kind):
        def v(value):
            if kind == 'raise':
                raise _Raise('Exception')
            return 'match object' if kind == 'accept' else None
        return v

    n = 0
    bad = []
    for kinds in itertools.product(('absent', 'accept', 'reject', 'raise'), repeat=3):
        beh = dict(zip(names, kinds))
        props = {p: ({'x': validator(beh[p])} if beh[p] != 'absent' else {'other': validator('reject')}) for p in names}
        for dflt in (None, ('B',), 'C'):
            me = Record(_profileNames=list(names), _profilesProperties=props, _defaultProfiles=dflt, _knownNames=[k for p in names for k in props[p]], _log=Record(error=lambda *a, **k: None))
            got = Evaluator(vfn, intrinsics={'self._log.error': lambda *a, **k: None}, module=pm, cls='Profiles').run(self=me, name='x', value='v')
            n += 1
            want = any(k == 'accept' for k in kinds)
            if isinstance(got, Raised) or bool(got) != want or not isinstance(got, bool):
                bad.append(f'registry {beh}, defaultProfiles={dflt!r}: validate gives {got!r}, prescribed {want} (restricting the default profiles never changes whether a value is valid)')
        unknown = Evaluator(wfn, intrinsics={'self._log.error': lambda *a, **k: None}, module=pm, cls='Profiles').run(self=me, name='nosuch', value='v')
        if isinstance(unknown, Raised) or tuple(unknown)[:2] != (False, False) or list(tuple(unknown)[2]):
            bad.append(f'registry {beh}: an unknown property name gives {unknown!r}')
    chk.ob(rid, PROFILES, 'Profiles.validate', f'all {n} model registries: valid iff some registered profile that defines the property accepts the value (a failing validator counts as rejecting); unknown names are rejected (by evaluation)', not bad, ' | '.join(bad[:2]))


def r13e(chk, rid='R13.e'):
    chk.rule(rid, 'conjunction upwards uses all declarations: the `valid` getter of a declaration block enumerates every property (getProperties(all=True)), and every rule kind that contains declarations offers `valid`, so the sheet-level conjunction cannot skip it')
    m = chk.repo.mod('cssutils/css/cssstyledeclaration.py')
    fn = m.get('CSSStyleDeclaration._getValid')
    calls = [c for c in ast.walk(fn) if isinstance(c, ast.Call) and call_name(c) == 'self.getProperties']
    ok = bool(calls) and all(any(k.arg == 'all' and const(k.value) is True for k in c.keywords) for c in calls)
    chk.ob(rid, m.rel, 'CSSStyleDeclaration._getValid', 'iterates getProperties(all=True)', ok,
           'only the effective property of each name is checked: a block with an invalid declaration that is overridden later is reported valid')
    eff = Effects.get(chk.repo)
    for cls, why in (('CSSStyleRule', 'style'), ('CSSFontFaceRule', 'style'), ('CSSPageRule', 'style + margin boxes'), ('MarginRule', 'style'), ('CSSMediaRule', 'nested rules')):
        infos = [c for c in eff.classes.get(cls, []) if c.rel.startswith('cssutils/css/') and not c.rel.endswith('cssvalue.py')]
        if not infos:
            raise AnalysisError(f'class {cls} vanished')
        ci = infos[0]
        has = eff.mro_lookup(ci, 'valid', 'getters') is not None or eff.mro_lookup(ci, 'valid') is not None or any(
            isinstance(st, ast.Assign) and any(isinstance(t, ast.Name) and t.id == 'valid' for t in st.targets) for st in ci.node.body)
        chk.ob(rid, ci.rel, cls, f'offers `valid` ({why})', has,
               'CSSStyleSheet.valid skips rules without a `valid` attribute: invalid declarations inside this rule kind do not make the sheet invalid')


def r13k(chk, rid='R13.k'):
    chk.rule(rid, 'the conjunction upwards skips nothing, decided by evaluation: the `valid` getters of the containers - style sheet, @media rule, @page rule - are evaluated on their syntax trees over model children of every rule kind (style, @page, @font-face, nested @media, margin box, and kinds without a verdict such as comments and unknown rules), all valid and with exactly one invalid child at each position: the container is valid iff every child that has a verdict is valid')
    from sa.absint import Evaluator, Obj, Raised, Record

    kinds = {'CSSStyleRule': 1, 'CSSMediaRule': 4, 'CSSFontFaceRule': 5, 'CSSPageRule': 6, 'MarginRule': 1006}
    consts = dict(STYLE_RULE=1, CHARSET_RULE=2, IMPORT_RULE=3, MEDIA_RULE=4, FONT_FACE_RULE=5, PAGE_RULE=6, NAMESPACE_RULE=10, COMMENT=1001, VARIABLES_RULE=1008, MARGIN_RULE=1006, UNKNOWN_RULE=0)

    def child(kind, valid):
        if kind in ('CSSComment', 'CSSUnknownRule'):
            return Obj(kind=kind, type={'CSSComment': 1001, 'CSSUnknownRule': 0}[kind], **consts)  # no verdict
        return Obj(kind=kind, type=kinds[kind], valid=valid, **consts)

    containers = (('cssutils/css/cssstylesheet.py', 'CSSStyleSheet', ['CSSStyleRule', 'CSSComment', 'CSSMediaRule', 'CSSFontFaceRule', 'CSSPageRule', 'CSSUnknownRule']),
                  ('cssutils/css/cssmediarule.py', 'CSSMediaRule', ['CSSStyleRule', 'CSSComment', 'CSSMediaRule', 'CSSPageRule', 'CSSUnknownRule']),
                  ('cssutils/css/csspagerule.py', 'CSSPageRule', ['MarginRule', 'MarginRule']))
    for rel, cls, content in containers:
        m = chk.repo.mod(rel)
        fn = m.get(f'{cls}._getValid')
        cases = [None] + [i for i, k in enumerate(content) if k not in ('CSSComment', 'CSSUnknownRule')]
        bad = []
        for broken in cases:
            rules = [child(k, i != broken) for i, k in enumerate(content)]
            me = Obj(cssRules=rules, _cssRules=rules, style=Record(valid=True), **consts)
            got = Evaluator(fn, module=m, cls=cls).run(self=me)
            want = broken is None
            if isinstance(got, Raised) or bool(got) != want:
                bad.append(f'{"all children valid" if broken is None else "invalid " + content[broken]}: {got!r}')
        chk.ob(rid, rel, f'{cls}._getValid', f'valid iff every contained rule with a verdict is valid ({len(cases)} cases over {sorted(set(content))})', not bad,
               '; '.join(bad[:3]) + ': an invalid declaration inside this kind of rule does not make the container (and the sheet) invalid')
        if cls == 'CSSPageRule':
            me = Obj(cssRules=[child('MarginRule', True)], style=Record(valid=False), **consts)
            got = Evaluator(fn, module=m, cls=cls).run(self=me)
            chk.ob(rid, rel, f'{cls}._getValid', 'an invalid declaration of the page block itself makes the rule invalid', got is False, f'{got!r}')


def profile_eda(chk, rid):
    """Exponential-ambiguity analysis of every expanded validation pattern
    (thorough tier: 148 patterns, anchored => the whole automaton counts)."""
    if rid not in chk.rules:
        chk.rule(rid, 'no validation pattern is exponentially ambiguous (anchored patterns: any ambiguity under a loop with a failing continuation counts)')
    from .tokrules import eda_obligations

    pt = ProfileTables(chk.repo)
    env = pt.bulk_macros()
    done = set()
    for prof, props, mac in pt.registration:
        for name, pat in pt.properties[props].items():
            if pat is None:
                continue
            full = pt.expand(pat, env)
            if full in done:
                continue
            done.add(full)
            try:
                nfa = rx.compile_nfa(full, pt.flags)
                eda_obligations(chk, rid, PROFILES, f'properties[{props}]', name, nfa, False)
            except AnalysisError as e:
                chk.ob(rid, PROFILES, f'properties[{props}]', f'{name}: analysable', True, f'skipped: {e}', trivial=True)


def r13h(chk, rid='R13.h'):
    chk.rule(rid, 'the validation context of a property, decided by evaluation: Property.validate is evaluated on its syntax tree with a model registry for a property in a style rule, an @page rule, an @media rule, an @font-face rule, a block without rule and a property without block: the value is checked against the @font-face profile inside @font-face and against the default selection everywhere else (the context is read from the live parent chain); the verdict is "valid in the selection", false for an unknown priority; nothing is written')
    from sa.absint import Evaluator, Obj, Raised, Record

    rel = 'cssutils/css/property.py'
    m = chk.repo.mod(rel)
    fn = m.get('Property.validate')
    K = dict(FONT_FACE_RULE=5, STYLE_RULE=1, PAGE_RULE=6, MEDIA_RULE=4)
    n = 0
    # a declaration block learns its rule in two ways: through the parentRule setter, and - from the rule
    # classes' style setters - by a raw store to _parentRule.  Both are modelled, so that a context cached
    # by the setter is only as good as the raw stores allow.
    dm = chk.repo.mod('cssutils/css/cssstyledeclaration.py')
    from .effects import Effects

    eff = Effects.get(chk.repo)
    dci = next((c for c in eff.classes.get('CSSStyleDeclaration', []) if c.rel == dm.rel), None)
    setter = dci.setters.get('parentRule') if dci else None
    raw_sites = []
    for rel2, m2 in chk.repo.modules.items():
        if rel2.startswith('cssutils/css/') and not rel2.endswith('cssvalue.py'):
            for x in ast.walk(m2.tree):
                if isinstance(x, ast.Assign) and any(isinstance(t, ast.Attribute) and t.attr == '_parentRule' and not (isinstance(t.value, ast.Name) and t.value.id == 'self') for t in x.targets):
                    raw_sites.append(f'{rel2.rsplit("/", 1)[-1]}:{m2.qualname_of(x)}')

    class Prof0(Record):
        def __getattr__(self, a):
            if a.isupper() or a.startswith('CSS'):
                return 'FONT-FACE-PROFILE' if a == 'CSS3_FONT_FACE' else a
            raise AttributeError(a)

    def block(rule, how):
        p_ = Obj(_parentRule=rule)
        if how == 'setter' and setter is not None and not isinstance(setter, ast.Lambda):
            r_ = Evaluator(setter, intrinsics={'cssutils': Record(profile=Prof0())}, module=dm, cls='CSSStyleDeclaration').run(self=p_, **{[a.arg for a in setter.args.args][1]: rule})
            if isinstance(r_, Raised):
                raise AnalysisError(f'CSSStyleDeclaration parentRule setter: {r_!r}')
        p_.parentRule = p_._parentRule
        return p_

    contexts = []
    for how in (['setter'] if not raw_sites else ['setter', 'raw store']):
        for lab, typ, wp in (('a style rule', 1, None), ('an @page rule', 6, None), ('an @media rule', 4, None), ('an @font-face rule', 5, ['FONT-FACE-PROFILE'])):
            contexts.append((f'in {lab} (block attached through the {how})', block(Obj(type=typ, **K), how), wp))
        contexts.append((f'in a block without rule ({how})', block(None, how), None))
    contexts.append(('without block', None, None))
    for label, parent, want_profiles in contexts:
        for verdict in ((True, True, ['p']), (True, False, ['other']), (False, False, ['p'])):
            for prio in ('', 'important', 'bogus'):
                asked = []
                class Prof(Record):
                    def __getattr__(self, a):  # any other profile constant stands for itself
                        if a.isupper() or a.startswith('CSS'):
                            return a
                        raise AttributeError(a)

                prof = Prof(knownNames=['margin'], CSS3_FONT_FACE='FONT-FACE-PROFILE', defaultProfiles=['d'], validateWithProfile=lambda nm, val, profiles=None: (asked.append((nm, val, profiles)), verdict)[1])
                me = Obj(name='margin', value='2cm', parent=parent, _priority=prio, _log=Record(error=lambda *a, **k: None, warn=lambda *a, **k: None, debug=lambda *a, **k: None), **{'__nametoken': None})
                before = dict(me.__dict__)
                got = Evaluator(fn, intrinsics={'cssutils': Record(profile=prof), 'self._log.error': me._log.error, 'self._log.warn': me._log.warn, 'self._log.debug': me._log.debug}, module=m, cls='Property').run(self=me)
                n += 1
                want = verdict[0] and verdict[1] and prio in ('', 'important')
                ok = not isinstance(got, Raised) and asked == [('margin', '2cm', want_profiles)] and bool(got) == want and dict(me.__dict__) == before
                if not ok or (verdict == (True, True, ['p']) and prio == ''):
                    chk.ob(rid, rel, 'Property.validate', f'{label}: checked against {want_profiles or "the default selection"}; verdict {want} for registry answer {verdict[:2]} and priority {prio!r}', ok,
                           f'asked the registry {asked}, result {got!r}' + ('' if dict(me.__dict__) == before else '; the property was changed') + (f' (raw stores to _parentRule: {sorted(set(raw_sites))[:4]})' if 'raw store' in label else ''))
    # an unknown name is invalid whatever it looks like: no other property's validator is borrowed
    for uname in ('-moz-margin', '-x-margin', 'margin-', 'MARGINX', '_margin'):
        asked = []

        class Prof2(Record):
            def __getattr__(self, a):
                if a.isupper() or a.startswith('CSS'):
                    return a
                raise AttributeError(a)

        prof = Prof2(knownNames=['margin'], CSS3_FONT_FACE='FONT-FACE-PROFILE', defaultProfiles=['d'], validateWithProfile=lambda nm, val, profiles=None: (asked.append((nm, val, profiles)), (True, True, ['p']))[1])
        me = Obj(name=uname.lower(), value='2cm', parent=None, _priority='', _log=Record(error=lambda *a, **k: None, warn=lambda *a, **k: None, debug=lambda *a, **k: None), **{'__nametoken': None})
        got = Evaluator(fn, intrinsics={'cssutils': Record(profile=prof), 'self._log.error': me._log.error, 'self._log.warn': me._log.warn, 'self._log.debug': me._log.debug}, module=m, cls='Property').run(self=me)
        n += 1
        ok = not isinstance(got, Raised) and not got and not [a for a in asked if a[0] != uname.lower()]
        chk.ob(rid, rel, 'Property.validate', f'the unknown name {uname!r} is invalid; the registry is not asked about another property', ok, f'verdict {got!r}, registry asked {asked}: the verdict of Property.valid differs from validateWithProfile for the same name')
    chk.extra['validation_context_cases'] = n



def r13j(chk, rid='R13.j'):
    chk.rule(rid, 'compiled validators match the whole value, in any letter case, decided by evaluation: Profiles._compile_regexes is evaluated on its syntax tree (LazyRegex modelled by the interpreter\'s re with the pattern and flags it is given) for a keyword list, a pattern with a quantifier and a callable: each compiled validator accepts its keywords in lower, upper and mixed case, rejects a keyword with something in front or behind, and a callable is kept as it is')
    import re as _re

    from sa.absint import Evaluator, Raised, Record

    m = chk.repo.mod(PROFILES)
    fn = m.get('Profiles._compile_regexes')

    def custom(v):
        return v == 'custom'

    table = {'display': 'inline|block|none', 'z': '(?:a|b){1,2}', 'c': custom, 'single': 'auto'}
    got = Evaluator(fn, intrinsics={'util': Record(LazyRegex=lambda pat, flags=0: _re.compile(pat, flags).match)}, module=m, cls='Profiles').run(self=Record(), dictionary=dict(table))
    if isinstance(got, Raised) or not isinstance(got, dict) or set(got) != set(table):
        chk.ob(rid, PROFILES, 'Profiles._compile_regexes', 'returns a validator for every property', False, f'{got!r}')
        return
    cases = [('display', 'block', True), ('display', 'BLOCK', True), ('display', 'Block', True), ('display', 'blockx', False), ('display', 'xblock', False), ('display', 'block none', False), ('display', '', False),
             ('z', 'ab', True), ('z', 'AB', True), ('z', 'aba', False), ('single', 'AUTO', True), ('single', 'auto ', False), ('c', 'custom', True), ('c', 'CUSTOM', False)]
    for prop, value, want in cases:
        try:
            res = bool(got[prop](value))
        except Exception as e:  # noqa: BLE001
            res = f'{type(e).__name__}: {e}'
        chk.ob(rid, PROFILES, 'Profiles._compile_regexes', f'{prop}: {value!r} is ' + ('accepted' if want else 'rejected'), res == want, f'the compiled validator answers {res!r}: the verdict depends on the letter case (or on what surrounds the keyword)')
    chk.ob(rid, PROFILES, 'Profiles._compile_regexes', 'a callable validator is kept as it is', got['c'] is custom, '')


def r13l(chk, rid='R13.l'):
    chk.rule(rid, 'the number macros of the validator cover the numbers of the tokenizer (language inclusion on the automata): every text the tokenizer\'s {num} macro accepts - digits with an optional fraction, or a fraction without integer part, with an optional minus sign - is accepted by the validation macro num, and every unsigned one by positivenum; so the verdict on a value does not depend on how the serializer spells its numbers (leading zero omitted or not)')
    from .tables import TokTables

    pt = ProfileTables(chk.repo)
    env = pt.bulk_macros()
    tt = TokTables(chk.repo)
    if 'num' not in tt.macros:
        raise AnalysisError('cssproductions.MACROS: macro num vanished')
    unsigned = r'(?:[0-9]*\.[0-9]+|[0-9]+)'
    # the reference is tied to the tokenizer: its own num macro is exactly the signed form of `unsigned`
    eq, w = rx.equivalent(tt.macro_nfa('num'), rx.compile_nfa(r'[+-]?' + unsigned, tt.flags))
    if not eq:
        raise AnalysisError(f'the tokenizer macro num is not [+-]?(digits with optional fraction) any more (differs on {w!r})')
    for name, ref in (('num', '-?' + unsigned), ('positivenum', unsigned)):
        if name not in env:
            raise AnalysisError(f'profiles: macro {name} vanished')
        b = pt.expand('{%s}' % name, env)
        nb = rx.compile_nfa('(?:%s)' % b, pt.flags)
        nab = rx.compile_nfa('(?:%s)|(?:%s)' % (ref, b), pt.flags)
        eq, w = rx.equivalent(nab, nb)
        chk.ob(rid, PROFILES, 'Profiles._TOKEN_MACROS', f'validation macro {name} accepts every number of the form {ref}', eq, f'{w!r} is a number for the tokenizer (and the way the serializer writes it under omitLeadingZero) but not for the validator: a valid declaration is reported invalid, and sheet.valid changes with a serializer preference')


def r13m(chk, rid='R13.m'):
    chk.rule(rid, 'the text that is validated is the value without its comments, decided by evaluation: CSSSerializer.do_css_PropertyValue (writing through the source\'s own Out class) is evaluated with valuesOnly on and off for a value made of a dimension, a comment, a nested function value, a colour value and a variable reference that cannot be resolved (its computed value is None): with valuesOnly the text holds every component - also the unresolvable one - in order and no comment; without it the comment as well')
    from sa.absint import Evaluator, Raised, Record

    from .c06 import out_model

    m = chk.repo.mod('cssutils/serialize.py')
    fn = m.get('CSSSerializer.do_css_PropertyValue')

    class CommentM(Record):
        @property
        def cssText(self):
            return '/*c*/'

    class ValueM(Record):
        def __init__(self, text_, value):
            Record.__init__(self, text_=text_, value=value)

        @property
        def cssText(self):
            return self.text_

    class ColorM(ValueM):
        pass

    class FuncM(ValueM):
        pass

    items = [Record(type='DIMENSION', value=ValueM('1px', 1)), Record(type=CommentM, value=CommentM()), Record(type='FUNCTION', value=FuncM('f(a /*i*/ b)', 'f(a b)')),
             Record(type='COLOR_VALUE', value=ColorM('rgb(1, 2, 3)', 'rgb(1, 2, 3)')), Record(type='VARIABLE', value=FuncM('var(nope)', None)), Record(type='IDENT', value='block')]
    prefs = Record(spacer=' ', selectorCombinatorSpacer=' ', keepComments=True, indentClosingBrace=False, listItemSpacer=' ', propertyNameSpacer=' ', paranthesisSpacer=' ', lineSeparator='\n', minimizeColorHash=True)
    ser = Record(prefs=prefs, _level=0)
    css = Record(CSSComment=CommentM, value=Record(ColorValue=ColorM, CSSFunction=FuncM, Value=ValueM), ColorValue=ColorM, CSSFunction=FuncM)
    for only in (True, False):
        got = Evaluator(fn, intrinsics={'Out': lambda s: out_model(chk, s), 'cssutils': Record(css=css)}, module=m, cls='CSSSerializer', model_types=(CommentM, ValueM)).run(self=ser, value=Record(seq=items), valuesOnly=only)
        want = ['1px'] + ([] if only else ['/*c*/']) + ['f(a /*i*/ b)', 'rgb(1, 2, 3)', 'var(nope)', 'block']
        words = got if isinstance(got, str) else ''
        pos = [words.find(w) for w in want]
        ok = isinstance(got, str) and all(p >= 0 for p in pos) and pos == sorted(pos) and (only is False or '/*c*/' not in words)
        chk.ob(rid, 'cssutils/serialize.py', 'CSSSerializer.do_css_PropertyValue', f'valuesOnly={only}: every component of the value is written, in order' + (', no top-level comment' if only else ', the comment too'), ok,
               f'written as {got!r}: a component that is missing from the validated text cannot make the declaration invalid (display: var(nope) block is reported valid)')


# macros that a later table redefines on purpose, one line of reason each (confirmed by reading profiles.py)
_WIDENED_MACROS = {
    'color': 'CSS3_COLOR widens the general colour macro (rgba/hsla/currentcolor): the CSS Color Module extends CSS 2.1 colours for every property',
    'namedcolor': 'CSS3_COLOR adds the X11/SVG colour names to the sixteen (seventeen) CSS 2.1 ones',
    'uicolor': 'CSS3_COLOR keeps the system colours under its own definition (deprecated in CSS3, same names)',
}


def r13n(chk, rid='R13.n'):
    chk.rule(rid, 'one macro namespace, one meaning: the registry merges the macros of every profile into one dictionary where the definition registered last wins, so a '
                  'macro name that occurs in more than one table (token macros, general macros, the macros of each profile) must denote the same language in each - '
                  'decided on the automata of the expanded definitions, not on their text. Otherwise registering the later profile silently changes the verdict of '
                  'every property of the earlier profiles that uses the name (a CSS 2.1 property would no longer follow the CSS 2.1 grammar). Three confirmed '
                  'exceptions (the colour macros that CSS3_COLOR widens on purpose) are listed with their reason')
    pt = ProfileTables(chk.repo)
    env = pt.bulk_macros()
    defs = {}
    for k, v in pt.token_macros.items():
        defs.setdefault(k, []).append(('_TOKEN_MACROS', v))
    for k, v in pt.general_macros.items():
        defs.setdefault(k, []).append(('_MACROS', v))
    for prof, props, mac in pt.registration:
        for k, v in pt.macros[mac].items():
            defs.setdefault(k, []).append((mac, v))
    if len(defs) < 40:
        raise AnalysisError(f'only {len(defs)} macro names found in profiles.py')
    multi = {k: v for k, v in defs.items() if len(v) > 1}
    n = 0
    for name, lst in sorted(multi.items()):
        first_tab, first = lst[0]
        for tab, v in lst[1:]:
            n += 1
            if v == first:
                same, w = True, None
            else:
                try:
                    a = rx.compile_nfa('(?:%s)' % pt.expand(first, env), pt.flags)
                    b = rx.compile_nfa('(?:%s)' % pt.expand(v, env), pt.flags)
                    same, w = rx.equivalent(a, b)
                except Exception as e:  # too large to decide: say so, do not guess
                    raise AnalysisError(f'macro {name}: cannot compare the definitions of {first_tab} and {tab}: {e!r}')
            if not same and name in _WIDENED_MACROS:
                chk.ob(rid, PROFILES, 'macros', f'macro {name}: {tab} redefines {first_tab} on purpose', True, _WIDENED_MACROS[name], trivial=True)
                continue
            users = sorted(p for prof, props, mac in pt.registration if mac != tab for p, pv in pt.properties.get(props, {}).items() if isinstance(pv, str) and '{%s}' % name in pv)
            chk.ob(rid, PROFILES, 'macros', f'macro {name}: the definitions in {first_tab} and {tab} denote one language', same,
                   f'they differ on {w!r}; the registry keeps one definition per name (the last registered), so the properties of other profiles that use {{{name}}} '
                   f'({", ".join(users[:4]) or "through other macros"}) change their verdict with it')
    chk.ob(rid, PROFILES, 'macros', f'{len(defs)} macro names, {len(multi)} defined more than once, {n} pairs compared', True)
