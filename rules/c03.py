"""C03 - serialise then parse is lossless; serialisation is a fixpoint
(reader/writer table agreement)."""
from __future__ import annotations

import ast

from sa import rx
from sa.core import resolve_collection, AnalysisError, call_name, const, text

from .tables import TokTables, class_regex

HELPER = 'cssutils/helper.py'
TOK = 'cssutils/tokenize2.py'
SER = 'cssutils/serialize.py'


def run(chk):
    r03a(chk)
    r03b(chk)
    r03c(chk)
    r03d(chk)
    from .c16 import r16b

    r16b(chk, 'R03.e')


def raw_allowed(nfa_node):
    """Union of the single-character alternatives inside the first repeated
    group of a token pattern = characters the reader accepts unescaped."""
    def find_rep(n):
        if n[0] == 'rep':
            return n
        if n[0] in ('cat', 'alt'):
            for x in n[1]:
                r = find_rep(x)
                if r is not None:
                    return r
        return None

    rep = find_rep(nfa_node)
    if rep is None:
        raise AnalysisError('token pattern has no repeated body')
    body = rep[1]
    alts = body[1] if body[0] == 'alt' else [body]
    cs = rx.EMPTY
    for a in alts:
        if a[0] == 'cs':
            cs = cs | a[1]
    if not cs:
        raise AnalysisError('no raw character class found in the token body')
    return cs


def writer_escapes(m, fn, chars):
    """{char: replacement} of helper.string, read off its syntax tree by evaluating it on
    x<char>x for every candidate character (the function only replaces substrings, so the
    image of a character between two neutral ones is its replacement)."""
    from sa.absint import Evaluator, Raised

    out = {}
    for ch in chars:
        got = Evaluator(fn, module=m).run(value='x' + ch + 'x')
        if isinstance(got, Raised) or not isinstance(got, str) or len(got) < 4 or not (got[1] == 'x' and got[-2] == 'x'):
            raise AnalysisError(f'helper.string: unexpected result {got!r} for {ch!r}')
        if got[2:-2] != ch:
            out[ch] = got[2:-2]
    return out


def r03a(chk, rid='R03.a'):
    chk.rule(rid, 'strings: every character the STRING production refuses unescaped inside "..." (read from the macro string1 as an exact character set) is escaped by the writer helper.string (read from its chain of replace calls), and every escape the writer emits is accepted by the reader\'s escape grammar')
    tt = TokTables(chk.repo)
    node = rx.parse('(?:%s)' % tt.expand(tt.macros['string1']), tt.flags)
    allowed = raw_allowed(node)
    forbidden = allowed.negate()
    m = chk.repo.mod(HELPER)
    fn = m.get('string')
    from sa.absint import Evaluator

    esc = writer_escapes(m, fn, forbidden.chars(limit=40) + ["'"])
    # a value never ends in a way that escapes the closing quote: a parsed value that ends with n
    # escaped backslashes is stored with 2n-1 of them
    for k in (1, 3, 5):
        got = Evaluator(fn, module=m).run(value='dir' + '\\' * k)
        body = got[1:-1] if isinstance(got, str) and len(got) >= 2 else ''
        trail = len(body) - len(body.rstrip('\\'))
        chk.ob(rid, HELPER, 'string', f'a value ending in {k} backslash(es) is written with an even number of them before the closing quote', isinstance(got, str) and got.endswith('"') and trail % 2 == 0,
               f'written as {got!r}: the last backslash escapes the closing quote and the string swallows what follows')
    plain = Evaluator(fn, module=m).run(value='x')
    chk.ob(rid, HELPER, 'string', 'the writer always uses double quotes (the reader side is string1)', plain == '"x"', f"string('x') gives {plain!r}")
    names = {'\n': 'line feed', '\r': 'carriage return', '\f': 'form feed', '\\': 'backslash', '"': 'double quote'}
    for ch in forbidden.chars(limit=40):
        ok = ch in esc
        chk.ob(rid, HELPER, 'string', f'{names.get(ch, repr(ch))} (refused raw by the reader) is escaped by the writer', ok,
               'written raw inside "...": the reparse reads something else (a decoded backslash followed by hex digits becomes an escape, e.g. content:"\\5c 62" -> "\\62" -> "b")')
    chk.ob(rid, 'cssutils/cssproductions.py', 'MACROS', f'reader refuses exactly {forbidden!r} raw in a double-quoted string', forbidden.size() == 5, f'{forbidden.size()} characters')
    # what the writer emits must be readable
    escape = tt.macro_nfa('escape')
    nl = rx.compile_nfa(r'\\(?:%s)' % tt.expand(tt.macros['nl']), tt.flags)
    for ch, rep in sorted(esc.items()):
        ok = rx.accepts(escape, rep) or rx.accepts(nl, rep)
        chk.ob(rid, HELPER, 'string', f'escape {rep!r} written for {ch!r} is an escape the reader accepts', ok, 'the reader cannot decode what the writer emits')
        if rep.startswith('\\') and len(rep) > 2 and rep[1:].strip().isalnum():
            code = int(rep[1:].strip(), 16)
            chk.ob(rid, HELPER, 'string', f'escape {rep!r} denotes {ch!r}', code == ord(ch) and rep.endswith(' '), f'denotes U+{code:04X}; or lacks the terminating space')


def r03b(chk, rid='R03.b'):
    chk.rule(rid, 'url(): every character the URI production refuses in an unquoted url(...) (exact set from the macro url) makes helper.uri switch to the quoted form (set from the class in _match_forbidden_in_uri); the quoted form is written by helper.string')
    tt = TokTables(chk.repo)
    node = rx.parse('(?:%s)' % tt.expand(tt.macros['url']), tt.flags)
    alts = node[1] if node[0] == 'alt' else [node]
    allowed = rx.EMPTY
    for a in alts:
        if a[0] == 'cs':
            allowed = allowed | a[1]
    refused = allowed.negate()
    m = chk.repo.mod(HELPER)
    from sa.absint import Evaluator, Raised

    ufn = m.get('uri')
    if refused.size() > 200:
        raise AnalysisError(f'the URI token refuses {refused.size()} characters unquoted (an ASCII subset was expected)')
    unquoted = []
    for ch in refused.chars(limit=200):
        if ch == '\\':
            continue  # allowed raw by the url class itself (it overlaps with {escape}); reported under R03.a
        for value in ('a' + ch + 'b', ch + 'b', 'a' + ch, 'a\nb' + ch):
            got = Evaluator(ufn, module=m).run(value=value)
            if isinstance(got, Raised) or not (isinstance(got, str) and got.startswith('url("') and got.endswith('")')):
                unquoted.append((ch, value, got))
                break
    chk.ob(rid, HELPER, 'uri', f'each of the {refused.size()} characters the reader refuses in an unquoted url(...) triggers quoting, wherever it stands (by evaluation of helper.uri)', not unquoted,
           f'{[(repr(c), repr(g)) for c, v, g in unquoted[:4]]} written unquoted although url(...) cannot contain it: the value is lost on reparse')
    fn = m.get('uri')
    from sa.absint import Evaluator, Raised

    for v, quoted in (('img.png', False), ('a b.png', True), ('a)b', True), ('q"x', True), ("q'x", True), ('t\tab', True), ('x\x01y', True), ('', False), ('caf\xe9.png', False)):
        got = Evaluator(fn, module=m).run(value=v)
        want = 'url(' + (Evaluator(m.get('string'), module=m).run(value=v) if quoted else v) + ')'
        chk.ob(rid, HELPER, 'uri', f'{v!r} is written ' + ('in the quoted form helper.string produces' if quoted else 'unquoted') + ' (by evaluation)', got == want, f'{got!r}, prescribed {want!r}')


DECODED_NEEDED_REASON = 'the serializer encodes the whole sheet text with the escapecss handler, so any token that may contain a non-ASCII character can come back as \\HEX and has to be decoded by the tokenizer'


def r03c(chk, rid='R03.c'):
    chk.rule(rid, 'decode/encode symmetry by token kind: ' + DECODED_NEEDED_REASON + '; kinds whose production can match a non-ASCII character (decided on the automata) must be in the tokenizer\'s unicodesub list; the serializer re-escapes exactly STRING and URI values, the remaining decoded kinds are the known "identifier escapes are not re-encoded" finding, which must not grow')
    tt = TokTables(chk.repo)
    fn = chk.repo.fn(TOK, 'Tokenizer.tokenize')
    tm = chk.repo.mod(TOK)
    lists = [n for n in ast.walk(fn) if isinstance(n, ast.Compare) and isinstance(n.ops[0], ast.In) and text(n.left) == 'name'
             and len(resolve_collection(tm, fn, n.comparators[0]) or []) >= 6]
    if len(lists) != 1:
        raise AnalysisError('Tokenizer.tokenize: list of decoded token kinds not found')
    decoded = {const(e) for e in resolve_collection(tm, fn, lists[0].comparators[0])}
    # the branch must apply unicodesub
    par = chk.repo.mod(TOK).parents[lists[0]]
    ok = isinstance(par, ast.If) and any('self.unicodesub(_repl, found)' in text(s) for s in par.body)
    chk.ob(rid, TOK, 'Tokenizer.tokenize', 'token kinds in the list get unicodesub applied', ok, '')
    nonascii = rx.CS([(0x80, rx.MAXCP)])
    can = set()
    for name in tt.names():
        nfa = tt.nfa(name)
        if any(cs & nonascii for cs in nfa.cs):
            can.add(name)
    for k in sorted(can - {'BOM', 'CHAR'}):
        chk.ob(rid, TOK, 'Tokenizer.tokenize', f'{k} tokens (can contain non-ASCII text) are decoded', k in decoded,
               'an escaped non-ASCII character written for a non-Unicode target encoding is not decoded on reparse: the value changes and the second serialisation differs')
    chk.extra['token_kinds_with_nonascii'] = sorted(can)
    # writer side
    sm = chk.repo.mod(SER)
    ap = sm.get('Out.append')
    re_esc = set()
    for n in ast.walk(ap):
        if isinstance(n, ast.If) and isinstance(n.test, ast.Compare) and text(n.test.comparators[0]) == 'type_' and isinstance(const(n.test.left), str):
            if any('helper.' in text(s) for s in n.body):
                re_esc.add(n.test.left.value)
    chk.ob(rid, SER, 'Out.append', 'STRING and URI values are re-escaped when written', {'STRING', 'URI'} <= re_esc, str(sorted(re_esc)))
    gap = decoded - re_esc - {'COMMENT', 'INVALID'}
    allowed_gap = {'DIMENSION', 'IDENT', 'HASH', 'FUNCTION', 'UNICODE-RANGE'}
    chk.ob(rid, TOK, 'Tokenizer.tokenize', 'identifier-like kinds are decoded but never re-encoded (a name such as \\31 a is written as 1a)', not (gap & allowed_gap),
           f'kinds {sorted(gap & allowed_gap)}: hex escapes that are needed to keep an identifier valid are lost')
    chk.ob(rid, TOK, 'Tokenizer.tokenize', 'the decode-only set has not grown', gap <= allowed_gap, f'new kinds: {sorted(gap - allowed_gap)}')


def r03d(chk, rid='R03.d'):
    chk.rule(rid, 'one serializer method per DOM class: every cssutils.ser.do_X a DOM getter refers to exists on CSSSerializer')
    sm = chk.repo.mod(SER)
    have = {q.split('.')[1] for q, f in sm.functions() if q.startswith('CSSSerializer.do_') and q.count('.') == 1}
    used = {}
    for rel, m in chk.repo.modules.items():
        if rel in ('cssutils/sac.py', 'cssutils/css/cssvalue.py'):
            continue
        for n in ast.walk(m.tree):
            if isinstance(n, ast.Attribute) and n.attr.startswith('do_') and (text(n.value) in ('cssutils.ser', 'self', 'self.ser', 'ser')):
                used.setdefault(n.attr, set()).add(rel)
    if len(used) < 20:
        raise AnalysisError(f'only {len(used)} serializer entry points found')
    for name in sorted(used):
        chk.ob(rid, SER, 'CSSSerializer', f'{name} exists (used in {sorted(used[name])[0]})', name in have, 'a DOM class serialises through a method that does not exist: AttributeError at cssText')
    # unused do_* methods are dead code, not a violation of the property: recorded only
    chk.extra['unused_serializer_methods'] = sorted(have - set(used))
