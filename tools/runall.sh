#!/bin/bash
# Dev tool: run every check (tier $1, default quick) in parallel; print one summary line each.
T=${1:-quick}
cd /verif
for i in $(seq -w 1 20); do ( ./check C$i --tier $T > /tmp/runall.C$i.out 2>&1; echo "C$i exit=$? $(grep -c '^KNOWN-FINDING' /tmp/runall.C$i.out) known :: $(tail -1 /tmp/runall.C$i.out | cut -c1-120)" ) & done; wait
rm -f /tmp/runall.C*.out
