#!/venv/bin/python
"""Dev tool: run every check against behaviour-preserving refactorings
(/verif/twins/<name>/patch.diff).  A VIOLATION on a twin is a false alarm of the
check; exit 2 (cannot analyse the new shape) is acceptable, exit 0 ideal.
  twins.py add <name> <srcdir>
  twins.py run [name...]"""
import json, os, shutil, subprocess, sys, tempfile
from pathlib import Path
from concurrent.futures import ThreadPoolExecutor
V = Path(__file__).resolve().parent.parent; T = V / 'twins'
ALL = os.environ.get('TWIN_CHECKS', '').split() or [f'C{i:02d}' for i in range(1, 21)]  # TWIN_CHECKS='C01 C13': only these

def sh(cmd):
    return subprocess.run(cmd, shell=True, text=True, capture_output=True)

def keys_of(pid, t, w):
    e = dict(os.environ, VERIF_REPO=str(t), VERIF_EVIDENCE_DIR=str(w / 'ev'), VERIF_OUT_DIR=str(w / 'out'))
    (w / 'ev').mkdir(exist_ok=True)
    ev = w / 'ev' / f'{pid}.json'
    if ev.exists():
        ev.unlink()
    r = subprocess.run(['./check', pid], cwd=V, env=e, capture_output=True, text=True)
    keys = set()
    if ev.exists():
        keys = set(json.loads(ev.read_text())['coverage'].get('new_violations', []))
    return keys, r.returncode, r.stdout


def run_one(name):
    d = T / name
    w = Path(tempfile.mkdtemp(prefix='twin.')); t = w / 't'
    sh(f'git -C /repo worktree add -q --detach {t} HEAD')
    try:
        base = ''
        if sh(f'git -C {t} apply --check {d / "patch.diff"}').returncode:
            # a later fix: commit touched a refactored function: run the twin on the commit it was written for,
            # and count only what is new with the patch
            base = (d / 'base').read_text().strip() if (d / 'base').exists() else ''
            if not base:
                return name, {'error': 'patch does not apply'}
            sh(f'git -C {t} checkout -q --detach {base}')
            if sh(f'git -C {t} apply --check {d / "patch.diff"}').returncode:
                return name, {'error': f'patch does not apply to HEAD nor to its base {base}'}
        before = {pid: keys_of(pid, t, w) for pid in ALL} if base else {}
        sh(f'git -C {t} apply {d / "patch.diff"}')
        suite = sh(f'/verif/tools/baseline.py {t}').stdout.strip().splitlines()[0]
        res = {'suite': suite + (f' (on base {base})' if base else ''), 'alarms': {}, 'cannot_analyse': {}}
        for pid in ALL:
            keys, rc, out = keys_of(pid, t, w)
            if base:
                bkeys, brc, _ = before[pid]
                new = keys - bkeys
                if rc == 1 and new:
                    res['alarms'][pid] = sorted(new)[:5]
                elif rc == 2 and brc != 2:
                    res['cannot_analyse'][pid] = [l[:260] for l in out.splitlines() if l.startswith(('ANALYSIS-ERROR', 'SHAPE-MISMATCH'))][:4]
            elif rc == 1:
                res['alarms'][pid] = [l[8:260] for l in out.splitlines() if l.startswith('FINDING ')][:5]
            elif rc == 2:
                res['cannot_analyse'][pid] = [l[:260] for l in out.splitlines() if l.startswith(('ANALYSIS-ERROR', 'SHAPE-MISMATCH'))][:4]
        return name, res
    finally:
        sh(f'git -C /repo worktree remove --force {t}'); shutil.rmtree(w, ignore_errors=True)


if sys.argv[1] == 'add':
    name, src = sys.argv[2:4]
    (T / name).mkdir(parents=True, exist_ok=True)
    shutil.copy(Path(src) / 'patch.diff', T / name / 'patch.diff')
    if (Path(src) / 'notes.md').exists():
        shutil.copy(Path(src) / 'notes.md', T / name / 'notes.md')
    (T / name / 'base').write_text(sh('git -C /repo rev-parse --short HEAD').stdout.strip() + '\n')
    print('added', name)
else:
    names = sys.argv[2:] or sorted(p.name for p in T.iterdir() if (p / 'patch.diff').exists())
    with ThreadPoolExecutor(max_workers=int(os.environ.get('SEED_JOBS', '6'))) as ex:
        for name, res in ex.map(run_one, names):
            (T / name / 'result.json').write_text(json.dumps(res, indent=1))
            print(f"{name:8s} suite[{res.get('suite','')[-22:]}] FALSE-ALARMS={sorted(res.get('alarms', {})) or '-'} cannot_analyse={sorted(res.get('cannot_analyse', {})) or '-'} {res.get('error','')}", flush=True)
