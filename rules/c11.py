"""C11 - a rejected DOM mutation changes nothing (commit-last discipline)."""
from __future__ import annotations

import ast

from sa import cfg as cfgmod
from sa.cfg import ENTRY, EXIT_EXC, EXIT_RET, walk_expr
from sa.core import AnalysisError, call_name, text

from .effects import Effects

MUTATOR_NAMES = {
    'insertRule', 'deleteRule', 'add', 'setProperty', 'removeProperty', 'appendSelector', 'appendMedium', 'deleteMedium',
    'setVariable', 'removeVariable', '__setitem__', '__delitem__', 'append',
}
DOM_PREFIXES = ('cssutils/css/', 'cssutils/stylesheets/')
SKIP = ('cssutils/css/cssvalue.py',)

# attributes whose change is not observable through the DOM
SCRATCH = {
    '_readonly': 'guard flag toggled around internal writes',
    '_log': 'logger',
    '__nametoken': 'Property: token kept only to give log messages a position',
}


def mutators(repo, eff):
    out = []
    for name, infos in eff.classes.items():
        for ci in infos:
            if not ci.rel.startswith(DOM_PREFIXES) and not (ci.rel == 'cssutils/util.py' and ci.name in ('_Namespaces',)):
                continue
            if ci.rel in SKIP or ci.name in ('New', 'Constants'):
                continue  # selector.New is a per-parse helper object, not a DOM class
            for an, f in ci.setters.items():
                if an.startswith('_') or isinstance(f, ast.Lambda):
                    continue
                k = eff.fn_key.get(id(f))
                if k:
                    out.append((ci, f'{an} (setter)', k))
            for mn, f in ci.methods.items():
                if mn in MUTATOR_NAMES:
                    k = eff.fn_key.get(id(f))
                    if k:
                        out.append((ci, mn, k))
    # de-duplicate (a setter function may be registered under several names)
    seen, res = set(), []
    for ci, label, k in out:
        if k not in seen:
            seen.add(k)
            res.append((ci, label, k))
    return sorted(res, key=lambda x: x[2])


def node_writes(eff, key, node, direct_nodes, owned=None):
    """Attributes of self a CFG node may write (direct + through self-calls)."""
    rel, q = key
    attrs = set()
    exprs = cfgmod.node_exprs(node)
    for e in exprs:
        for x in walk_expr(e):
            if id(x) in direct_nodes:
                attrs |= direct_nodes[id(x)]
            if isinstance(x, ast.Call) and isinstance(x.func, ast.Attribute):
                base = x.func.value
                if (isinstance(base, ast.Name) and base.id == 'self') or (isinstance(base, ast.Call) and call_name(base) == 'super'):
                    for c in eff.resolve_call(rel, q, x):
                        if eff.same_receiver(key, c):
                            attrs |= eff.writes.get(c, set())
            elif isinstance(x, ast.Call) and isinstance(x.func, ast.Name):
                for c in eff.resolve_call(rel, q, x):
                    if c[0] == rel and '.' in c[1] and c[1].split('.')[0] == q.split('.')[0] and c[1].count('.') >= 2:
                        attrs |= eff.writes.get(c, set())
            elif isinstance(x, (ast.Assign, ast.AugAssign, ast.Delete)):
                for t in (x.targets if not isinstance(x, ast.AugAssign) else [x.target]):
                    if isinstance(t, (ast.Attribute, ast.Subscript)) and isinstance(t.value, ast.Name) and t.value.id == 'self':
                        for c in eff.resolve_store(rel, q, t, delete=isinstance(x, ast.Delete)):
                            attrs |= eff.writes.get(c, set())
                    elif owned and isinstance(t, ast.Attribute) and isinstance(t.value, ast.Name) and t.value.id in owned and not t.attr.startswith('__'):
                        attrs.add(f'<{owned[t.value.id]}>.{t.attr}')
    return attrs - set(SCRATCH)


def owned_locals(fn):
    """Locals that alias objects held by the receiver: assigned from (or
    iterating over) an expression rooted at ``self`` - e.g. the Property
    objects returned by self.getProperties().  name -> description"""
    owned = {}

    def rooted(e):
        for x in ast.walk(e):
            if isinstance(x, ast.Name) and (x.id == 'self' or x.id in owned):
                # only through attribute / call / subscript / reversed() chains
                return True
        return False

    def chain(e):
        while True:
            if isinstance(e, (ast.Attribute, ast.Subscript)):
                e = e.value
            elif isinstance(e, ast.Call):
                if isinstance(e.func, ast.Name) and e.func.id in ('reversed', 'list', 'iter', 'enumerate', 'sorted') and e.args:
                    e = e.args[0]
                elif isinstance(e.func, ast.Attribute):
                    e = e.func.value
                else:
                    return None
            else:
                break
        return e.id if isinstance(e, ast.Name) else None

    for _ in range(3):
        for n in ast.walk(fn):
            src, tgts = None, []
            if isinstance(n, ast.Assign) and len(n.targets) == 1:
                src, tgts = n.value, [n.targets[0]]
            elif isinstance(n, ast.For):
                src, tgts = n.iter, [n.target]
            if src is None:
                continue
            root = chain(src)
            if root == 'self' or root in owned:
                if isinstance(src, ast.Call) and isinstance(src.func, ast.Name) and src.func.id[:1].isupper():
                    continue  # a constructor call builds a fresh object
                for t in tgts:
                    names = [t] if isinstance(t, ast.Name) else [e for e in getattr(t, 'elts', []) if isinstance(e, ast.Name)]
                    for nm in names:
                        owned.setdefault(nm.id, 'object held by the receiver')
    owned.pop('self', None)
    return owned


def callback_owned_writes(fn):
    """Attribute stores, in a production callback, on a local that aliases an object held by the
    receiver (`m = self.media; m.mediaText = ...`): the callback edits live state while later tokens
    can still be rejected."""
    if not isinstance(fn, ast.FunctionDef):
        return set()
    owned = owned_locals(fn)
    out = set()
    for x in ast.walk(fn):
        if isinstance(x, (ast.Assign, ast.AugAssign)):
            for t in (x.targets if isinstance(x, ast.Assign) else [x.target]):
                if isinstance(t, ast.Attribute) and isinstance(t.value, ast.Name) and t.value.id in owned and not t.attr.startswith('__'):
                    out.add(f'<{owned[t.value.id]}>.{t.attr}')
    return out


# (function, raising site) pairs that were examined by hand and cannot raise
# where they stand - one reason each.  Keys use the site description produced by
# the effects engine (callee / message), not local variable names.
EXEMPT = {
    ('CSSImportRule._setCssText', 'self.atkeyword = <derived> (setter)'): 'the value is the text of the IMPORT_SYM token that selected this branch; it normalises to the keyword the rule already has, the only case _setAtkeyword accepts silently',
    ('CSSImportRule._setCssText', 'self.name = <derived> (setter)'): 'the value is None or the result of _stringtokenvalue (a str); _setName rejects only other types',
    ('CSSImportRule._setCssText', 'self.media = <derived> (setter)'): 'the value is a MediaList object built by the _ident callback; _setMedia parses only str arguments',
    ('CSSImportRule._setCssText', 'cssutils.stylesheets.MediaList(...); self.media = <derived> (setter)'): "the media text is the constant 'all'",
    ('CSSNamespaceRule._setCssText', 'self.atkeyword = <derived> (setter)'): 'the value is the text of the NAMESPACE_SYM token; it normalises to the keyword the rule already has',
    ('CSSStyleSheet._setCssText', 'self._updateVariables(...)'): 're-sets variables that were parsed and accepted once; setVariable cannot reject them',
    ('CSSStyleSheet.insertRule', 'self._updateVariables(...)'): 're-sets variables that were parsed and accepted once; setVariable cannot reject them',
    ('MarginRule._setCssText', 'self.margin = <derived> (setter)'): "the value was matched by the '@ margin' production, whose predicate is membership in MarginRule.margins - the same test _setMargin applies",
    ('MarginRule._setCssText', "self._log.error('No margin @keyword for this')"): "unreachable when the parse succeeded: the '@ margin' production is mandatory and stores 'margin'",
    ('Property._setCssText', 'self.validate(...)'): 'validation reports with neverraise=True; the remaining site raises Exception for a failing user-supplied validator function, not one of the DOM exceptions the property is about',
    ('Property.priority', "self._log.error('Property: No priority in a MediaQuery - ignored.')"): "the two attributes written before it are always '' for a media-query property (this setter is their only writer), so nothing observable changes",
    ('MarginRule._setCssText', 'CSSStyleDeclaration(...); self.style = <derived> (setter)'): "the block is constructed without text; CSSStyleDeclaration._setCssText('') has no token to reject, and _setStyle parses only str arguments",
    ('CSSStyleSheet._setCssText', 'self._cleanNamespaces(...)'): 'unconfirmed candidate, no rejecting input found: the clean-up removes only rules whose (prefix, URI) pair is shadowed, deleteRule refuses only the last rule of a URI that selectors use, and selectors resolve prefixes through the same effective mapping (recorded in DESIGN.md as not decided)',
    ('CSSStyleSheet.insertRule', 'self._cleanNamespaces(...)'): 'unconfirmed candidate, no rejecting input found (see CSSStyleSheet._setCssText)',
    ('CSSStyleDeclaration.setProperty', '<Property>.priority = <derived> (setter)'): 'the value is the priority of the temporary Property built (and thereby validated) at the top of the function; a raw parameter would be described as <input>',
    ('_Namespaces.__setitem__', '<CSSNamespaceRule>.prefix = <input> (setter)'): 'the rule was looked up by this very prefix, so the store re-assigns the prefix it already has; the preceding namespaceURI store either raises before writing (different URI) or re-assigns the same URI',
    ('MediaQuery._setMediaText', 'self.mediaType = <derived> (setter)'): "the value was matched by the 'media_type' production, whose predicate is membership in MEDIA_TYPES - the same test _setMediaType applies",
}


def bool_flags(fn):
    """Local names that are only ever assigned the constants True / False."""
    vals = {}
    for n in ast.walk(fn):
        if isinstance(n, ast.Assign):
            for t in n.targets:
                for x in ([t] if not isinstance(t, (ast.Tuple, ast.List)) else t.elts):
                    if isinstance(x, ast.Name):
                        vals.setdefault(x.id, []).append(n.value if not isinstance(t, (ast.Tuple, ast.List)) else None)
        elif isinstance(n, (ast.AugAssign, ast.For, ast.comprehension, ast.NamedExpr)):
            tgt = n.target
            for x in ast.walk(tgt):
                if isinstance(x, ast.Name):
                    vals.setdefault(x.id, []).append(None)
    params = {a.arg for a in fn.args.args + fn.args.kwonlyargs}
    return {k for k, vs in vals.items() if k not in params and all(isinstance(v, ast.Constant) and isinstance(v.value, bool) for v in vs)}


def flag_feasible(g, fn, wid, rid_, avoid):
    """Is the raising node reachable from the write when the value of each boolean flag is
    tracked along the path (one flag at a time)?  `found = True` next to the write and a report
    under `if not found:` is the idiom this recognises."""
    for flag in sorted(bool_flags(fn)):
        tests = {}
        for n in g.nodes:
            if n.kind == 'if':
                t = n.stmt.test
                if isinstance(t, ast.Name) and t.id == flag:
                    tests[n.id] = True
                elif isinstance(t, ast.UnaryOp) and isinstance(t.op, ast.Not) and isinstance(t.operand, ast.Name) and t.operand.id == flag:
                    tests[n.id] = False
        if not tests:
            continue
        sets = {}
        for n in g.nodes:
            if n.kind == 'stmt' and isinstance(n.stmt, ast.Assign) and any(isinstance(t, ast.Name) and t.id == flag for t in n.stmt.targets):
                sets[n.id] = n.stmt.value.value
        start = (wid, sets.get(wid, None))
        seen = {start}
        todo = [start]
        found = False
        while todo:
            nid, val = todo.pop()
            for t, lab in g.succ[nid]:
                if nid == wid and lab in ('exc', 'raise'):
                    continue
                if nid in tests and val is not None:
                    taken = 'true' if (val == tests[nid]) else 'false'
                    if lab.split('|')[0] in ('true', 'false') and lab.split('|')[0] != taken:
                        continue
                if t == rid_:
                    found = True
                    break
                try:
                    node = g.nodes[t]
                except (KeyError, IndexError, TypeError):
                    node = None
                if node is not None and avoid(node):
                    continue
                nv = sets.get(t, val) if t in sets else val
                st = (t, nv)
                if st not in seen:
                    seen.add(st)
                    todo.append(st)
            if found:
                break
        if not found:
            return False
    return True


def analyse(eff, key):
    """Yield (write description, raise description, path) candidates."""
    rel, q = key
    fn = eff.fn_node[key]
    # only sites that can raise something other than the read-only guard count:
    # R11.b shows the guard is passed before the first write, and the flag does
    # not change in between
    g = cfgmod.CFG(fn, may_raise=lambda n: eff.node_hard_raise(rel, n))
    direct = {}
    for n, a in eff.direct_writes(key):
        direct.setdefault(id(n), set()).add(a)
    owned = owned_locals(fn)
    W = {}
    for n in g.nodes:
        if n.stmt is None or n.kind == 'def':
            continue
        a = node_writes(eff, key, n, direct, owned)
        if a:
            W[n.id] = a
    R = set()
    for n in g.nodes:
        if n.kind == 'raise' and Effects.is_dom_raise(n.stmt):
            R.add(n.id)
        elif any(lab == 'exc' for _, lab in g.succ[n.id]):
            R.add(n.id)
    out = []
    for wid, attrs in W.items():
        # nodes that overwrite everything this node wrote stop the search
        def avoid(n, attrs=attrs, wid=wid):
            if n.id == wid or n.id not in W:
                return False
            return n.kind == 'stmt' and isinstance(n.stmt, ast.Assign) and attrs <= W[n.id] and all(isinstance(t, ast.Attribute) for t in n.stmt.targets)

        seen = g.reachable([wid], avoid=avoid, labels=lambda a, b, lab, wid=wid: not (a == wid and lab in ('exc', 'raise')))
        for rid_ in R:
            if rid_ == wid or rid_ not in seen:
                continue
            # does the exception leave the function (not caught locally)?
            esc = g.reachable([rid_], labels=lambda a, b, lab, r=rid_: (a != r) or lab in ('exc', 'raise'))
            if EXIT_EXC not in esc:
                continue
            if not flag_feasible(g, fn, wid, rid_, avoid):
                continue  # every path is cut by a boolean flag the write path sets
            out.append((g.describe(wid), sorted(attrs), g.describe(rid_), eff.site_desc(rel, g.nodes[rid_].stmt) if g.nodes[rid_].kind != 'raise' else ['raise']))
    # a single call that both writes and may raise through *different* callbacks
    for n in g.nodes:
        if n.stmt is None or n.kind == 'def':
            continue
        wid, attrs = n.id, W.get(n.id, set())
        for c in cfgmod.calls_at(n):
            if call_name(c) == 'self._parse' and wid in R:
                cbs = eff._parse_callbacks().get(id(c), [])
                writers = [cb for cb in cbs if id(cb.target) in eff.fn_key and eff.same_receiver(key, eff.fn_key[id(cb.target)]) and (eff.writes.get(eff.fn_key[id(cb.target)]) or callback_owned_writes(cb.target))]
                attrs = set(attrs) | {a for cb in writers for a in callback_owned_writes(cb.target)}
                raisers = [cb for cb in cbs if id(cb.target) in eff.fn_key and eff.may_raise(eff.fn_key[id(cb.target)])]
                if writers and raisers:
                    esc = g.reachable([wid], labels=lambda a, b, lab, r=wid: (a != r) or lab in ('exc', 'raise'))
                    if EXIT_EXC in esc:
                        out.append((f'callbacks of {text(c.func)} ({", ".join(sorted({str(w.key) for w in writers}))})', sorted(attrs), g.describe(wid)[:60], ['a later token is rejected by another callback']))
    return out


def run(chk):
    eff = Effects.get(chk.repo)
    eff.compute_writes(scratch=set(SCRATCH))
    chk.attempt(r11a, chk, eff)
    chk.attempt(r11b, chk, eff)
    chk.attempt(r11c, chk)
    from .c15 import eval_delete_rule

    chk.rule('R11.d', 'a refused deleteRule changes nothing, decided by evaluation: CSSStyleSheet.deleteRule is evaluated over a model sheet for every index (negative ones included), rule objects and foreign objects (shared with R15.b)')
    chk.attempt(eval_delete_rule, chk, 'R11.d')


def r11a(chk, eff, rid='R11.a'):
    chk.rule(rid, 'commit last: on the CFG (with exceptional edges from the may-raise-DOM summaries) of every public mutator of the DOM classes, no statement that may raise a DOM exception is reachable after a statement that writes state rooted at the receiver, unless the exception is caught locally or the written attributes are overwritten (restored) on the way')
    ms = mutators(chk.repo, eff)
    if len(ms) < 60:
        raise AnalysisError(f'only {len(ms)} public mutators found (>= 60 confirmed by hand)')
    chk.extra['mutators_analysed'] = len(ms)
    chk.extra['functions_with_may_raise_summary'] = sum(1 for v in eff._raises.values() if v)
    for ci, label, key in ms:
        rel, q = key
        cands = analyse(eff, key)
        if not cands:
            chk.ob(rid, rel, q, 'no DOM exception can be raised after the first write', True, trivial=not eff.may_raise(key))
            continue
        # one obligation per raising site (described by callee / message, not by
        # local names); the first write that precedes it is quoted in the detail
        by_site = {}
        for w, attrs, r, sites in cands:
            by_site.setdefault('; '.join(sites), (w, attrs, r))
        for sd, (w, attrs, r) in by_site.items():
            construct = f'no rejection by {sd} after a write'
            ex = EXEMPT.get((q, sd))
            if ex:
                chk.ob(rid, rel, q, construct, True, 'exempt: ' + ex, trivial=True)
            else:
                chk.ob(rid, rel, q, construct, False,
                       f'`{w[:80]}` writes {attrs[:4]} of the receiver and `{r[:80]}` may still raise a DOM exception: a rejected call leaves the object changed')


LINK_SETTERS = {
    ('_setParentRule',): 'parentRule is the container back-link maintained by the owning rule when a (possibly read-only) block is attached; it is not content of the block',
    ('_setValidating',): 'validating is a reporting switch; it changes no stored content',
}


def r11b(chk, eff, rid='R11.b'):
    chk.rule(rid, 'read-only guard first: in classes whose constructor accepts `readonly`, every public mutator passes self._checkReadonly() (directly or through a callee that starts with it) on every path before its first write to the receiver')
    ms = mutators(chk.repo, eff)
    n = 0
    for ci, label, key in ms:
        init = eff.mro_lookup(ci, '__init__')
        if init is None or 'readonly' not in [a.arg for a in init.args.args + init.args.kwonlyargs]:
            continue
        rel, q = key
        fn = eff.fn_node[key]
        g = cfgmod.CFG(fn)
        direct = {}
        for nd, a in eff.direct_writes(key):
            direct.setdefault(id(nd), set()).add(a)
        W = [nd for nd in g.nodes if nd.stmt is not None and nd.kind != 'def' and node_writes(eff, key, nd, direct)]
        if not W:
            continue
        n += 1

        def guard(nd):
            for c in cfgmod.calls_at(nd):
                if call_name(c) == 'self._checkReadonly':
                    return True
                for callee in eff.resolve_call(rel, q, c):
                    f2 = eff.fn_node.get(callee)
                    if f2 is not None and _starts_with_guard(eff, callee, f2):
                        return True
            # a store through a guarded setter of the same object
            if nd.kind == 'stmt' and isinstance(nd.stmt, ast.Assign):
                for t in nd.stmt.targets:
                    for callee in eff.resolve_store(rel, q, t) if isinstance(t, ast.Attribute) and text(t.value) == 'self' else []:
                        f2 = eff.fn_node.get(callee)
                        if f2 is not None and _starts_with_guard(eff, callee, f2):
                            return True
            return False

        seen = g.reachable([ENTRY], avoid=guard)
        bad = [w for w in W if w.id in seen and not guard(w)]
        if bad and (q.split('.')[-1], ) in LINK_SETTERS:
            chk.ob(rid, rel, q, 'link / switch setter (not content)', True, 'exempt: ' + LINK_SETTERS[(q.split('.')[-1],)], trivial=True)
        elif bad:
            chk.ob(rid, rel, q, f'_checkReadonly() before `{g.describe(bad[0].id)[:70]}`', False,
                   'a read-only object is modified: the write is reachable without passing the guard')
        else:
            chk.ob(rid, rel, q, '_checkReadonly() precedes every write', True)
    if n < 30:
        raise AnalysisError(f'only {n} mutators of readonly-capable classes found')
    # the flag itself: a constructor that accepts `readonly` must store it
    nc = 0
    for name, infos in eff.classes.items():
        for ci in infos:
            if not ci.rel.startswith(DOM_PREFIXES) or ci.rel in SKIP:
                continue
            init = ci.methods.get('__init__')
            if init is None or 'readonly' not in [a.arg for a in init.args.args + init.args.kwonlyargs]:
                continue
            nc += 1
            stores = [x for x in ast.walk(init) if isinstance(x, ast.Assign) and any(text(t) == 'self._readonly' for t in x.targets) and text(x.value) == 'readonly']
            passes = [c for c in ast.walk(init) if isinstance(c, ast.Call) and call_name(c).endswith('__init__') and (any(text(a) == 'readonly' for a in c.args) or any(k.arg == 'readonly' and text(k.value) == 'readonly' for k in c.keywords))]
            ok = bool(stores or passes)
            if ok and stores:
                # it must be the last thing that touches the flag
                last = [x for x in ast.walk(init) if isinstance(x, ast.Assign) and any(text(t) == 'self._readonly' for t in x.targets)]
                ok = max(x.lineno for x in last) == max(x.lineno for x in stores)
            if ci.name == 'CSSRule':
                # abstract base: it resets the flag so that the concrete rule's
                # constructor can set its attributes, and each concrete rule
                # stores the argument itself as its last step (checked here too)
                chk.ob(rid, ci.rel, f'{ci.name}.__init__', 'base class leaves the flag to the concrete rule', True, trivial=True)
                continue
            chk.ob(rid, ci.rel, f'{ci.name}.__init__', 'the readonly argument is stored in self._readonly', ok,
                   'the constructor accepts readonly but never records it: _checkReadonly() finds no flag and the object accepts every mutation')
    if nc < 15:
        raise AnalysisError(f'only {nc} constructors with a readonly parameter found')


_GUARD_MEMO = {}


def _starts_with_guard(eff, key, fn, depth=0):
    """Does every normal return of this function pass self._checkReadonly()
    (directly or through a self-call that itself always passes it)?"""
    if key in _GUARD_MEMO:
        return _GUARD_MEMO[key]
    if depth > 3 or isinstance(fn, ast.Lambda):
        return False
    _GUARD_MEMO[key] = False  # cycles
    rel, q = key
    g = cfgmod.CFG(fn)

    def guard(nd):
        for c in cfgmod.calls_at(nd):
            if call_name(c) == 'self._checkReadonly':
                return True
            f = c.func
            if isinstance(f, ast.Attribute) and ((isinstance(f.value, ast.Name) and f.value.id == 'self') or (isinstance(f.value, ast.Call) and call_name(f.value) == 'super')):
                for callee in eff.resolve_call(rel, q, c):
                    f2 = eff.fn_node.get(callee)
                    if f2 is not None and f2 is not fn and _starts_with_guard(eff, callee, f2, depth + 1):
                        return True
        return False

    seen = g.reachable([ENTRY], avoid=guard)
    ok = EXIT_RET not in seen
    _GUARD_MEMO[key] = ok
    return ok


def r11c(chk, rid='R11.c'):
    chk.rule(rid, 'argument preparation of the nested rule lists, decided by evaluation: CSSRuleRules._prepareInsertRule is evaluated on its syntax tree for every kind of argument - rule text that parses to no rule, to one rule, to two rules or to something that is no rule; a rule object; a CSSRuleList; any other object - and for indexes in and out of range: nothing is inserted while an argument is only being prepared (the one documented exception is a CSSRuleList, inserted rule by rule), text must denote exactly one rule, the index is checked before anything else')
    chk.assume('R11.c: a temporary sheet is modelled by the list of rules its text denotes')
    from sa.absint import Evaluator, Obj, Raised, Record

    rel = 'cssutils/css/cssrule.py'
    m = chk.repo.mod(rel)
    fn = m.get('CSSRuleRules._prepareInsertRule')

    class RuleM(Obj):
        pass

    class RuleListM(list):
        @property
        def length(self):
            return len(self)

    class ArgList(list):
        pass

    r1, r2 = RuleM(tag='r1'), RuleM(tag='r2')
    texts = {'no rule': [], 'one rule': [r1], 'two rules': [r1, r2], 'not a rule': ['junk']}
    n = 0
    for label, arg, index, want in (
        [(f'text denoting {k}', k, None, (v[0], 2) if k == 'one rule' else (False, False)) for k, v in texts.items()]
        + [('a rule object', r1, 1, (r1, 1)), ('another object', 42, None, (False, False)), ('a rule object at an index beyond the end', r1, 5, 'IndexSizeErr'), ('a rule object at a negative index', r1, -1, 'IndexSizeErr')]
    ):
        inserted, errors = [], []

        def sheet():
            sh = Record(cssRules=[])
            return sh

        class Sheet(Record):
            def __setattr__(self, k, v):
                if k == 'cssText':
                    object.__setattr__(self, 'cssRules', ArgList(texts[v]))  # the rule list of a sheet is a CSSRuleList
                object.__setattr__(self, k, v)

        me = Record(_checkReadonly=lambda: None, _cssRules=RuleListM([RuleM(tag='old1'), RuleM(tag='old2')]), insertRule=lambda r, i=None: inserted.append((getattr(r, 'tag', r), i)),
                    _log=Record(error=lambda *a, **k: errors.append(a)), __class__=Record(__name__='CSSMediaRule'))
        intr = {'cssutils': Record(css=Record(CSSStyleSheet=lambda *a, **k: Sheet(cssRules=ArgList()), CSSRule=RuleM, CSSRuleList=ArgList)), 'self._log.error': me._log.error,
                'xml': Record(dom=Record(IndexSizeErr='IndexSizeErr'))}
        got = Evaluator(fn, intrinsics=intr, model_types=(RuleListM, ArgList), module=m, cls='CSSRuleRules').run(self=me, rule=arg, index=index)
        n += 1
        if isinstance(want, str):
            ok = isinstance(got, Raised) and got.kind == want and not inserted
        else:
            ok = not isinstance(got, Raised) and tuple(got) == want and not inserted and (bool(errors) == (want == (False, False)))
        chk.ob(rid, rel, 'CSSRuleRules._prepareInsertRule', f'{label}: ' + ('rejected with ' + want if isinstance(want, str) else 'rejected, nothing inserted' if want == (False, False) else 'handed on, nothing inserted yet'), ok,
               f'returns {got!r}, inserted {inserted}, errors reported: {len(errors)} - preparing an argument must not change the list: what is inserted here stays when a later rule of the same call is refused')
    # a CSSRuleList argument: its members are inserted one by one; a refusal of a later member must not
    # leave the earlier ones behind
    inserted = []

    def refusing(r, i=None):
        if getattr(r, 'tag', '') == 'r2':
            from sa.absint import _Raise
            raise _Raise('HierarchyRequestErr')
        inserted.append(r.tag)

    me = Record(_checkReadonly=lambda: None, _cssRules=RuleListM([RuleM(tag='old1')]), insertRule=refusing, _log=Record(error=lambda *a, **k: None), __class__=Record(__name__='CSSMediaRule'))
    intr = {'cssutils': Record(css=Record(CSSStyleSheet=lambda *a, **k: None, CSSRule=RuleM, CSSRuleList=ArgList)), 'self._log.error': me._log.error, 'xml': Record(dom=Record(IndexSizeErr='IndexSizeErr'))}
    got = Evaluator(fn, intrinsics=intr, model_types=(RuleListM, ArgList), module=m, cls='CSSRuleRules').run(self=me, rule=ArgList([r1, r2]), index=0)
    chk.ob(rid, rel, 'CSSRuleRules._prepareInsertRule', 'a CSSRuleList whose second member is refused leaves nothing behind', not (isinstance(got, Raised) and inserted),
           f'the call ends in {got!r} after {inserted} had been inserted: a rejected insertRule(CSSRuleList) leaves its first members in the list')
    if n < 8:
        raise AnalysisError('R11.c: cases missing')
