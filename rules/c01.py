"""C01 - parsing never raises, never hangs (structural necessary conditions)."""
from __future__ import annotations

import ast
import re

from sa import cfg as cfgmod
from sa.cfg import ENTRY, EXIT_RET, walk_expr
from sa.core import AnalysisError, call_name, const, text

from . import tokrules
from .callbacks import callbacks

PARSE = 'cssutils/parse.py'
SER = 'cssutils/serialize.py'


def run(chk):
    r01a(chk)
    r01b(chk)
    tokrules.r01c(chk)
    tokrules.r01d(chk, thorough=chk.tier == 'thorough')
    if chk.tier == 'thorough':
        from .c13 import profile_eda

        profile_eda(chk, 'R01.d')
    r01e(chk)
    r01f(chk)
    from .c08 import r08c

    r08c(chk, 'R01.g')


# ---------------------------------------------------------------------------
DOM_CTOR = re.compile(r'^(cssutils\.)?(css|stylesheets)\.[A-Z]\w+$')


def _is_switch_on(call):
    return call_name(call) == 'self.__parseSetting' and call.args and const(call.args[0]) is True


def _is_switch_off(call):
    return call_name(call) == 'self.__parseSetting' and call.args and const(call.args[0]) is False


def dom_nodes(g):
    """CFG nodes that construct or drive DOM objects."""
    bound = set()
    for n in g.nodes:
        if n.kind == 'stmt' and isinstance(n.stmt, ast.Assign):
            for c in walk_expr(n.stmt.value):
                if isinstance(c, ast.Call) and DOM_CTOR.match(call_name(c)):
                    for t in n.stmt.targets:
                        if isinstance(t, ast.Name):
                            bound.add(t.id)
    out = []
    for n in g.nodes:
        for c in cfgmod.calls_at(n):
            cn = call_name(c)
            if DOM_CTOR.match(cn) or cn.split('.')[0] in bound:
                out.append(n)
                break
    return out


def r01a(chk, rid='R01.a'):
    chk.rule(rid, 'log-mode window: in CSSParser.parseString/parseStyle every path from entry to a statement that constructs or drives a DOM object passes __parseSetting(True); parseFile/parseUrl touch the DOM only through parseString')
    for name in ('parseString', 'parseStyle'):
        fn = chk.repo.fn(PARSE, f'CSSParser.{name}')
        g = cfgmod.CFG(fn)
        targets = dom_nodes(g)
        if not targets:
            raise AnalysisError(f'CSSParser.{name}: no DOM construction found')
        on = lambda n: any(_is_switch_on(c) for c in cfgmod.calls_at(n))  # noqa: E731
        if not any(on(n) for n in g.nodes):
            chk.ob(rid, PARSE, f'CSSParser.{name}', 'switches to the parse error mode', False, '__parseSetting(True) is never called')
            continue
        for t in targets:
            seen = g.reachable([ENTRY], avoid=on)
            ok = t.id not in seen
            chk.ob(rid, PARSE, f'CSSParser.{name}', f'`{g.describe(t.id)}` runs in parse error mode', ok,
                   '' if ok else 'reachable without the switch: ' + ' -> '.join(g.path(seen, {ENTRY}, t.id)[-5:]))
    for name in ('parseFile', 'parseUrl'):
        fn = chk.repo.fn(PARSE, f'CSSParser.{name}')
        g = cfgmod.CFG(fn)
        direct = [n for n in dom_nodes(g)]
        chk.ob(rid, PARSE, f'CSSParser.{name}', 'reaches the DOM only through parseString', not direct,
               'constructs DOM objects itself: ' + '; '.join(g.describe(n.id) for n in direct))
        calls = [c for n in g.nodes for c in cfgmod.calls_at(n) if call_name(c) == 'self.parseString']
        chk.ob(rid, PARSE, f'CSSParser.{name}', 'delegates to self.parseString', bool(calls), 'no call of parseString')
    # the switch itself
    fn = chk.repo.fn(PARSE, 'CSSParser.__parseSetting')
    stores = [text(n) for n in ast.walk(fn) if isinstance(n, ast.Assign)]
    chk.ob(rid, PARSE, 'CSSParser.__parseSetting', 'parse=True selects the parser\'s own raising flag',
           any('raiseExceptions = self.__parseRaising' in s for s in stores), str(stores))
    init = chk.repo.fn(PARSE, 'CSSParser.__init__')
    dflt = [text(n) for n in ast.walk(init) if isinstance(n, ast.Assign) and '__parseRaising' in text(n.targets[0])]
    chk.ob(rid, PARSE, 'CSSParser.__init__', 'default parse mode is non-raising', 'self.__parseRaising = False' in dflt, str(dflt))


# ---------------------------------------------------------------------------


def returns_state(target):
    """(ok, reason) - every path of a production callback returns a value that
    is not None."""
    if isinstance(target, ast.Lambda):
        b = target.body
        if isinstance(b, ast.Constant) and b.value is None:
            return False, 'lambda returns None'
        return True, ''
    g = cfgmod.CFG(target)
    reach = g.reachable([ENTRY])
    for a, lst in g.succ.items():
        if a != ENTRY and a not in reach:
            continue
        for b, lab in lst:
            if b == EXIT_RET and 'falloff' in lab:
                return False, f'path falls off the end after `{g.describe(a)}` (returns None)'
    for n in g.nodes:
        if n.kind == 'return' and n.id in reach:
            v = n.stmt.value
            if v is None or (isinstance(v, ast.Constant) and v.value is None):
                return False, f'`{text(n.stmt)}` returns None'
    return True, ''


def r01b(chk, rid='R01.b'):
    chk.rule(rid, 'every production callback handed to Base._parse (dict values, default=, default productions, New.productions) returns the next parser state on every CFG path: no fall-off, no bare return, no None')
    sites, cbs = callbacks(chk.repo)
    seen = set()
    for cb in cbs:
        key = (cb.rel, cb.qual, cb.key if isinstance(cb.target, ast.Lambda) else '')
        ok, why = returns_state(cb.target)
        label = f"{cb.owner}: '{cb.key}' -> {text(cb.expr) if not isinstance(cb.target, ast.Lambda) else text(cb.target)}"
        chk.ob(rid, cb.rel, cb.owner, label, ok,
               why + ' - Base._parse rebinds `expected` to the result; the next callback compares or concatenates it',
               trivial=key in seen)
        seen.add(key)
    chk.require(rid, 70, 'production callbacks')
    if len(sites) < 13:
        raise AnalysisError(f'only {len(sites)} Base._parse call sites found (13 confirmed by hand)')
    chk.extra['parse_sites'] = len(sites)


# ---------------------------------------------------------------------------
RECURSIVE_TEXT = ('cssText', 'mediaText', 'selectorText')


def ser_cycle_functions(repo):
    """Serializer functions on the recursive value cycle: the do_* methods the
    value classes' cssText getters call, plus Out.append."""
    vm = repo.mod('cssutils/css/value.py')
    names = set()
    for n in ast.walk(vm.tree):
        if isinstance(n, ast.Attribute) and text(n.value) == 'cssutils.ser' and n.attr.startswith('do_'):
            names.add(n.attr)
    if len(names) < 5:
        raise AnalysisError('value.py: serializer entry points of the value classes not found')
    sm = repo.mod(SER)
    fns = [('Out.append', sm.get('Out.append'))]
    for nme in sorted(names):
        q = f'CSSSerializer.{nme}'
        if not sm.has(q):
            raise AnalysisError(f'serialize.py: {q} referenced from value.py is missing')
        fns.append((q, sm.get(q)))
    return fns


def _evals(node_exprs_list, var):
    """Number of evaluations of var.<recursive text> at a CFG node."""
    k = 0
    attrs = set()
    for e in node_exprs_list:
        for n in walk_expr(e):
            if isinstance(n, ast.Attribute) and isinstance(n.ctx, ast.Load) and n.attr in RECURSIVE_TEXT and text(n.value) == var:
                k += 1
                attrs.add(n.attr)
            elif isinstance(n, ast.Call) and call_name(n) in ('hasattr', 'getattr') and len(n.args) >= 2:
                if text(n.args[0]) == var and const(n.args[1]) in RECURSIVE_TEXT:
                    k += 1
                    attrs.add(const(n.args[1]))
    return k, attrs


def max_evals(fn):
    """For each variable, the maximal number of evaluations of its computed
    text along one CFG path without the variable being rebound (capped at 2).
    Returns {(var, attr): witness description} for counts >= 2."""
    g = cfgmod.CFG(fn)
    vars_ = set()
    for n in ast.walk(fn):
        if isinstance(n, ast.Attribute) and n.attr in RECURSIVE_TEXT and isinstance(n.value, ast.Name):
            vars_.add(n.value.id)
        if isinstance(n, ast.Call) and call_name(n) in ('hasattr', 'getattr') and len(n.args) >= 2 and const(n.args[1]) in RECURSIVE_TEXT and isinstance(n.args[0], ast.Name):
            vars_.add(n.args[0].id)
    bad = {}
    for var in sorted(vars_):
        for attr in RECURSIVE_TEXT:
            # per node: evaluations of var.attr, and whether var is rebound
            ev, kill = {}, {}
            for n in g.nodes:
                exprs = cfgmod.node_exprs(n)
                k = 0
                for e in exprs:
                    for x in walk_expr(e):
                        if isinstance(x, ast.Attribute) and isinstance(x.ctx, ast.Load) and x.attr == attr and text(x.value) == var:
                            k += 1
                        elif isinstance(x, ast.Call) and call_name(x) in ('hasattr', 'getattr') and len(x.args) >= 2 and text(x.args[0]) == var and const(x.args[1]) == attr:
                            k += 1
                ev[n.id] = k
                kill[n.id] = any(isinstance(x, ast.Name) and x.id == var and isinstance(x.ctx, ast.Store) for e in exprs for x in walk_expr(e))
            # forward max-count dataflow, saturating at 2
            cnt = {n.id: -1 for n in g.nodes}
            cnt[ENTRY] = 0
            work = [ENTRY]
            first = {}
            while work:
                a = work.pop()
                out = min(2, cnt[a] + ev[a])
                if ev[a] and cnt[a] + ev[a] >= 2 and (var, attr) not in bad:
                    bad[(var, attr)] = g.describe(a)
                if kill[a]:
                    out = 0
                for b, _ in g.succ[a]:
                    if out > cnt[b]:
                        cnt[b] = out
                        work.append(b)
    return bad


def r01e(chk, rid='R01.e'):
    chk.rule(rid, 'on the recursive serializer cycle (do_* methods called by the value classes + Out.append) the computed text of an item is evaluated at most once per CFG path; hasattr(x, "cssText") counts because cssText is a property on every DOM class')
    fns = ser_cycle_functions(chk.repo)
    for q, fn in fns:
        bad = max_evals(fn)
        if not bad:
            chk.ob(rid, SER, q, 'each item text evaluated at most once per path', True)
        for (var, attr), where in sorted(bad.items()):
            chk.ob(rid, SER, q, f'{var}.{attr} evaluated at most once per path', False,
                   f'second evaluation at `{where}`: every nesting level doubles the work (2^depth serialisation time)')
    chk.require(rid, 6, 'serializer functions on the value cycle')


# ---------------------------------------------------------------------------
HELPERS = {'_stringtokenvalue': 'STRING', '_uritokenvalue': 'URI'}


def r01f(chk, rid='R01.f'):
    chk.rule(rid, 'token-value helpers are applied only to tokens of the matching type: each call of _stringtokenvalue/_uritokenvalue lies in a callback registered under STRING/URI, in a helper called only from such callbacks, or under a condition that tests the token type')
    sites, cbs = callbacks(chk.repo)
    registered = {}
    for cb in cbs:
        if not isinstance(cb.target, ast.Lambda):
            registered.setdefault(id(cb.target), set()).add(cb.key)
    n_sites = 0
    for rel, m in chk.repo.modules.items():
        if rel in ('cssutils/sac.py', 'cssutils/css/cssvalue.py', 'cssutils/util.py'):
            continue
        for n in ast.walk(m.tree):
            if not (isinstance(n, ast.Call) and isinstance(n.func, ast.Attribute) and n.func.attr in HELPERS):
                continue
            want = HELPERS[n.func.attr]
            n_sites += 1
            fn = m.enclosing_def(n)
            ok, how = False, ''
            if fn is not None and want in registered.get(id(fn), ()):
                ok, how = True, f'callback registered under {want}'
            if not ok and _guarded_by_type(m, n, want):
                ok, how = True, 'under a condition that tests the token type'
            if not ok and fn is not None and isinstance(fn, ast.FunctionDef):
                # helper called only from typed places
                outer = m.enclosing_def(fn)
                if outer is not None:
                    callers = [c for c in ast.walk(outer) if isinstance(c, ast.Call) and isinstance(c.func, ast.Name) and c.func.id == fn.name]
                    if callers and all(_typed_caller(m, c, want, registered) for c in callers):
                        ok, how = True, f'helper {fn.name} called only with {want} tokens'
            chk.ob(rid, rel, m.qualname_of(n), text(m.enclosing_stmt(n)), ok,
                   how or f'{n.func.attr} indexes value[0] / slices the token text: applied before the token type is known it raises IndexError/TypeError on None, EOF or empty tokens')
    if n_sites < 10:
        raise AnalysisError(f'only {n_sites} token-value helper sites found (10 confirmed by hand)')


def _mentions_type(test, want):
    t = text(test)
    return bool(re.search(r"(_prods\.%s\b|'%s'|\"%s\")" % (want, want, want), t)) and ('_type(' in t or 'typ' in t.lower())


def _guarded_by_type(m, node, want):
    child = m.enclosing_stmt(node)
    n = m.parents.get(child)
    while n is not None and not isinstance(n, (ast.FunctionDef, ast.Lambda, ast.ClassDef)):
        if isinstance(n, ast.If) and child in n.body and _mentions_type(n.test, want):
            # positive test only: `==`/`in`, not `!=`
            if not any(isinstance(o, (ast.NotEq, ast.NotIn)) for c in ast.walk(n.test) if isinstance(c, ast.Compare) for o in c.ops):
                return True
        child = n
        n = m.parents.get(n)
    return False


def _typed_caller(m, call, want, registered):
    fn = m.enclosing_def(call)
    if fn is not None and want in registered.get(id(fn), ()):
        # the token passed must be the callback's own token
        return True if any(text(a) == 'token' for a in call.args) else _guarded_by_type(m, call, want)
    return _guarded_by_type(m, call, want)
