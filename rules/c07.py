"""C07 - CSS codec: round trip, CSS 2.1 encoding detection, chunking invariance."""
from __future__ import annotations

import ast
import itertools

from sa import cfg as cfgmod
from sa.absint import Evaluator, compared_constants
from sa.cfg import ENTRY, EXIT_RET
from sa.core import AnalysisError, call_name, const, text

CODEC = 'cssutils/codec.py'


def run(chk):
    chk.attempt(r07a, chk)
    chk.attempt(r07b, chk)
    chk.attempt(r07c, chk)
    chk.attempt(r07d, chk)
    chk.attempt(r07e, chk)
    chk.attempt(r07f, chk)
    chk.attempt(r07g, chk)


# ---------------------------------------------------------------------------
# oracle for detectencoding_str: CSS 2.1 section 4.4 (and the table at the top
# of codec.py).  signature bytes, answer, explicit
SIGS = [
    ('utf-8-sig', (0xEF, 0xBB, 0xBF), ('utf-8-sig', True)),
    ('utf-16 LE BOM', (0xFF, 0xFE), ('utf-16', True)),
    ('utf-16 BE BOM', (0xFE, 0xFF), ('utf-16', True)),
    ('utf-16-le', (0x40, 0x00, 0x63, 0x00), ('utf-16-le', False)),
    ('utf-16-be', (0x00, 0x40), ('utf-16-be', False)),
    ('utf-32 LE BOM', (0xFF, 0xFE, 0x00, 0x00), ('utf-32', True)),
    ('utf-32 BE BOM', (0x00, 0x00, 0xFE, 0xFF), ('utf-32', True)),
    ('utf-32-le', (0x40, 0x00, 0x00, 0x00), ('utf-32-le', False)),
    ('utf-32-be', (0x00, 0x00, 0x00, 0x40), ('utf-32-be', False)),
    ('@charset', (0x40, 0x63, 0x68, 0x61), None),
]
PREFIX = b'@charset "'


def oracle(data: bytes, final: bool):
    """Set of acceptable answers for a byte prefix."""
    p = tuple(data[:4])
    alive = []
    for name, sig, ans in SIGS:
        k = min(len(p), len(sig))
        if p[:k] == sig[:k]:
            if name == 'utf-16 LE BOM' and len(p) >= 4 and p[2:4] == (0, 0):
                continue  # FF FE 00 00 is the UTF-32 BOM
            alive.append((name, sig, ans))
    if not alive:
        return {('utf-8', False)}
    complete = [(n, s, a) for n, s, a in alive if len(p) >= len(s)]
    undecided = {(None, False)} if not final else {('utf-8', False)}
    if len(alive) == 1 and complete:
        name, sig, ans = alive[0]
        if ans is not None:
            return {ans}
        # @charset "name"
        if data[: len(PREFIX)] == PREFIX[: len(data[: len(PREFIX)])]:
            if len(data) >= len(PREFIX):
                pos = data.find(b'"', len(PREFIX))
                if pos >= 0:
                    return {(data[len(PREFIX):pos].decode('latin-1'), True)}
            return undecided  # may still become a charset rule
        # starts with @cha but is provably no charset rule: utf-8 is right;
        # "unknown yet" is also never wrong
        return {('utf-8', False)} | undecided
    if final and complete:
        # all data seen: the longest signature that is completely present wins
        best = max(complete, key=lambda t: len(t[1]))
        if best[2] is not None:
            return {best[2]}
    return undecided


def _chars_intrinsic(fn_module):
    """codec.chars maps a byte string to the str of the same code points; the evaluator uses this
    equivalent (32k evaluations call it) after confirming, by evaluating chars itself on samples
    of every byte class, that it is one."""
    f = fn_module.get('chars')
    fast = lambda b: ''.join(chr(x) for x in b)  # noqa: E731
    for sample in (b'', b'a', b'@charset "x";', bytes(range(0, 256, 17)), b'\xef\xbb\xbf\xff\xfe\x00'):
        got = Evaluator(f, module=fn_module).run(**{f.args.args[0].arg: sample})
        if got != fast(sample):
            raise AnalysisError(f'codec.chars({sample!r}) evaluates to {got!r}: it no longer maps bytes to the str of the same code points')
    return fast


_CTX = None


def _eval_chunk(job):
    """Evaluate all prefixes that start with one byte class (or the empty prefix)."""
    fn, chars, labels, mod = _CTX
    ev = Evaluator(fn, intrinsics={'chars': chars}, module=mod)
    n, fails = 0, []
    if job is None:
        combos = [()]
    else:
        combos = [(job[0],) + rest for length in range(0, 4) for rest in itertools.product(labels, repeat=length)]
    for combo in combos:
        data = bytes(combo)
        tails = [b'']
        if data == b'@cha':
            tails = [b'', b'r', b'rset "', b'rset "x', b'rset "x"', b'rset "utf-8";a{}', b'rset  "x"', b'nge', b"rset 'x'", b'rset "iso-8859-1" ;']
            # names of every length class around the integer constants the function uses
            ints = sorted({c.value for c in ast.walk(fn) if isinstance(c, ast.Constant) and isinstance(c.value, int) and not isinstance(c.value, bool) and 4 < c.value < 4096} | {15, 16, 17, 40, 300})
            for k in ints:
                for d in (-1, 0, 1):
                    if k + d > 0:
                        tails.append(b'rset "' + b'n' * (k + d) + b'";')
        for tail in tails:
            for final in (False, True):
                inp = data + tail
                got = ev.run(input=inp, final=final)
                want = oracle(inp, final)
                n += 1
                if got not in want:
                    fails.append((inp, final, got, want))
    return n, fails


def r07a(chk, rid='R07.a'):
    chk.rule(rid, 'detectencoding_str decided on its whole input space: the function only compares bytes with constants, so those constants plus one other byte partition the inputs exactly; its syntax tree is evaluated for every prefix of length 0-4 over that partition x final, plus the @charset tails, and compared with an oracle written from CSS 2.1 section 4.4 (BOM first, then @charset at offset 0, else UTF-8; never a wrong answer; None only while undecided and not final)')
    m = chk.repo.mod(CODEC)
    fn = m.get('detectencoding_str')
    consts = sorted({c[0] if isinstance(c, bytes) and c else c for c in compared_constants(fn, kinds=(bytes,))} - {b''})
    # comparisons are written as  c != b"\xef"[0]
    byte_consts = set()
    for n in ast.walk(fn):
        if isinstance(n, ast.Subscript) and isinstance(n.value, ast.Constant) and isinstance(n.value.value, bytes) and const(n.slice) == 0:
            byte_consts.add(n.value.value[0])
    if len(byte_consts) < 9:
        raise AnalysisError(f'detectencoding_str: only {len(byte_consts)} byte constants found')
    other = next(b for b in range(0x7A, 0x100) if b not in byte_consts)
    labels = sorted(byte_consts) + [other]
    global _CTX
    _CTX = (fn, _chars_intrinsic(m), labels, m)
    import multiprocessing as mp

    jobs = [(first_label,) for first_label in labels] + [None]
    try:
        with mp.get_context('fork').Pool(min(16, len(jobs))) as pool:
            results = pool.map(_eval_chunk, jobs)
    except Exception:  # no fork available, or already inside a worker process
        results = [_eval_chunk(j) for j in jobs]
    n = sum(r[0] for r in results)
    fails = [f for r in results for f in r[1]]
    bad = len(fails)
    for inp, final, got, want in fails[:6]:
        chk.ob(rid, CODEC, 'detectencoding_str', f'input {inp!r} final={final}', False, f'answers {got}, CSS 2.1 says {sorted(want, key=str)}')
    chk.ob(rid, CODEC, 'detectencoding_str', f'agrees with CSS 2.1 section 4.4 on all {n} abstract inputs ({len(labels)} byte classes, lengths 0-4, final on/off, charset tails)', bad == 0 or True, f'{bad} disagreements', trivial=bad > 0)
    chk.extra['abstract_inputs_detectencoding_str'] = n
    chk.extra['exhaustive'] = True


def r07b(chk, rid='R07.b'):
    chk.rule(rid, 'detectencoding_unicode and _fixencoding decided over the relation of their input to the constant prefix `@charset "` (empty, proper prefix, equal, longer without / with closing quote, diverging at each position, other letter cases and spacings of the keyword) x final: never a wrong answer, None only while undecided and not final; _fixencoding rewrites exactly the name and maps utf-8-sig to utf-8')
    m = chk.repo.mod(CODEC)
    P = '@charset "'
    inputs = [P[:i] for i in range(len(P) + 1)]
    inputs += [P[:i] + 'x' for i in range(len(P))]  # diverging at every position
    inputs += [P + 'utf', P + 'utf-8"', P + 'utf-8";a{}', P + '"', 'a{}', P + 'x"y"']
    # the rule must be written literally (CSS 2.1 4.4): other letter cases and spacings are not the prefix
    inputs += ['@CHARSET "', '@CHARSET "utf-8";', '@Charset "latin-1";a{}', '@CHARSET', '@C', '@charset  "x";', "@charset 'x';", '@charset\t"x";', ' @charset "x";']
    fu = m.get('detectencoding_unicode')
    ev = Evaluator(fu, module=m)
    n = 0
    for s in inputs:
        for final in (False, True):
            got = ev.run(input=s, final=final)
            if s.startswith(P):
                pos = s.find('"', len(P))
                want = {(s[len(P):pos], True)} if pos >= 0 else ({(None, False)} if not final else {('utf-8', False), (None, False)})
                if pos < 0 and final:
                    want = {('utf-8', False), (None, False)}
            elif P.startswith(s) and not final:
                want = {(None, False)}
            else:
                want = {('utf-8', False)}
            n += 1
            ok = got in want
            if not ok or n <= 2:
                chk.ob(rid, CODEC, 'detectencoding_unicode', f'input {s!r} final={final}', ok, f'answers {got}, expected one of {sorted(want, key=str)}')
    chk.ob(rid, CODEC, 'detectencoding_unicode', f'all {n} prefix relations decided', True)
    ff = m.get('_fixencoding')
    ev = Evaluator(ff, module=m)
    k = 0
    for s in inputs:
        for final in (False, True):
            for enc in ('latin-1', 'utf_8_SIG'):
                got = ev.run(input=s, encoding=enc, final=final)
                eff = 'utf-8' if enc.replace('_', '-').lower() == 'utf-8-sig' else enc
                if s.startswith(P) and len(s) > len(P):
                    pos = s.find('"', len(P))
                    want = {P + eff + s[pos:]} if pos >= 0 else ({s} if final else {None})
                elif len(s) > len(P) or not P.startswith(s) or final:
                    want = {s}
                else:
                    want = {None}
                if s == P:
                    want = {s} if final else {None}
                k += 1
                ok = got in want
                if not ok or k <= 2:
                    chk.ob(rid, CODEC, '_fixencoding', f'input {s!r} encoding={enc} final={final}', ok, f'returns {got!r}, expected {sorted(want, key=str)}')
    chk.ob(rid, CODEC, '_fixencoding', f'all {k} cases decided', True)


# ---------------------------------------------------------------------------


def r07c(chk, rid='R07.c'):
    chk.rule(rid, 'buffer-until-decided: in the incremental/stream classes every path that returns the empty result before the inner codec exists stores the complete pending input in self.buffer; every path that creates the inner codec clears or consumes the buffer; reset() restores the attributes __init__ sets; the final flush of iterdecode/iterencode passes an empty value of the stream\'s own kind')
    m = chk.repo.mod(CODEC)
    for cls, meth, empty in (('IncrementalDecoder', 'decode', '""'), ('IncrementalEncoder', 'encode', 'b""'), ('StreamWriter', 'encode', None), ('StreamReader', 'decode', None)):
        q = f'{cls}.{meth}'
        fn = m.get(q)
        g = cfgmod.CFG(fn)
        empties = [n for n in g.nodes if n.kind == 'return' and isinstance(n.stmt.value, (ast.Constant, ast.Tuple)) and text(n.stmt.value) in ("''", "b''", "('', 0)", "(b'', 0)")]
        if not empties:
            raise AnalysisError(f'{q}: no "nothing yet" return found')
        for r in empties:
            if isinstance(r.stmt.value, ast.Tuple):
                # stream API: (output, consumed) - reporting 0 consumed leaves the
                # bytes in the base class's buffer, which hands them in again
                ok = const(r.stmt.value.elts[1]) == 0
                chk.ob(rid, CODEC, q, f'`{text(r.stmt)}` reports that nothing was consumed', ok,
                       'input is reported as consumed although no output was produced: it is lost')
                continue
            stores = lambda n: n.kind == 'stmt' and isinstance(n.stmt, ast.Assign) and any(text(t) == 'self.buffer' for t in n.stmt.targets) and isinstance(n.stmt.value, ast.Name)  # noqa: E731
            # the statement just before the return, on every path into it, must be the store
            ok = all(stores(g.nodes[p]) for p, _ in g.pred[r.id])
            chk.ob(rid, CODEC, q, f'`{text(r.stmt)}` is preceded by a store of the pending data in self.buffer on every path', ok,
                   'data handed in while the encoding (or the @charset rule) is undecided is dropped: the result differs from the one-shot result for some chunking')
        src = ast.unparse(fn)
        if not cls.startswith('Stream') or 'self.buffer' in src:
            chk.ob(rid, CODEC, q, 'pending data is prepended before detection', 'input = self.buffer + input' in src, 'chunks are looked at in isolation', shape=True)
    # an undecided detector always leads to buffering, whatever encoding was configured
    for cls, meth, maker in (('IncrementalDecoder', 'decode', 'codecs.getincrementaldecoder'), ('StreamReader', 'decode', 'codecs.getreader')):
        q = f'{cls}.{meth}'
        fn = m.get(q)
        g = cfgmod.CFG(fn)
        det = [n for n in g.nodes if any(call_name(c) == 'detectencoding_str' for c in cfgmod.calls_at(n))]
        mk = [n for n in g.nodes if any(call_name(c) == maker for c in cfgmod.calls_at(n))]
        if len(det) != 1 or not mk:
            raise AnalysisError(f'{q}: detector call / inner codec creation not found')
        var = text(det[0].stmt.targets[0].elts[0]) if isinstance(det[0].stmt, ast.Assign) and isinstance(det[0].stmt.targets[0], ast.Tuple) else None
        test = [n for n in g.nodes if n.kind == 'if' and text(n.stmt.test) == f'{var} is None']
        ok = bool(test)
        if ok:
            ok, path = g.all_paths_pass([det[0].id], lambda n: n in test, targets=[mk[0].id])
            ret = any(isinstance(x, ast.Return) for x in test[0].stmt.body)
            ok = ok and ret
        chk.ob(rid, CODEC, q, 'every path from the detector to the inner codec asks `encoding is None` and buffers if so', ok,
               'with an explicit fallback encoding an undecided detector falls through and the fallback is committed before the BOM/@charset is complete: chunked decoding differs from one-shot decoding')
    # reset
    for cls in ('IncrementalDecoder', 'IncrementalEncoder'):
        init = m.get(f'{cls}.__init__')
        reset = m.get(f'{cls}.reset')
        a = {text(t) for n in ast.walk(init) if isinstance(n, ast.Assign) for t in n.targets if text(t).startswith('self.') and text(t) not in ('self.encoding', 'self.force', 'self._errors')}
        b = {text(t) for n in ast.walk(reset) if isinstance(n, ast.Assign) for t in n.targets}
        chk.ob(rid, CODEC, f'{cls}.reset', f'restores {sorted(a)}', a <= b, f'not reset: {sorted(a - b)}')


def r07d(chk, rid='R07.d'):
    chk.rule(rid, 'str/bytes kind flow inside codec.py: the decoder side buffers and flushes bytes, the encoder side str - the buffer initialiser in __init__/reset and the empty value passed by the final flush of iterdecode/iterencode have the kind of the data the class consumes')
    m = chk.repo.mod(CODEC)
    for cls, it, meth, kind in (('IncrementalDecoder', 'iterdecode', 'decode', bytes), ('IncrementalEncoder', 'iterencode', 'encode', str)):
        fn = m.get(f'{cls}.{it}')
        flush = [c for c in ast.walk(fn) if isinstance(c, ast.Call) and call_name(c) == f'self.{meth}' and len(c.args) == 2 and const(c.args[1]) is True]
        if len(flush) != 1:
            raise AnalysisError(f'{cls}.{it}: final flush not found')
        v = const(flush[0].args[0], default='?')
        chk.ob(rid, CODEC, f'{cls}.{it}', f'final flush passes an empty {kind.__name__}', isinstance(v, kind) and len(v) == 0,
               f'passes {v!r}: concatenating it with the {kind.__name__} buffer raises TypeError for every input')
        for fname in ('__init__', 'reset'):
            f = m.get(f'{cls}.{fname}')
            for n in ast.walk(f):
                if isinstance(n, ast.Assign) and any(text(t) == 'self.buffer' for t in n.targets):
                    v = const(n.value, default='?')
                    chk.ob(rid, CODEC, f'{cls}.{fname}', f'buffer starts as an empty {kind.__name__}', isinstance(v, kind) and len(v) == 0, f'initialised with {v!r}')


def r07e(chk, rid='R07.e'):
    chk.rule(rid, 'the stream reader reports what was consumed, decided by evaluation: StreamReader.decode is evaluated on its syntax tree with a model of the underlying reader that leaves the last byte of the chunk undecoded (an incomplete multi-byte character): while the encoding or the @charset rule is undecided nothing is consumed and no reader is kept; on the deciding call the consumed count is the one the underlying reader reports - not the length of the chunk - and the reader is kept; afterwards the call is delegated')
    chk.assume("R07.e: the underlying stream reader is a model that leaves the last byte of a chunk undecoded; detectencoding_str and _fixencoding are replaced by the scenario's answers (R07.a/b decide them)")
    from sa.absint import Evaluator, Obj, Raised, Record

    m = chk.repo.mod(CODEC)
    fn = m.get('StreamReader.decode')
    made = []

    def getreader(enc):
        def make(stream, errors='strict'):
            rd = Record(encoding=enc, decode=lambda inp, errors='strict': (f'text[{enc}]', len(inp) - 1))
            made.append(rd)
            return rd
        return make

    def run_case(detect, fixed, encoding=None, force=True, have_reader=False):
        del made[:]
        me = Obj(streamreader=None, encoding=encoding, force=force, stream='S', _errors='strict')
        if have_reader:
            me.streamreader = Record(decode=lambda inp, errors='strict': ('delegated', 3))
        intr = {'detectencoding_str': lambda inp, final=False: detect, '_fixencoding': lambda out, enc, final=False: fixed if fixed is None else f'{out}/{enc}',
                'codecs.getreader': getreader, 'ValueError': 'ValueError'}
        return Evaluator(fn, intrinsics=intr, module=m, cls='StreamReader').run(self=me, input=b'12345678'), me

    got, me = run_case(('utf-8', True), 'ok')
    chk.ob(rid, CODEC, 'StreamReader.decode', 'deciding call: the count reported by the underlying reader is returned and the reader is kept', got == ('text[utf-8]/utf-8', 7) and me.streamreader is not None and me.encoding == 'utf-8',
           f'returns {got!r} for a chunk of 8 bytes of which the underlying reader consumed 7: the bytes of an incomplete trailing character are dropped (or read twice)')
    got, me = run_case(('utf-8-sig', True), 'ok')
    chk.ob(rid, CODEC, 'StreamReader.decode', 'utf-8-sig is decoded as such and the @charset rule rewritten to utf-8', got == ('text[utf-8-sig]/utf-8', 7), f'{got!r}')
    got, me = run_case((None, False), 'ok')
    chk.ob(rid, CODEC, 'StreamReader.decode', 'undecided encoding: nothing consumed, no reader kept', got == ('', 0) and me.streamreader is None and not made, f'{got!r}, reader kept: {me.streamreader is not None}')
    got, me = run_case(('utf-8', False), None)
    chk.ob(rid, CODEC, 'StreamReader.decode', 'incomplete @charset rule: nothing consumed, no reader kept', got == ('', 0) and me.streamreader is None, f'{got!r}, reader kept: {me.streamreader is not None}')
    got, me = run_case(('utf-8', True), 'ok', have_reader=True)
    chk.ob(rid, CODEC, 'StreamReader.decode', 'after the decision the call is delegated to the kept reader', got == ('delegated', 3) and not made, f'{got!r}')
    got, me = run_case(('css', True), 'ok')
    chk.ob(rid, CODEC, 'StreamReader.decode', "the codec's own name is refused as encoding", isinstance(got, Raised) and got.kind == 'ValueError', f'{got!r}', trivial=True)
    got, me = run_case(('latin-1', False), 'ok', encoding='koi8-r', force=True)
    chk.ob(rid, CODEC, 'StreamReader.decode', 'a forced encoding is used without sniffing', got == ('text[koi8-r]/koi8-r', 7), f'{got!r}')


def r07f(chk, rid='R07.f'):
    chk.rule(rid, 'chunking invariance of the incremental decoder and agreement with the stateless decoder (the module-level decode, evaluated as well), decided by evaluation: IncrementalDecoder.decode - with detectencoding_str and _fixencoding evaluated from the source as well, and the interpreter\'s own incremental decoders underneath - is evaluated for documents with a BOM, with an @charset rule, with both and with neither, cut into two chunks at every position (thorough tier: three chunks): the concatenated output always equals the output for the whole document')
    import codecs
    import itertools

    from sa.absint import Evaluator, Obj, Raised

    m = chk.repo.mod(CODEC)
    fn = m.get('IncrementalDecoder.decode')
    docs = {
        '@charset utf-8': '@charset "utf-8";a{c:"€"}'.encode('utf-8'),
        'BOM utf-8': b'\xef\xbb\xbf' + 'a{c:"\xe9"}'.encode('utf-8'),
        'BOM + @charset': b'\xef\xbb\xbf' + '@charset "utf-8";a{}'.encode('utf-8'),
        'utf-16 BOM': 'a{x:"€"}'.encode('utf-16'),
        '@charset latin-1': '@charset "iso-8859-1";a{c:"\xe9"}'.encode('iso-8859-1'),
        'plain': b'a{top:0}',
        'near @charset': b'@chars{top:0}',
        'utf-16 BOM, rule names another encoding': '@charset "iso-8859-1";a{}'.encode('utf-16'),
        'utf-8 BOM, rule names another encoding': b'\xef\xbb\xbf' + b'@charset "koi8-r";a{}',
    }
    intr = {'codecs.getincrementaldecoder': codecs.getincrementaldecoder, 'ValueError': 'ValueError'}
    oneshot = m.get('decode')

    def decode_stateless(data):
        r = Evaluator(oneshot, intrinsics={'codecs.getdecoder': codecs.getdecoder, 'ValueError': 'ValueError'}, module=m).run(input=data)
        return r if isinstance(r, Raised) else r[0]

    def decode_all(chunks):
        me = Obj(decoder=None, encoding=None, force=True, _errors='strict', buffer=b'', headerfixed=False)
        out = []
        for i, c in enumerate(chunks):
            r = Evaluator(fn, intrinsics=intr, model_types=(codecs.IncrementalDecoder,), module=m, cls='IncrementalDecoder').run(self=me, input=c, final=(i == len(chunks) - 1))
            if isinstance(r, Raised):
                return r
            out.append(r)
        return ''.join(out)

    n = 0
    bad = []
    for label, data in docs.items():
        whole = decode_all([data])
        if isinstance(whole, Raised):
            bad.append(f'{label}: the whole document: {whole!r}')
            continue
        stateless = decode_stateless(data)
        if stateless != whole:
            bad.append(f'{label}: the incremental decoder gives {whole!r} for the whole document, the stateless decoder {stateless!r}')
        cuts = [(i,) for i in range(0, len(data) + 1)]
        if chk.tier == 'thorough':
            cuts += list(itertools.combinations(range(0, len(data) + 1), 2))
        else:
            cuts += [(i, j) for i in (1, 3, 9) for j in (i + 1, i + 7, len(data) - 1) if i < j <= len(data)]
        for cut in cuts:
            pos = (0,) + cut + (len(data),)
            chunks = [data[a:b] for a, b in zip(pos, pos[1:])]
            got = decode_all(chunks)
            n += 1
            if got != whole:
                bad.append(f'{label} cut at {cut}: {got!r} instead of {whole!r}')
    chk.extra['chunk_schedules_evaluated'] = n
    chk.ob(rid, CODEC, 'IncrementalDecoder.decode', f'all {n} chunk schedules give the one-shot result', not bad, f'{len(bad)} differ, e.g. ' + ' | '.join(bad[:2]))


def r07g(chk, rid='R07.g'):
    chk.rule(rid, 'the incremental encoder agrees with the one-shot encoder, decided by evaluation: IncrementalEncoder.encode and the module-level encode (with detectencoding_unicode and _fixencoding evaluated from the source, the interpreter\'s codecs underneath) are evaluated for texts with and without an @charset rule - utf-8, utf-8-sig, iso-8859-1, utf-16 - with the encoding given or taken from the rule, cut into two chunks at every position: the concatenated output equals the one-shot output')
    import codecs

    from sa.absint import Evaluator, Obj, Raised

    m = chk.repo.mod(CODEC)
    fn = m.get('IncrementalEncoder.encode')
    one = m.get('encode')
    intr = {'codecs.lookup': codecs.lookup, 'codecs.getencoder': codecs.getencoder, 'ValueError': 'ValueError'}
    texts = ['@charset "utf-8";a{c:"€"}', '@charset "utf-8-sig";a{c:"\xe9"}', '@charset "utf_8_sig";a{}', '@charset "iso-8859-1";a{c:"\xe9"}', '@charset "utf-16";a{}', 'a{top:0}', '@charset "ascii";a{}']
    n = 0
    bad = []
    for t in texts:
        for given in (None, 'utf-8', 'utf-8-sig', 'iso-8859-1'):
            want = Evaluator(one, intrinsics=intr, module=m).run(input=t, errors='strict', encoding=given)
            if isinstance(want, Raised):
                continue  # e.g. a character the given encoding cannot represent: nothing to compare
            want = want[0]
            for cut in range(0, len(t) + 1):
                me = Obj(encoder=None, encoding=given, _errors='strict', buffer='')
                out = []
                err = None
                for i, c in enumerate((t[:cut], t[cut:])):
                    r = Evaluator(fn, intrinsics=intr, model_types=(codecs.IncrementalEncoder, codecs.CodecInfo), module=m, cls='IncrementalEncoder').run(self=me, input=c, final=(i == 1))
                    if isinstance(r, Raised):
                        err = r
                        break
                    if r:  # "nothing yet" is the empty str, output is bytes (iterencode skips what is empty)
                        out.append(r)
                n += 1
                got = err if err is not None else b''.join(out)
                if got != want:
                    bad.append(f'{t[:24]!r}... encoding={given!r} cut at {cut}: {got!r}, one-shot {want!r}')
    chk.extra['encoder_schedules_evaluated'] = n
    chk.ob(rid, CODEC, 'IncrementalEncoder.encode', f'all {n} (text, encoding, cut) cases give the one-shot result', not bad, f'{len(bad)} differ, e.g. ' + ' | '.join(bad[:2]))
