exec(open('/verif/witness/c11_triage.py').read().split("sheet = cssutils.parseString('@media print")[0])
def fetch(url):
    return None, b'a { color: red } $$$ {'
sheet = cssutils.CSSParser(fetcher=fetch).parseString('@import "ok.css" print; b {left:0}', href='http://x/a.css')
ir = sheet.cssRules[0]
print(ir.cssText, ir.styleSheet.cssText)
trial('CSSImportRule.cssText with broken imported sheet', ir, lambda: setattr(ir, 'cssText', '@import "other.css" tv "nm";'))
print(ir.href, ir.hrefFound, ir.styleSheet.href, ir.name)
trial('CSSImportRule.href with broken imported sheet', ir, lambda: setattr(ir, 'href', 'third.css'))
print(ir.href, ir.styleSheet.href)
trial('sheet.insertRule(@import) broken imported', sheet, lambda: sheet.insertRule('@import "x2.css";', 0))
trial('sheet.encoding = bogus', sheet, lambda: setattr(sheet, 'encoding', 'bogus-enc'))
# CSSStyleSheet._setCssTextWithEncodingOverride is internal
mg = cssutils.css.MarginRule(margin='@top-left', style='color: red')
trial('MarginRule.cssText other margin', mg, lambda: setattr(mg, 'cssText', '@top-right { left: 0 }'))
cv = cssutils.css.ColorValue('rgb(1,2,3)')
for t in ['rgb(1,2,3,4)', 'rgb(a,b,c)', 'hsl(1,2,3)', 'rgba(1,2,3)']:
    trial('ColorValue.cssText '+t, cv, lambda: setattr(cv, 'cssText', t))
mq = cssutils.stylesheets.MediaQuery('print')
for t in ['only', 'not', 'tv and', '(color) and tv']:
    trial('MediaQuery.mediaText '+t, mq, lambda: setattr(mq, 'mediaText', t))
