"""C18 - value normalisation never changes what a value denotes (structural parts)."""
from __future__ import annotations

import ast

from sa.absint import Evaluator, Record
from sa.core import AnalysisError, call_name, const, literal, text

SER = 'cssutils/serialize.py'
COLORS = 'cssutils/css/colors.py'

CSS21_COLORS = {
    'maroon': (128, 0, 0), 'red': (255, 0, 0), 'orange': (255, 165, 0), 'yellow': (255, 255, 0), 'olive': (128, 128, 0),
    'purple': (128, 0, 128), 'fuchsia': (255, 0, 255), 'white': (255, 255, 255), 'lime': (0, 255, 0), 'green': (0, 128, 0),
    'navy': (0, 0, 128), 'blue': (0, 0, 255), 'aqua': (0, 255, 255), 'teal': (0, 128, 128), 'black': (0, 0, 0),
    'silver': (192, 192, 192), 'gray': (128, 128, 128),
}
LENGTH_UNITS = {'em', 'ex', 'px', 'in', 'cm', 'mm', 'pt', 'pc', 'rem', 'ch', 'vw', 'vh', 'vmin', 'vmax', 'q'}


def run(chk):
    r18a(chk)
    r18b(chk)
    r18c(chk)
    r18d(chk)
    from .c03 import r03a, r03b

    r03a(chk, 'R18.e')
    r03b(chk, 'R18.f')


def r18a(chk, rid='R18.a'):
    chk.rule(rid, 'hash shortening is lossless: CSSSerializer._hash is a decision procedure on the characters of its argument; evaluated on its syntax tree for representatives of every case (length 4/7/other, each pair equal/unequal, preference on/off) it shortens exactly #aabbcc -> #abc under minimizeColorHash and returns everything else unchanged')
    fn = chk.repo.fn(SER, 'CSSSerializer._hash')
    ev = Evaluator(fn, module=chk.repo.mod(SER), cls='CSSSerializer')
    cases = []
    for val in ('#aabbcc', '#AAbbCC', '#aabbcd', '#aabccc', '#abbbcc', '#abc', '#aabbccdd', '#aabbc', '#', '#1122334', '#aAbbcc', '#112233'):
        for pref in (True, False):
            cases.append((val, pref))
    for val, pref in cases:
        self_ = Record(prefs=Record(minimizeColorHash=pref))
        got = ev.run(self=self_, val=val, type_=None)
        short = pref and len(val) == 7 and val[1] == val[2] and val[3] == val[4] and val[5] == val[6]
        want = ('#' + val[1] + val[3] + val[5]) if short else val
        chk.ob(rid, SER, 'CSSSerializer._hash', f'_hash({val!r}) with minimizeColorHash={pref} -> {want!r}', got == want, f'returns {got!r}: the colour changes')
    m = chk.repo.mod(SER)
    uses = [c for c in ast.walk(m.tree) if isinstance(c, ast.Call) and call_name(c).endswith('._hash')]
    ok = len(uses) == 1
    if ok:
        st = m.enclosing_stmt(uses[0])
        par = m.parents.get(st)
        ok = isinstance(par, ast.If) and text(par.test) in ("'HASH' == type_", "type_ == 'HASH'") and st in par.body
    chk.ob(rid, SER, 'Out.append', 'only HASH items are shortened', ok, 'other values could be passed through _hash')


def _value_fn(chk):
    return chk.repo.fn(SER, 'CSSSerializer.do_css_Value')


def r18b(chk, rid='R18.b'):
    chk.rule(rid, 'zero lengths only: the units dropped from a zero value are CSS length units (a zero angle, time, frequency or percentage keeps its unit); the unit is dropped only under value == 0')
    fn = _value_fn(chk)
    tuples = [n for n in ast.walk(fn) if isinstance(n, ast.Compare) and isinstance(n.ops[0], ast.In) and 'dimension' in text(n.left) and isinstance(n.comparators[0], ast.Tuple)]
    if len(tuples) != 1:
        raise AnalysisError('do_css_Value: unit tuple not found')
    units = {const(e) for e in tuples[0].comparators[0].elts}
    bad = sorted(units - LENGTH_UNITS)
    chk.ob(rid, SER, 'CSSSerializer.do_css_Value', f'zero is written without unit only for lengths {sorted(units)}', not bad, f'{bad} are no length units: 0deg / 0s / 0% would lose their unit')
    m = chk.repo.mod(SER)
    par = m.parents[tuples[0]]
    up = m.parents.get(par)
    ok = isinstance(par, ast.If) and isinstance(up, ast.If) and text(up.test) == 'value.value == 0' and par in up.body
    chk.ob(rid, SER, 'CSSSerializer.do_css_Value', 'the unit is dropped only under `value.value == 0`', ok, 'a non-zero value could lose its unit')


def r18c(chk, rid='R18.c'):
    chk.rule(rid, 'colour table consistency: the gray/grey spelling pairs are equal, aqua=cyan, fuchsia=magenta, every channel is an int in 0..255 and alpha is 1.0 except for transparent; the CSS 2.1 colour keywords have their specification values')
    m = chk.repo.mod(COLORS)
    table = literal(m.global_assign('COLORS'), 'COLORS')
    if len(table) < 140:
        raise AnalysisError(f'colour table has only {len(table)} entries')
    chk.ob(rid, COLORS, 'COLORS', f'{len(table)} entries, all lower-case names', all(k == k.lower() for k in table), '')
    bad = [k for k, v in table.items() if not (isinstance(v, tuple) and len(v) == 4 and all(isinstance(c, int) and 0 <= c <= 255 for c in v[:3]) and isinstance(v[3], float) and (v[3] == 1.0 or k == 'transparent'))]
    chk.ob(rid, COLORS, 'COLORS', 'channels are ints in 0..255, alpha 1.0 (0.0 for transparent)', not bad, f'{bad[:5]}')
    pairs = [(k, k.replace('gray', 'grey')) for k in table if 'gray' in k]
    if len(pairs) < 7:
        raise AnalysisError('gray/grey pairs not found')
    for a, b in pairs + [('aqua', 'cyan'), ('fuchsia', 'magenta')]:
        chk.ob(rid, COLORS, 'COLORS', f'{a} == {b}', b in table and table[a] == table[b], f'{table.get(a)} vs {table.get(b)}')
    for k, rgb in CSS21_COLORS.items():
        chk.ob(rid, COLORS, 'COLORS', f'{k} = {rgb}', table.get(k, (None,))[:3] == rgb, f'table says {table.get(k)}')
    chk.ob(rid, COLORS, 'COLORS', 'transparent is (0, 0, 0, 0.0)', table.get('transparent') == (0, 0, 0, 0.0), str(table.get('transparent')))


def r18d(chk, rid='R18.d'):
    chk.rule(rid, 'guards of the number formatter: a statement that strips the leading zero of a formatted number is control-dependent on a magnitude test -1 < v < 1 (and on the omitLeadingZero preference); integral values are written through int(), never through %f; an explicit + sign is kept for non-zero values only')
    fn = _value_fn(chk)
    m = chk.repo.mod(SER)

    def guards(node):
        out = []
        child, n = node, m.parents.get(node)
        while n is not None and n is not fn:
            if isinstance(n, ast.If):
                out.append((n, child in n.body))
            child, n = n, m.parents.get(n)
        return out

    strips = []
    for n in ast.walk(fn):
        if isinstance(n, ast.Assign) and isinstance(n.targets[0], ast.Name):
            v = n.value
            t = text(v)
            is_strip = False
            if isinstance(v, ast.Subscript) and isinstance(v.slice, ast.Slice) and const(v.slice.lower) == 1 and v.slice.upper is None:
                is_strip = True  # v[1:]
            if isinstance(v, ast.BinOp) and isinstance(v.op, ast.Add) and '[0]' in text(v.left) and '[2:]' in text(v.right):
                is_strip = True  # v[0] + v[2:]
            if isinstance(v, ast.Call) and isinstance(v.func, ast.Attribute) and v.func.attr in ('replace', 'lstrip') and v.args and const(v.args[0]) in ('0.', '0', '-0.', '+0.'):
                is_strip = True
            if is_strip:
                strips.append(n)
    if len(strips) < 1:
        raise AnalysisError('do_css_Value: leading-zero stripping statements not found')
    for s in strips:
        gs = guards(s)
        mag = any(inb and '-1 < value.value < 1' in text(g.test) for g, inb in gs)
        pref = any(inb and 'self.prefs.omitLeadingZero' in text(g.test) for g, inb in gs)
        chk.ob(rid, SER, 'CSSSerializer.do_css_Value', f'`{text(s)}` only for |value| < 1 and under omitLeadingZero', mag and pref,
               'the first "0." of a larger number would be removed too: 10.5px becomes 1.5px')
    fmts = [n for n in ast.walk(fn) if isinstance(n, ast.BinOp) and isinstance(n.op, ast.Mod) and const(n.left) == '%f']
    if not fmts:
        raise AnalysisError("do_css_Value: '%f' formatting not found")
    for f in fmts:
        gs = guards(f)
        ok = any((not inb) and 'value.value == int(value.value)' in text(g.test) for g, inb in gs) or any((not inb) and 'int(value.value)' in text(g2.test) for g, inb in gs for g2 in [g] + _elif_chain_before(m, g))
        chk.ob(rid, SER, 'CSSSerializer.do_css_Value', f"`{text(f)}` is reached only for non-integral values", ok,
               "integers are sent through a C double and '%f': large integers change (2**53 + 1 -> 2**53)")
    ints = [n for n in ast.walk(fn) if isinstance(n, ast.Assign) and text(n.value) == 'str(int(value.value))']
    chk.ob(rid, SER, 'CSSSerializer.do_css_Value', 'integral values are written as str(int(v))', len(ints) == 1, f'{len(ints)}')
    src = ast.unparse(fn)
    chk.ob(rid, SER, 'CSSSerializer.do_css_Value', "an explicit '+' is kept for non-zero values", "value.value != 0 and value._sign == '+'" in src and "sign = '+'" in src, '', shape=True)
    chk.ob(rid, SER, 'CSSSerializer.do_css_Value', 'sign, number and unit are concatenated in this order', 'out.append(sign + val + dim, value.type)' in src, '', shape=True)


def _elif_chain_before(m, ifnode):
    """The `if`s whose else-branch this `if` sits in (elif chain predecessors)."""
    out = []
    cur = ifnode
    while True:
        par = m.parents.get(cur)
        if isinstance(par, ast.If) and cur in par.orelse:
            out.append(par)
            cur = par
        else:
            break
    return out
