"""C12 - no hidden state: global modes restored, scratch state reset."""
from __future__ import annotations

import ast
import re

from sa import cfg as cfgmod
from sa.cfg import ENTRY, EXIT_EXC, EXIT_RET, walk_expr
from sa.core import AnalysisError, call_name, const, dotted, text

PARSE = 'cssutils/parse.py'
SCRIPT = 'cssutils/script.py'
PROD = 'cssutils/prodparser.py'
SER = 'cssutils/serialize.py'
FLAG = 'cssutils.log.raiseExceptions'


def run(chk):
    chk.attempt(r12a, chk)
    chk.attempt(r12b, chk)
    chk.attempt(r12c, chk)
    chk.attempt(r12d, chk)
    chk.attempt(r12e, chk)
    chk.attempt(r12f, chk)
    chk.attempt(r12g, chk)
    chk.attempt(r12h, chk)


def _has_call(x):
    return any(isinstance(n, ast.Call) for n in walk_expr(x))


def escapes(g, acquire, release):
    """Exits reachable from an acquire node without passing a release node."""
    out = []
    for a in acquire:
        # an exception raised *by* the acquiring statement happens before the
        # state is switched: only its normal successors count
        seen = g.reachable([a.id], avoid=release, labels=lambda x, y, lab, a=a: not (x == a.id and lab == 'exc'))
        for ex, name in ((EXIT_RET, 'return'), (EXIT_EXC, 'exception')):
            if ex in seen:
                out.append((a, name, g.path(seen, {a.id}, ex)))
    return out


def _flag_stores(node_or_list):
    body = node_or_list if isinstance(node_or_list, list) else [node_or_list]
    out = []
    for st in body:
        for n in ast.walk(st):
            if isinstance(n, ast.Assign) and text(n.targets[0]) == FLAG:
                out.append(n)
    return out


def _kind(store):
    return 'on' if '__parseRaising' in text(store.value) else 'off'


def switch_methods(m, cls='CSSParser'):
    """{method name: summary} for the methods of the parser class that write the global
    error mode.  A summary maps a constant first argument (or None = any call) to the set of
    store kinds the call performs: {'on'}, {'off'} or both."""
    out = {}
    for q, fn in m.functions():
        if not q.startswith(cls + '.') or q.count('.') != 1:
            continue
        stores = _flag_stores(fn)
        if not stores:
            continue
        params = [a.arg for a in fn.args.args][1:]
        summ = {None: {_kind(s) for s in stores}}
        if params:
            for st in fn.body:
                if isinstance(st, ast.If) and isinstance(st.test, ast.Name) and st.test.id == params[0]:
                    inside = _flag_stores(st.body) + _flag_stores(st.orelse)
                    if len(inside) == len(stores):
                        summ[True] = {_kind(s) for s in _flag_stores(st.body)}
                        summ[False] = {_kind(s) for s in _flag_stores(st.orelse)}
        out[fn.name] = (fn, summ)
    return out


def switch_effect(switches, call):
    """'on' / 'off' / None for a call `self.<switch>(...)`; a method that does both is not a switch."""
    cn = call_name(call)
    if not cn.startswith('self.'):
        return None
    name = cn[5:]
    if name not in switches:
        return None
    fn, summ = switches[name]
    arg = const(call.args[0]) if call.args else None
    kinds = summ.get(arg if isinstance(arg, bool) else None, summ[None])
    if kinds == {'on'}:
        return 'on'
    if kinds == {'off'}:
        return 'off'
    return None


def context_switches(m, switches, cls='CSSParser'):
    """Names of @contextmanager methods that switch the mode on before their yield and off in a
    `finally` around it: `with self.<name>():` is then an acquire that is released on every exit."""
    out = set()
    for q, fn in m.functions():
        if not q.startswith(cls + '.') or q.count('.') != 1:
            continue
        if not any(text(d).endswith('contextmanager') for d in fn.decorator_list):
            continue
        for tr in ast.walk(fn):
            if isinstance(tr, ast.Try) and tr.finalbody and any(isinstance(x, ast.Yield) for st in tr.body for x in ast.walk(st)):
                before = fn.body[:fn.body.index(tr)] if tr in fn.body else []
                on = any(isinstance(c, ast.Call) and switch_effect(switches, c) == 'on' for st in before for c in ast.walk(st)) or any(_kind(s) == 'on' for s in _flag_stores(before))
                off = any(isinstance(c, ast.Call) and switch_effect(switches, c) == 'off' for st in tr.finalbody for c in ast.walk(st)) or any(_kind(s) == 'off' for s in _flag_stores(tr.finalbody))
                if on and off:
                    out.add(fn.name)
    return out


def with_switch(ctx, node):
    """Is this CFG node a `with self.<context switch>():` header?"""
    if node.kind != 'with':
        return False
    return any(isinstance(i.context_expr, ast.Call) and call_name(i.context_expr).startswith('self.') and call_name(i.context_expr)[5:] in ctx for i in node.stmt.items)


def pure_switches(switches):
    """Private methods all of whose calls either switch on or switch off (never both in one call)."""
    out = set()
    for name, (fn, summ) in switches.items():
        per_call = [v for k, v in summ.items() if k is not None] or [summ[None]]
        if name.startswith('_') and all(len(v) <= 1 for v in per_call):
            out.add(name)
    return out


def r12a(chk, rid='R12.a'):
    chk.rule(rid, 'global error-mode pairing in CSSParser: every function that switches cssutils.log.raiseExceptions to the parse mode - by storing it or by calling a private method whose only effect on it is that store - switches it back on every exit, exceptional exits included (any call may raise: decode errors, fetcher faults, raising parsers); the value written back was read from the global at the start of the same call, not at construction time')
    m = chk.repo.mod(PARSE)
    switches = switch_methods(m)
    pure = pure_switches(switches)
    if not any('on' in summ[None] for fn, summ in switches.values()) or not any('off' in summ[None] for fn, summ in switches.values()):
        raise AnalysisError('CSSParser: no method stores the parse mode / restores the mode')
    n_fn = 0
    ctx = context_switches(m, switches)
    for q, fn in m.functions():
        if not q.startswith('CSSParser.') or q.count('.') != 1:
            continue
        if fn.name in pure:
            continue  # the obligation is carried by its callers
        g = cfgmod.CFG(fn, may_raise=_has_call)
        withs = [n for n in g.nodes if with_switch(ctx, n)]
        if withs:
            n_fn += 1
            chk.ob(rid, PARSE, q, f'error mode switched by `with self.{sorted(ctx)[0]}()`: restored on every exit by the context manager', True)
        on = [n for n in g.nodes if any(switch_effect(switches, c) == 'on' for c in cfgmod.calls_at(n))]
        direct = [n for n in g.nodes if n.kind == 'stmt' and isinstance(n.stmt, ast.Assign) and text(n.stmt.targets[0]) == FLAG]
        if not on and not direct:
            continue
        n_fn += 1
        on = on + [n for n in direct if _kind(n.stmt) == 'on']
        if not on and direct:
            # a function that saves and writes the flag itself: the restoring store is the release
            on = [direct[0]]
            off = lambda n, d=direct: n in d[1:]  # noqa: E731
        else:
            off = lambda n, d=direct: any(switch_effect(switches, c) == 'off' for c in cfgmod.calls_at(n)) or (n in d and _kind(n.stmt) == 'off')  # noqa: E731
        esc = escapes(g, on, off)
        # a raise *at* the acquire statement itself happens before the switch: ignore
        if not esc:
            chk.ob(rid, PARSE, q, 'error mode restored on every exit', True)
        seen_kinds = set()
        for a, kind, path in esc:
            if kind in seen_kinds:
                continue
            seen_kinds.add(kind)
            chk.ob(rid, PARSE, q, f'error mode restored on every {kind} exit', False,
                   'the process stays in parse (log-only or raising) mode: ' + ' -> '.join(path[-4:]))
    if n_fn < 2:
        raise AnalysisError(f'only {n_fn} mode-switching parse functions found')
    # the value written back
    restore = [(name, s) for name, (fn, summ) in switches.items() for s in _flag_stores(fn) if _kind(s) == 'off']
    if not restore:
        raise AnalysisError('CSSParser: restoring store not found')
    for name, st in restore:
        v = text(st.value)
        # where is v defined from a read of the global?
        defs = []
        for q, fn in m.functions():
            for n in ast.walk(fn):
                if isinstance(n, ast.Assign) and text(n.targets[0]) == v and text(n.value) == FLAG and m.enclosing_def(n) is fn:
                    defs.append(q)
        per_call = [d for d in defs if d != 'CSSParser.__init__']
        chk.ob(rid, PARSE, f'CSSParser.{name}', f'restored value `{v}` is read from the global at the start of the parse call',
               bool(per_call), f'`{v}` is only captured in {defs or "no function"}: a mode set after the parser was constructed is overwritten by every parse call')


def r12b(chk, rid='R12.b'):
    chk.rule(rid, 'serializer swap pairing in script.csscombine: the private serializer is installed before any preference is written, and the previous serializer is put back on every exit (exceptional exits included)')
    fn = chk.repo.fn(SCRIPT, 'csscombine')
    g = cfgmod.CFG(fn, may_raise=_has_call)
    sets = [n for n in g.nodes if any(call_name(c) == 'cssutils.setSerializer' for c in cfgmod.calls_at(n))]
    if len(sets) < 2:
        raise AnalysisError('csscombine: setSerializer calls not found')
    fresh = [n for n in sets if any(call_name(c) == 'cssutils.setSerializer' and c.args and isinstance(c.args[0], ast.Call) and call_name(c.args[0]).endswith('CSSSerializer') for c in cfgmod.calls_at(n))]
    saved = [n for n in g.nodes if n.kind == 'stmt' and isinstance(n.stmt, ast.Assign) and text(n.stmt.value) == 'cssutils.ser']
    if not fresh or not saved:
        raise AnalysisError('csscombine: fresh serializer / saved serializer not found')
    old = text(saved[0].stmt.targets[0])
    restore = lambda n: any(call_name(c) == 'cssutils.setSerializer' and c.args and text(c.args[0]) == old for c in cfgmod.calls_at(n))  # noqa: E731
    esc = escapes(g, fresh, restore)
    if not esc:
        chk.ob(rid, SCRIPT, 'csscombine', 'previous serializer restored on every exit', True)
    kinds = set()
    for a, kind, path in esc:
        if kind not in kinds:
            kinds.add(kind)
            chk.ob(rid, SCRIPT, 'csscombine', f'previous serializer restored on every {kind} exit', False,
                   'the private (minifying) serializer stays installed process-wide: ' + ' -> '.join(path[-4:]))
    # every preference write happens on the private serializer
    writes = [n for n in g.nodes if _writes_prefs(n)]
    if not writes:
        raise AnalysisError('csscombine: preference writes not found')
    m = chk.repo.mod(SCRIPT)

    def guards(stmt):
        out = []
        child, n = stmt, m.parents.get(stmt)
        while n is not None and n is not fn:
            if isinstance(n, ast.If) and child in n.body:
                out.append(text(n.test))
            child, n = n, m.parents.get(n)
        return out

    for w in writes:
        ok, path = g.all_paths_pass([ENTRY], lambda n: n in fresh, targets=[w.id])
        if not ok:
            # same-condition correlation: the write is under the very condition
            # that installs the private serializer (`if minify:` twice)
            gw = guards(w.stmt)
            if any(set(guards(f.stmt)) and set(guards(f.stmt)) <= set(gw) for f in fresh):
                ok = True
        chk.ob(rid, SCRIPT, 'csscombine', f'`{g.describe(w.id)}` writes the private serializer', ok,
               '' if ok else 'reachable without installing the private serializer - the user\'s global preferences are changed: ' + ' -> '.join(path[-4:]))
    # saved before swapped
    ok, _ = g.all_paths_pass([ENTRY], lambda n: n in saved, targets=[fresh[0].id])
    chk.ob(rid, SCRIPT, 'csscombine', 'the current serializer is saved before the swap', ok, '')


def _writes_prefs(n):
    if n.kind != 'stmt':
        return False
    s = n.stmt
    if isinstance(s, ast.Assign) and any(text(t).startswith('cssutils.ser.prefs.') for t in s.targets):
        return True
    for c in cfgmod.calls_at(n):
        if call_name(c).startswith('cssutils.ser.prefs.use') or call_name(c) == 'cssutils.ser.prefs.__setattr__':
            return True
    return False


# ---------------------------------------------------------------------------
# state -> {(file, function): reason}
STATE_WRITERS = {
    'error handler state': {},
    'raiseExceptions': {
        ('cssutils/errorhandler.py', '_ErrorHandler.__init__'): 'initial value',
        (PARSE, 'CSSParser.__parseSetting'): 'paired switch (R12.a)',
    },
    'cssutils.ser': {
        ('cssutils/__init__.py', 'setSerializer'): 'explicit setting API',
        ('cssutils/css/cssstylesheet.py', 'CSSStyleSheet.setSerializer'): 'deprecated explicit setting API',
    },
    'ser.prefs': {
        (SCRIPT, 'csscombine'): 'private serializer (R12.b)',
        (SCRIPT, 'CSSCapture.saveto'): 'command line script: explicit minify option',
        ('cssutils/scripts/cssparse.py', 'main'): 'command line script: explicit minify option',
        ('cssutils/css/cssstylesheet.py', 'CSSStyleSheet.setSerializerPref'): 'deprecated explicit setting API',
    },
    'cssutils.profile': {},
    'savedTokens': {(PROD, 'ProdParser.parse'): 'hand-over between nested parsers (R12.d)', (PROD, 'ProdParser.__init__'): 'reset'},
    '_TOKENIZER_CACHE': {
        ('cssutils/tokenize2.py', 'Tokenizer.__init__'): 'cache keyed by (macros, productions)',
        ('cssutils/settings.py', 'set'): 'explicit setting API clears the cache',
    },
    'PRODUCTIONS': {('cssutils/settings.py', 'set'): 'explicit setting API'},
    '_pushed': {
        ('cssutils/tokenize2.py', 'Tokenizer.__init__'): 'initial value',
        ('cssutils/tokenize2.py', 'Tokenizer.push'): 'push-back API',
        ('cssutils/tokenize2.py', 'Tokenizer.clear'): 'reset API',
    },
}


def _state_of_write(node):
    """Which tracked state a statement/call writes, or None."""
    if isinstance(node, (ast.Assign, ast.AugAssign, ast.Delete)):
        tgts = node.targets if not isinstance(node, ast.AugAssign) else [node.target]
        for t in tgts:
            tt = text(t)
            if tt.endswith('.raiseExceptions'):
                return 'raiseExceptions'
            if re.search(r'(^|\.)(_log|log)\.\w+$', tt):
                return 'error handler state'  # any other attribute of the shared handler object (enabled, the logger behind it)
            if tt == 'cssutils.ser' or tt == 'ser':
                return 'cssutils.ser'
            if '.ser.prefs.' in tt or tt.startswith('ser.prefs.'):
                return 'ser.prefs'
            if tt in ('cssutils.profile',):
                return 'cssutils.profile'
            if tt.startswith('savedTokens'):
                return 'savedTokens'
            if tt.startswith('_TOKENIZER_CACHE') or tt.startswith('tokenize2._TOKENIZER_CACHE'):
                return '_TOKENIZER_CACHE'
            if tt.endswith('._pushed'):
                return '_pushed'
            if tt.endswith('PRODUCTIONS') or 'PRODUCTIONS[' in tt:
                return 'PRODUCTIONS'
    if isinstance(node, ast.Call):
        d = call_name(node)
        base, _, meth = d.rpartition('.')
        if meth in ('append', 'pop', 'clear', 'insert', 'extend', 'remove', 'update', 'setdefault', '__setattr__') or meth.startswith('use'):
            if base.endswith('savedTokens'):
                return 'savedTokens'
            if base.endswith('_TOKENIZER_CACHE'):
                return '_TOKENIZER_CACHE'
            if base.endswith('PRODUCTIONS'):
                return 'PRODUCTIONS'
            if base.endswith('ser.prefs') and (meth.startswith('use') or meth == '__setattr__'):
                return 'ser.prefs'
    return None


def r12c(chk, rid='R12.c'):
    chk.rule(rid, 'who-may-write inventory of the process-wide state named in the property (error mode and every other attribute of the shared error handler, global serializer and its preferences, profile registry binding, saved-token list, tokenizer cache, production list, tokenizer push-back queue): every writer is one of the functions enumerated in the checker (explicit setting APIs, paired switches, keyed caches)')
    n = 0
    for rel, m in chk.repo.modules.items():
        if rel in ('cssutils/sac.py', 'cssutils/css/cssvalue.py', 'conftest.py'):
            continue
        for node in ast.walk(m.tree):
            st = _state_of_write(node)
            if st is None:
                continue
            q = m.qualname_of(node)
            if q == '<module>':
                continue  # module-level definition of the state itself
            if st == 'ser.prefs' and rel == SER:
                continue  # Preferences methods writing self, not the global
            n += 1
            ok = (rel, q) in STATE_WRITERS[st]
            if st == 'raiseExceptions' and rel == PARSE and q.startswith('CSSParser.') and q.count('.') == 1:
                ok = True  # every CSSParser method that writes the flag is subject to the pairing rule R12.a
            if st == '_TOKENIZER_CACHE' and rel == 'cssutils/tokenize2.py' and q.startswith('Tokenizer.') and q.count('.') == 1:
                ok = True  # the tokenizer's own keyed cache, whichever of its methods fills it; that the key is the content of the tables is R12.f
            if st == 'savedTokens' and rel == PROD and q.startswith('ProdParser.') and q.count('.') == 1:
                ok = True  # the production parser itself (its private helpers included); the reset is R12.d
            chk.ob(rid, rel, q, f'writes {st}: {text(node)[:70]}', ok,
                   STATE_WRITERS[st].get((rel, q), f'{st} is process-wide state; this function is not one of its sanctioned writers - results of later calls depend on whether it ran'))
    if n < 12:
        raise AnalysisError(f'only {n} global-state writes found (>= 12 confirmed by hand)')
    # global statements
    for rel, m in chk.repo.modules.items():
        if rel in ('cssutils/sac.py', 'cssutils/css/cssvalue.py', 'conftest.py'):
            continue
        for node in ast.walk(m.tree):
            if isinstance(node, ast.Global):
                q = m.qualname_of(node)
                ok = (rel, q) in {('cssutils/__init__.py', 'setSerializer')}
                chk.ob(rid, rel, q, f'global {", ".join(node.names)}', ok, 'rebinding a module global from a function creates hidden state')
    # module-level mutable containers in the core modules: inventory
    MUTABLE_OK = {
        ('cssutils/tokenize2.py', '_TOKENIZER_CACHE'), ('cssutils/prodparser.py', 'savedTokens'), ('cssutils/prodparser.py', 'tokenizer'),
        ('cssutils/cssproductions.py', 'MACROS'), ('cssutils/cssproductions.py', 'PRODUCTIONS'), ('cssutils/profiles.py', 'properties'), ('cssutils/profiles.py', 'macros'),
        ('cssutils/__init__.py', 'log'), ('cssutils/__init__.py', 'ser'), ('cssutils/__init__.py', 'profile'), ('cssutils/util.py', 'log'), ('cssutils/_fetch.py', 'log'), ('cssutils/_fetchgae.py', 'log'),
        ('cssutils/css2productions.py', 'MACROS'), ('cssutils/css2productions.py', 'PRODUCTIONS'), ('cssutils/css/colors.py', 'COLORS'),
        ('cssutils/__init__.py', '__all__'), ('cssutils/css/__init__.py', '__all__'),
    }
    for rel, m in chk.repo.modules.items():
        if not rel.startswith('cssutils/') or rel in ('cssutils/sac.py', 'cssutils/css/cssvalue.py') or '/scripts/' in rel:
            continue
        for st in m.tree.body:
            if isinstance(st, ast.Assign) and isinstance(st.value, (ast.List, ast.Dict, ast.Set, ast.Call)) and not (isinstance(st.value, ast.Call) and call_name(st.value) in ('re.compile', 'property', 'frozenset', 'tuple', 'namedtuple', 'collections.namedtuple')):
                for t in st.targets:
                    if isinstance(t, ast.Name) and not t.id.startswith('__'):
                        if isinstance(st.value, ast.Call) and not (call_name(st.value).endswith(('Tokenizer', 'ErrorHandler', 'CSSSerializer', 'Profiles')) or call_name(st.value) in ('dict', 'list', 'set')):
                            continue
                        if (rel, t.id) not in MUTABLE_OK:
                            how = _mutable_use(chk.repo, m, t.id)
                            if how is None:
                                chk.ob(rid, rel, '<module>', f'module-level container `{t.id}` is only read (subscript, get, in, iteration)', True, '', trivial=True)
                                continue
                        else:
                            how = ''
                        chk.ob(rid, rel, '<module>', f'module-level mutable `{t.id}`', (rel, t.id) in MUTABLE_OK,
                               f'a new process-wide mutable object ({how}): results may depend on earlier calls')


READ_METHODS = {'get', 'items', 'keys', 'values', 'copy', 'index', 'count', '__contains__', '__getitem__'}
READ_FUNCS = {'len', 'sorted', 'list', 'tuple', 'set', 'dict', 'frozenset', 'any', 'all', 'min', 'max', 'sum', 'enumerate', 'zip', 'reversed', 'iter', 'isinstance', 'repr', 'str', 'bool'}


def _mutable_use(repo, m, name):
    """None when every use of the module-level container `name` is a read; else the first
    use (as text) that writes it or lets it escape."""
    def classify(mod, ref, depth=0):
        p = mod.parents.get(ref)
        if isinstance(p, ast.Subscript) and p.value is ref:
            return None if isinstance(p.ctx, ast.Load) else f'`{text(mod.enclosing_stmt(p))[:60]}` stores into it'
        if isinstance(p, ast.Attribute) and p.value is ref:
            pp = mod.parents.get(p)
            if isinstance(pp, ast.Call) and pp.func is p and p.attr in READ_METHODS:
                return None
            return f'`{text(p)}` may modify it'
        if isinstance(p, ast.Compare) and ref in p.comparators and all(isinstance(o, (ast.In, ast.NotIn)) for o in p.ops):
            return None
        if isinstance(p, (ast.For, ast.comprehension)) and p.iter is ref:
            return None
        if isinstance(p, ast.Call) and ref in p.args and isinstance(p.func, ast.Name) and p.func.id in READ_FUNCS:
            return None
        if isinstance(p, ast.Assign) and ref in p.targets and mod is m and mod.parents.get(p) is mod.tree:
            return None  # the definition itself
        if isinstance(p, ast.Assign) and p.value is ref and depth == 0 and len(p.targets) == 1 and isinstance(p.targets[0], ast.Name):
            # a local alias (`checks = TABLE`): every use of the alias in that function is classified in turn
            fn = mod.enclosing_def(ref)
            alias = p.targets[0].id
            if fn is not None and not isinstance(fn, ast.Lambda) and not any(isinstance(x, (ast.Global, ast.Nonlocal)) and alias in x.names for x in ast.walk(fn)):
                for x in ast.walk(fn):
                    if isinstance(x, ast.Name) and x.id == alias and x is not p.targets[0]:
                        if isinstance(x.ctx, ast.Store):
                            continue  # rebinding the local name does not touch the table
                        r = classify(mod, x, depth + 1)
                        if r:
                            return r + f' (through the local name `{alias}`)'
                return None
        return f'`{text(mod.enclosing_stmt(ref))[:60]}` lets it escape'

    for ref in ast.walk(m.tree):
        if isinstance(ref, ast.Name) and ref.id == name:
            fn = m.enclosing_def(ref)
            # a parameter or local of the same name shadows it
            if fn is not None and not isinstance(fn, ast.Lambda) and any(a.arg == name for a in fn.args.args + fn.args.kwonlyargs):
                continue
            r = classify(m, ref)
            if r:
                return r
        if isinstance(ref, ast.Global) and name in ref.names:
            return 'rebound through `global`'
    for rel2, m2 in repo.modules.items():
        if m2 is m:
            continue
        for ref in ast.walk(m2.tree):
            if isinstance(ref, ast.ImportFrom) and any(a.name == name for a in ref.names) and ref.module and m.rel[:-3].replace('/', '.').endswith(ref.module.lstrip('.')):
                return f'imported by {rel2}'
            if isinstance(ref, ast.Attribute) and ref.attr == name and isinstance(ref.value, (ast.Name, ast.Attribute)) and text(ref.value).split('.')[-1] == m.rel.rsplit('/', 1)[-1][:-3]:
                r = classify(m2, ref)
                if r:
                    return r + f' ({rel2})'
    return None


def r12d(chk, rid='R12.d'):
    chk.rule(rid, 'scratch state written while a production parse runs (module-level objects of prodparser.py mutated inside ProdParser.parse) is reset where a parse starts (ProdParser.__init__ under `clear`)')
    m = chk.repo.mod(PROD)
    parse = m.get('ProdParser.parse')
    init = m.get('ProdParser.__init__')
    module_objs = {t.id for st in m.tree.body if isinstance(st, ast.Assign) for t in st.targets if isinstance(t, ast.Name)}
    written = {}
    for n in ast.walk(parse):
        if isinstance(n, ast.Call) and isinstance(n.func, ast.Attribute) and isinstance(n.func.value, ast.Name):
            if n.func.value.id in module_objs and n.func.attr in ('append', 'push', 'extend', 'insert'):
                written.setdefault(n.func.value.id, text(n))
    if 'savedTokens' not in written or 'tokenizer' not in written:
        raise AnalysisError(f'ProdParser.parse: scratch writes not recognised ({written})')
    reset = set()
    for n in ast.walk(init):
        if isinstance(n, ast.If) and text(n.test) == 'clear':
            for x in ast.walk(ast.Module(body=n.body, type_ignores=[])):
                if isinstance(x, ast.Call) and isinstance(x.func, ast.Attribute) and x.func.attr == 'clear' and isinstance(x.func.value, ast.Name):
                    reset.add(x.func.value.id)
                if isinstance(x, ast.Delete):
                    for t in x.targets:
                        if isinstance(t, ast.Subscript) and isinstance(t.value, ast.Name):
                            reset.add(t.value.id)
                if isinstance(x, ast.Assign):
                    for t in x.targets:
                        if isinstance(t, ast.Subscript) and isinstance(t.value, ast.Name) and isinstance(t.slice, ast.Slice):
                            reset.add(t.value.id)
    for obj, where in sorted(written.items()):
        chk.ob(rid, PROD, 'ProdParser.__init__', f'`{obj}` (written by `{where}`) is reset under `clear`', obj in reset,
               f'a token left behind by one parse (e.g. a media query that stops at ",") is consumed by the next, unrelated parse')
    # clear defaults to True and every caller keeps the default
    dflt = [const(d) for a, d in zip(init.args.args[-len(init.args.defaults):], init.args.defaults) if a.arg == 'clear']
    chk.ob(rid, PROD, 'ProdParser.__init__', 'clear defaults to True', dflt == [True], str(dflt))
    n = 0
    for rel, mod in chk.repo.modules.items():
        for c in ast.walk(mod.tree):
            if isinstance(c, ast.Call) and call_name(c).endswith('ProdParser') and rel != 'cssutils/css/cssvalue.py':
                n += 1
                off = [k for k in c.keywords if k.arg == 'clear' and const(k.value) is False] or [a for a in c.args if const(a) is False]
                if off:
                    chk.ob(rid, rel, mod.qualname_of(c), text(c), False, 'a parser created with clear=False inherits leftovers of an earlier parse')
    if n < 12:
        raise AnalysisError('ProdParser construction sites not found')
    chk.ob(rid, PROD, 'ProdParser', f'all {n} ProdParser() constructions reset the scratch state', True)


def r12e(chk, rid='R12.e'):
    chk.rule(rid, 'serializer instance state: `_level` is changed only in balanced pairs with no call that can raise in between unless protected by try/finally; other state written during serialisation (`_selectors`, `_selectorlevel`) must not survive a call')
    m = chk.repo.mod(SER)
    n_pairs = 0
    for q, fn in m.functions():
        if not q.startswith('CSSSerializer.'):
            continue
        aug = [n for n in ast.walk(fn) if isinstance(n, ast.AugAssign) and text(n.target) == 'self._level']
        if not aug:
            continue

        def risky(x):
            for c in walk_expr(x):
                if isinstance(c, ast.Call):
                    if all(isinstance(a, ast.Constant) for a in c.args) and not c.keywords:
                        continue
                    return True
            return False

        g = cfgmod.CFG(fn, may_raise=risky)
        first = [n for n in g.nodes if n.kind == 'stmt' and n.stmt in aug]
        # pair = first change and its inverse
        ups = [n for n in first if isinstance(n.stmt.op, ast.Add)]
        downs = [n for n in first if isinstance(n.stmt.op, ast.Sub)]
        # whichever comes first on the CFG is the acquire
        dom = g.dominators()
        for a in first:
            inverse = downs if a in ups else ups
            if any(b.id in dom.get(a.id, ()) for b in inverse):
                continue  # a is the releasing half
            n_pairs += 1
            esc = escapes(g, [a], lambda n: n in inverse)
            if not esc:
                chk.ob(rid, SER, q, f'`{text(a.stmt)}` is undone on every exit', True)
            for _, kind, path in esc[:1]:
                chk.ob(rid, SER, q, f'`{text(a.stmt)}` is undone on every exit', False, f'{kind} exit keeps the nesting level changed: ' + ' -> '.join(path[-4:]))
    if n_pairs < 2:
        raise AnalysisError('serializer _level pairs not found')
    # other instance state written inside do_* methods
    init = m.get('CSSSerializer.__init__')
    attrs = {text(t) for n in ast.walk(init) if isinstance(n, ast.Assign) for t in n.targets if text(t).startswith('self._')} - {'self._level'}
    for q, fn in m.functions():
        if not q.startswith('CSSSerializer.do_'):
            continue
        for n in ast.walk(fn):
            tgt = None
            if isinstance(n, (ast.Assign, ast.AugAssign)):
                for t in (n.targets if isinstance(n, ast.Assign) else [n.target]):
                    if text(t) in attrs:
                        tgt = text(t)
            elif isinstance(n, ast.Call) and isinstance(n.func, ast.Attribute) and text(n.func.value) in attrs and n.func.attr in ('append', 'extend', 'insert'):
                tgt = text(n.func.value)
            if tgt:
                # is it reset anywhere in the serializer per call?
                chk.ob(rid, SER, q, f'`{text(n)[:60]}` does not outlive the call', False,
                       f'{tgt} grows/changes across serialisations and is never reset: with indentSpecificities on, the output of a sheet depends on what was serialised before')


def r12f(chk, rid='R12.f'):
    chk.rule(rid, 'the tokenizer cache is keyed by content, decided by evaluation: Tokenizer.__init__ is evaluated on its syntax tree (compilation is a stub that returns what it was given) with a fresh cache for pairs of macro tables and production lists: equal tables share one entry, tables that differ in a name, in a definition or in the productions get entries of their own, and each tokenizer ends up with the matchers compiled from its own tables')
    from sa.absint import Evaluator, Obj, Raised

    m = chk.repo.mod('cssutils/tokenize2.py')
    fn = m.get('Tokenizer.__init__')
    P1 = [('COMMENT', '{c}'), ('URI', '{u}'), ('NUM', '{num}')]
    P2 = [('COMMENT', '{c}'), ('URI', '{u}'), ('NUM', 'x{num}')]
    M1 = {'c': 'C', 'u': 'U', 'num': '[0-9]+'}
    M1b = {'num': '[0-9]+', 'u': 'U', 'c': 'C'}  # the same table, built in another order
    M2 = {'c': 'C', 'u': 'U', 'num': '[0-7]+'}  # same names, one definition differs
    M3 = {'c': 'C', 'u': 'U', 'num': '[0-9]+', 'extra': 'E'}
    cases = [((M1, P1), (M1b, P1), True), ((M1, P1), (M2, P1), False), ((M1, P1), (M3, P1), False), ((M1, P1), (M1, P2), False), ((None, None), (None, None), True), ((None, None), (M1, P1), False)]
    for (a, b, same) in cases:
        cache = {}
        got = []
        for macros, prods in (a, b):
            me = Obj()
            me._expand_macros = lambda mac, pr: ('expanded', tuple(sorted((mac or {}).items())), tuple(pr or ()))
            me._compile_productions = lambda ex: [('COMMENT', ('matcher', ex)), ('URI', ('matcher', ex)), ('NUM', ('matcher', ex))]
            intr = {'_TOKENIZER_CACHE': cache, 'MACROS': {'c': 'DEFAULT'}, 'PRODUCTIONS': [('COMMENT', 'D'), ('URI', 'D')]}
            r = Evaluator(fn, intrinsics=intr, module=m, cls='Tokenizer').run(self=me, macros=macros, productions=prods, doComments=True)
            if isinstance(r, Raised):
                raise AnalysisError(f'Tokenizer.__init__: {r!r}')
            got.append(me.tokenmatches)
        own = [('expanded', tuple(sorted((mc or {'c': 'DEFAULT'}).items())), tuple(pr or [('COMMENT', 'D'), ('URI', 'D')])) for mc, pr in (a, b)]
        ok = (len(cache) == (1 if same else 2)) and all(g[0][1] == ('matcher', o) for g, o in zip(got, own))
        chk.ob(rid, 'cssutils/tokenize2.py', 'Tokenizer.__init__', f'macros {sorted((a[0] or {}).items())[:2]}... vs {sorted((b[0] or {}).items())[:2]}...: ' + ('one cache entry' if same else 'separate cache entries') + ', each tokenizer gets the matchers of its own tables', ok,
               f'{len(cache)} cache entries; the second tokenizer uses matchers compiled from {got[1][0][1][1][1][:3] if got[1] else None}: its tokens depend on which tokenizer was created first')


def r12g(chk, rid='R12.g'):
    chk.rule(rid, 'one parser, independent results, decided by evaluation: CSSParser.__init__ and then CSSParser.parseString - twice on the same parser object - are evaluated on their syntax trees with model sheet and media-list classes that make a new object per construction: every mutable object handed to the second sheet (its media list, its token source) is another object than the one handed to the first, and the second call is given the same arguments as if it were the first call of a fresh parser')
    chk.assume('R12.g: MediaList, CSSStyleSheet and the tokenizer are models that record their constructor arguments; the error-mode switch is evaluated from the source against a model log object')
    from sa.absint import Evaluator, Obj, Raised, Record

    m = chk.repo.mod(PARSE)
    init = m.get('CSSParser.__init__')
    ps = m.get('CSSParser.parseString')
    made_media, sheets = [], []

    class MediaListM(Record):
        def __init__(self, mediaText=None, *a, **k):
            Record.__init__(self, mediaText=mediaText, items=[])
            made_media.append(self)

    def newsheet(**k):
        sh = Obj(args=k)
        sh._setFetcher = lambda f: None
        sh._setCssTextWithEncodingOverride = lambda toks, encodingOverride=None, encoding=None: None
        sheets.append(sh)
        return sh

    log = Record(raiseExceptions=False, setLog=lambda l: None, setLevel=lambda l: None)
    cssm = Record(log=log, css=Record(CSSStyleSheet=newsheet), stylesheets=Record(MediaList=MediaListM), codec=Record(detectencoding_str=lambda b, final=False: ('utf-8', False)))
    intr = {'cssutils': cssm, 'tokenize2': Record(Tokenizer=lambda **k: Obj(tokenize=lambda text_, fullsheet=False: iter([('IDENT', text_, 1, 1)]))),
            'codecs.getdecoder': lambda name: (lambda b, encoding=None: ('decoded', len(b))), 'codec': cssm.codec}

    def run_twice():
        del made_media[:], sheets[:]
        me = Obj()
        r = Evaluator(init, intrinsics=intr, module=m, cls='CSSParser', model_types=(MediaListM,)).run(self=me)
        if isinstance(r, Raised):
            raise AnalysisError(f'CSSParser.__init__: {r!r}')
        for _ in (1, 2):
            r = Evaluator(ps, intrinsics=intr, module=m, cls='CSSParser', model_types=(MediaListM,)).run(self=me, cssText='a{}')
            if isinstance(r, Raised):
                raise AnalysisError(f'CSSParser.parseString: {r!r}')
        return list(sheets)

    got = run_twice()
    if len(got) != 2:
        raise AnalysisError(f'CSSParser.parseString: {len(got)} sheets constructed in two calls')
    a, b = got
    shared = sorted(k for k in a.args if isinstance(a.args[k], (Record, list, dict, set)) and a.args[k] is b.args.get(k))
    chk.ob(rid, PARSE, 'CSSParser.parseString', 'two sheets parsed by one parser object share no mutable constructor argument', not shared,
           f'both sheets are given the same object as {shared}: editing it on one result changes the other, and later results of this parser are born with the edit')
    same = {k: (getattr(a.args.get(k), 'mediaText', a.args.get(k)), getattr(b.args.get(k), 'mediaText', b.args.get(k))) for k in set(a.args) | set(b.args)}
    diff = {k: v for k, v in same.items() if v[0] != v[1]}
    chk.ob(rid, PARSE, 'CSSParser.parseString', 'the second call of a parser object constructs its sheet like the first', not diff, f'{diff}')


def r12h(chk, rid='R12.h'):
    chk.rule(rid, 'a parse leaves the global error mode as it found it, whatever happened before, decided by evaluation: CSSParser.__init__ and then parseString / parseStyle are evaluated on their syntax trees against a model log object through histories in which the global mode is changed between construction and the parses - to the parser\'s own parse-time mode and away from it, for a raising and a non-raising parser: after every parse that returns normally the global mode is the one that was in force when the parse began, and during the parse it is the parser\'s own')
    chk.assume('R12.h: sheet, declaration block and tokenizer are models; the mode in force during the parse is observed when the sheet model is constructed')
    from sa.absint import Evaluator, Obj, Raised, Record

    m = chk.repo.mod(PARSE)
    init = m.get('CSSParser.__init__')
    bad = []
    n = 0
    for own in (False, True):
        for method, args in (('parseString', {'cssText': 'a{}'}), ('parseStyle', {'cssText': 'a:b'})):
            log = Record(raiseExceptions=False, setLog=lambda l: None, setLevel=lambda l: None)
            during = []

            class ML(Record):
                def __init__(self, *a, **k):
                    Record.__init__(self)

            def newsheet(**k):
                during.append(log.raiseExceptions)
                sh = Obj(args=k)
                sh._setFetcher = lambda f: None
                sh._setCssTextWithEncodingOverride = lambda toks, encodingOverride=None, encoding=None: None
                return sh

            def newstyle(*a, **k):
                during.append(log.raiseExceptions)
                return Obj()

            cssm = Record(log=log, css=Record(CSSStyleSheet=newsheet, CSSStyleDeclaration=newstyle), stylesheets=Record(MediaList=ML), codec=Record(detectencoding_str=lambda b, final=False: ('utf-8', False)))
            intr = {'cssutils': cssm, 'css': cssm.css, 'tokenize2': Record(Tokenizer=lambda **k: Obj(tokenize=lambda text_, fullsheet=False: iter([('IDENT', text_, 1, 1)]))),
                    'codecs.getdecoder': lambda name: (lambda b, encoding=None: ('decoded', len(b))), 'codec': cssm.codec}
            for start_global in (False, True):
                log.raiseExceptions = start_global
                me = Obj()
                r = Evaluator(init, intrinsics=intr, module=m, cls='CSSParser', model_types=(ML,)).run(self=me, raiseExceptions=own)
                if isinstance(r, Raised):
                    raise AnalysisError(f'CSSParser.__init__: {r!r}')
                for before in (True, False, own, not own, own):
                    log.raiseExceptions = before
                    del during[:]
                    r = Evaluator(m.get(f'CSSParser.{method}'), intrinsics=intr, module=m, cls='CSSParser', model_types=(ML,)).run(self=me, **args)
                    n += 1
                    if isinstance(r, Raised):
                        raise AnalysisError(f'CSSParser.{method}: {r!r}')
                    if log.raiseExceptions is not before or during != [own]:
                        bad.append(f'{method} of a parser with raiseExceptions={own} (built under global mode {start_global}) run under global mode {before}: mode {during} during the parse, {log.raiseExceptions} afterwards')
    chk.extra['error_mode_histories'] = n
    chk.ob(rid, PARSE, 'CSSParser', f'all {n} parses restore the global error mode they started under and run in the mode of the parser', not bad, '; '.join(bad[:2]) + ': a parse that returns normally flips cssutils.log.raiseExceptions for the rest of the process')
