"""C05 - tokenizer: total, lossless, position-accurate, classifies by grammar."""
from __future__ import annotations

from sa.core import pool_repo as core_pool_repo, pmap as core_pmap  # noqa: E402

import ast

from sa import rx
from sa.core import AnalysisError, const, literal, text

from . import tokrules
from .tables import TokTables, class_regex
from .tokrules import PRODS, TOK, is_progress, tokenize_loop


def run(chk):
    tt = TokTables(chk.repo)
    chk.attempt(tokrules.r01c, chk)
    chk.attempt(tokrules.r01d, chk)
    chk.attempt(r05a, chk)
    chk.attempt(r05b, chk, tt)
    chk.attempt(r05c, chk, tt)
    chk.attempt(r05d, chk, tt)
    chk.attempt(r05e, chk, tt)
    chk.attempt(r05g, chk, tt)
    chk.attempt(r05h, chk)
    chk.attempt(r05i, chk, thorough=chk.tier == 'thorough')
    chk.attempt(r05j, chk)
    chk.attempt(r05k, chk)
    chk.attempt(r05l, chk)


def r05a(chk, rid='R05.a'):
    chk.rule(
        rid,
        'tiling bookkeeping in Tokenizer.tokenize: every token yielded inside the main loop is '
        'followed on all paths by exactly one position update; line/col are updated in the same '
        'block as pos, after the yield, outside the comment filter; yielded tuples carry (line, col) '
        'of the token start',
    )
    fn, g, w, f = tokenize_loop(chk)
    m = chk.repo.mod(TOK)
    inloop = set(ast.walk(w.stmt))
    ynodes = [n for n in g.nodes if n.kind == 'stmt' and n.stmt in inloop and any(isinstance(x, ast.Yield) for x in ast.walk(n.stmt))]
    if len(ynodes) < 3:
        raise AnalysisError('Tokenizer.tokenize: fewer than 3 yield statements in the main loop')
    for y in ynodes:
        seen = g.reachable([y.id], avoid=is_progress)
        ok = w.id not in seen
        chk.ob(rid, TOK, 'Tokenizer.tokenize', f'after `{text(y.stmt)}` the position advances before the next token',
               ok, '' if ok else 'path: ' + ' -> '.join(g.path(seen, {y.id}, w.id)[-6:]))
    for p in [n for n in g.nodes if is_progress(n) and n.stmt in inloop]:
        seen = g.reachable([p.id], avoid=lambda n: n.id == w.id)
        twice = [n for n in seen if is_progress(g.nodes[n])]
        chk.ob(rid, TOK, 'Tokenizer.tokenize', f'`{text(p.stmt)}` is the only position update of its iteration',
               not twice, 'a second update follows in the same iteration: ' + ', '.join(text(g.nodes[n].stmt) for n in twice))
    # every yield in the function carries (line, col)
    for n in ast.walk(fn):
        if isinstance(n, ast.Yield) and isinstance(n.value, ast.Tuple):
            ok = len(n.value.elts) == 4 and text(n.value.elts[2]) == 'line' and text(n.value.elts[3]) == 'col'
            chk.ob(rid, TOK, 'Tokenizer.tokenize', f'`{text(n)}` reports the running (line, col)', ok,
                   'token position is not the tokenizer position at the start of the token')
    # line/col bookkeeping beside each position update
    for p in [n for n in g.nodes if is_progress(n) and n.stmt in inloop and text(n.stmt) != 'pos = _len_text']:
        block = _block_of(m, p.stmt)
        idx = block.index(p.stmt)
        names = set()
        yield_idx = [i for i, st in enumerate(block) if any(isinstance(x, ast.Yield) for x in ast.walk(st))]
        for st in block:
            for x in ast.walk(st):
                if isinstance(x, (ast.Assign, ast.AugAssign)):
                    for t in (x.targets if isinstance(x, ast.Assign) else [x.target]):
                        for tn in ([t] if not isinstance(t, (ast.Tuple, ast.List)) else t.elts):
                            if isinstance(tn, ast.Name):
                                names.add(tn.id)
        # which names feed the line/col bookkeeping (through locals defined in the block)?
        ynames = set()
        for st in block:
            for y in ast.walk(st):
                if isinstance(y, ast.Yield) and isinstance(y.value, ast.Tuple) and len(y.value.elts) == 4:
                    ynames |= {x.id for x in y.value.elts[:2] if isinstance(x, ast.Name)}
        feeds = set()
        work = ['line', 'col']
        seen_defs = set()
        while work:
            v = work.pop()
            for st in block:
                for x in ast.walk(st):
                    tg = None
                    if isinstance(x, ast.Assign):
                        tg = [t for t in x.targets for t in ([t] if not isinstance(t, (ast.Tuple, ast.List)) else t.elts)]
                    elif isinstance(x, ast.AugAssign):
                        tg = [x.target]
                    if tg and any(isinstance(t, ast.Name) and t.id == v for t in tg) and id(x) not in seen_defs:
                        seen_defs.add(id(x))
                        used = {n_.id for n_ in ast.walk(x.value) if isinstance(n_, ast.Name)}
                        # conditions the definition is control-dependent on, inside the block
                        holder = m.parents.get(p.stmt)
                        par = m.parents.get(x)
                        while par is not None and par is not holder and not isinstance(par, ast.FunctionDef):
                            if isinstance(par, ast.If):
                                used |= {n_.id for n_ in ast.walk(par.test) if isinstance(n_, ast.Name)}
                            par = m.parents.get(par)
                        feeds |= used
                        work.extend(u for u in used if u not in ('line', 'col', 'self', 'found', 'len', 'pos'))
        dep = sorted(feeds & ynames)
        if ynames and text(p.stmt) != 'pos += 1':
            chk.ob(rid, TOK, 'Tokenizer.tokenize', f'`{text(p.stmt)}`: line/col are computed from the matched text alone, not from the token type or its decoded value', not dep,
                   f'the bookkeeping depends on {dep}: every token kind can contain a line feed (an escape such as \\44 may be ended by one), so line numbers drift for the kinds that are treated differently')
        need = {'col'} if text(p.stmt) == 'pos += 1' else {'col', 'line'}
        chk.ob(rid, TOK, 'Tokenizer.tokenize', f'`{text(p.stmt)}`: {sorted(need)} updated in the same block',
               need <= names, f'only {sorted(names & {"line", "col"})} are updated beside the position')
        chk.ob(rid, TOK, 'Tokenizer.tokenize', f'`{text(p.stmt)}`: the token is yielded before the position moves',
               bool(yield_idx) and max(yield_idx) < idx, 'the yield would report the position after the token')
        # col/line updates themselves must not be under the doComments filter
        for st in block:
            if isinstance(st, ast.If) and '_doComments' in text(st.test):
                inner = [x for x in st.body + st.orelse]
                only_yield = all(isinstance(x, ast.Expr) and isinstance(x.value, (ast.Yield, ast.YieldFrom)) for x in inner)
                chk.ob(rid, TOK, 'Tokenizer.tokenize', 'the comment filter guards nothing but the yield',
                       only_yield, 'bookkeeping under the comment switch: positions would depend on parseComments: ' + '; '.join(text(x) for x in inner))
    # line counting: _linesep is the line feed
    ls = const(m.class_assign('Tokenizer', '_linesep'))
    chk.ob(rid, TOK, 'Tokenizer', "_linesep == '\\n' (lines are counted by line feeds)", ls == '\n', f'_linesep = {ls!r}')


def _block_of(m, stmt):
    par = m.parents[stmt]
    for field in ('body', 'orelse', 'finalbody'):
        b = getattr(par, field, None)
        if isinstance(b, list) and stmt in b:
            return b
    raise AnalysisError('statement block not found')


ORDER = [
    ('URI', 'FUNCTION', 'url( with content must not be read as FUNCTION'),
    ('IDENT', 'FUNCTION', 'the IDENT-then-( retry relies on IDENT being tried first'),
    ('UNICODE-RANGE', 'IDENT', 'U+26 would be read as IDENT U'),
    ('DIMENSION', 'NUMBER', '12px would be read as NUMBER 12 + IDENT'),
    ('PERCENTAGE', 'NUMBER', '12% would be read as NUMBER 12 + CHAR'),
    ('STRING', 'INVALID', 'every complete string is also a prefix-match of INVALID'),
    ('CDC', 'CHAR', ''),
    ('CDO', 'CHAR', ''),
    ('INCLUDES', 'CHAR', ''),
    ('DASHMATCH', 'CHAR', ''),
    ('PREFIXMATCH', 'CHAR', ''),
    ('SUFFIXMATCH', 'CHAR', ''),
    ('SUBSTRINGMATCH', 'CHAR', ''),
    ('COMMENT', 'CHAR', ''),
    ('HASH', 'CHAR', ''),
    ('ATKEYWORD', 'CHAR', ''),
    ('NUMBER', 'CHAR', ''),
    ('S', 'CHAR', ''),
]


def r05b(chk, tt, rid='R05.b'):
    chk.rule(rid, 'ordering beliefs of the production list hold (first match wins): the pairs listed in the checker, each with the input that would be misread; settings.set inserts the MS production after BOM')
    names = tt.names()
    for a, b, why in ORDER:
        if a not in names or b not in names:
            raise AnalysisError(f'production {a} or {b} vanished')
        chk.ob(rid, PRODS, 'PRODUCTIONS', f'{a} before {b}', names.index(a) < names.index(b), why or f'{a} would be shadowed by {b}')
    chk.ob(rid, PRODS, 'PRODUCTIONS', 'production names are unique', len(set(names)) == len(names), str(names))
    # settings.set
    sm = chk.repo.mod('cssutils/settings.py')
    fn = sm.get('set')
    ins = [n for n in ast.walk(fn) if isinstance(n, ast.Call) and text(n.func).endswith('PRODUCTIONS.insert')]
    if len(ins) != 1:
        raise AnalysisError('settings.set: PRODUCTIONS.insert not found')
    idx = const(ins[0].args[0])
    chk.ob(rid, 'cssutils/settings.py', 'set', text(ins[0]), idx == 1, 'the MS production must come after BOM (index 0 is only tried at offset 0) and before IDENT/FUNCTION')
    clears = [n for n in ast.walk(fn) if isinstance(n, ast.Call) and text(n.func).endswith('_TOKENIZER_CACHE.clear')]
    chk.ob(rid, 'cssutils/settings.py', 'set', 'the compiled-production cache is cleared when PRODUCTIONS changes', bool(clears), 'stale compiled productions would be used')


def r05c(chk, tt, rid='R05.c'):
    chk.rule(rid, "IDENT/FUNCTION guard: L(FUNCTION) = L(IDENT)·'(' (automata equivalence), IDENT is tried first, and the IDENT branch skips to FUNCTION only when the next character is '(' and the ident is not `and`")
    ok, detail = tokrules.function_guard(chk.repo, tt)
    chk.ob(rid, TOK, 'Tokenizer.tokenize', 'IDENT followed by ( is re-read as FUNCTION', ok, detail)
    fn = chk.repo.fn(TOK, 'Tokenizer.tokenize')
    found = False
    for n in ast.walk(fn):
        if isinstance(n, ast.If) and any(isinstance(s, ast.Continue) for s in n.body):
            ts = [text(c) for c in (n.test.values if isinstance(n.test, ast.BoolOp) else [n.test])]
            if "name == 'IDENT'" in ts:
                found = True
                chk.ob(rid, TOK, 'Tokenizer.tokenize', "`and(` stays IDENT (media queries)", any('"and"' in t.replace("'", '"') and '.lower()' in t for t in ts), str(ts))
                chk.ob(rid, TOK, 'Tokenizer.tokenize', 'the guard checks the end of text before indexing', any('match.end(0) < len(text)' in t for t in ts), str(ts))
    if not found:
        raise AnalysisError('IDENT guard not found')


LETTERS = 'ABCDEFGHIKLMNOPRSTUVXZ'


def r05d(chk, tt, rid='R05.d'):
    chk.rule(
        rid,
        'sibling regular languages agree: Tokenizer.unicodesub == macro {unicode}; every letter macro '
        'accepts exactly upper/lower/hex-escape(+optional terminator)/simple-escape of its own letter '
        '(required-language ⊆ macro ⊆ allowed-language, decided on automata)',
    )
    m = chk.repo.mod(TOK)
    pat, flags, method = class_regex(m, 'Tokenizer', 'unicodesub')
    a = rx.compile_nfa(pat, flags)
    b = tt.macro_nfa('unicode')
    eq, w = rx.equivalent(a, b)
    chk.ob(rid, TOK, 'Tokenizer', 'unicodesub denotes the language of macro {unicode}', eq,
           f'they differ on {w!r}: an escape the grammar accepts is not decoded (or vice versa)')
    chk.ob(rid, TOK, 'Tokenizer', 'unicodesub is applied with .sub', method == 'sub', f'method {method}')
    present = [l for l in LETTERS if l in tt.macros]
    if len(present) < 22:
        raise AnalysisError('letter macros vanished')
    ws = r'(?:\r\n|[ \t\r\n\f])?'
    for L in present:
        lo, up = ord(L.lower()), ord(L)
        simple = '' if L in 'ABCDEF' else r'|\\%s|\\%s' % (L, L.lower())
        required = r'%s|%s|\\0{0,4}(?:%x|%x)%s%s' % (L, L.lower(), up, lo, ws, simple)
        allowed = r'%s|%s|\\0{0,4}(?:%s|%s)%s%s' % (L, L.lower(), _ci('%x' % up), _ci('%x' % lo), ws, simple)
        mac = tt.macro_nfa(L)
        req = rx.compile_nfa(required)
        alw = rx.compile_nfa(allowed)
        ok1, w1 = _subset(req, mac)
        ok2, w2 = _subset(mac, alw)
        chk.ob(rid, PRODS, 'MACROS', f'letter macro {L} accepts every spelling of {L!r}', ok1, f'{w1!r} is a spelling of {L} the macro refuses')
        chk.ob(rid, PRODS, 'MACROS', f'letter macro {L} accepts only spellings of {L!r}', ok2, f'{w2!r} is accepted but does not spell {L}')
    # the keyword productions use their own letters
    uri = dict(tt.productions)['URI']
    chk.ob(rid, PRODS, 'PRODUCTIONS', 'URI starts with {U}{R}{L}\\(', uri.startswith(r'{U}{R}{L}\('), uri)
    ur = dict(tt.productions)['UNICODE-RANGE']
    chk.ob(rid, PRODS, 'PRODUCTIONS', 'UNICODE-RANGE starts with {U}\\+', ur.startswith(r'{U}\+'), ur)


def _ci(hexs):
    return ''.join(f'[{c}{c.upper()}]' if c.isalpha() else c for c in hexs)


def _subset(a, b):
    """L(a) ⊆ L(b)?  via product with complement-by-subset construction."""
    cells = rx.partition(list(a.cs) + list(b.cs))

    def st(nfa, s, c):
        if s is None:
            return None
        t = nfa.start_step(c) if s == 'S' else nfa.step(s, c)
        return t or None

    seen = {('S', 'S'): ''}
    todo = [('S', 'S')]
    while todo:
        x, y = todo.pop()
        w = seen[(x, y)]
        if rx._acc(a, x) and not rx._acc(b, y):
            return False, w
        for c in cells:
            nx = st(a, x, c)
            if nx is None:
                continue
            key = (nx, st(b, y, c))
            if key not in seen:
                seen[key] = w + chr(c)
                todo.append(key)
    return True, None


def r05e(chk, tt, rid='R05.e'):
    chk.rule(rid, 'at-keyword table: each key is the normalised spelling (lower case, no escapes) of its symbol, each value names a constant of CSSProductions; the misplaced-@charset branch requires the trailing space')
    m = chk.repo.mod(TOK)
    node = m.class_assign('Tokenizer', '_atkeywords')
    if not isinstance(node, ast.Dict) or len(node.keys) < 6:
        raise AnalysisError('_atkeywords is not a dict literal with >= 6 entries')
    pm = chk.repo.mod(PRODS)
    consts = {}
    for st in pm.get('CSSProductions', ast.ClassDef).body:
        if isinstance(st, ast.Assign) and isinstance(const(st.value), str):
            consts[st.targets[0].id] = st.value.value
    ident = tt.nfa('ATKEYWORD')
    for k, v in zip(node.keys, node.values):
        ks = const(k)
        want = ks[1:].upper().replace('-', '_') + '_SYM' if isinstance(ks, str) else None
        ok = isinstance(ks, str) and ks == ks.lower() and '\\' not in ks and rx.accepts(ident, ks)
        chk.ob(rid, TOK, 'Tokenizer._atkeywords', f'key {ks!r} is a normalised ATKEYWORD', ok, 'the lookup uses _normalize(found): a key in another spelling is never hit')
        got = v.attr if isinstance(v, ast.Attribute) else None
        chk.ob(rid, TOK, 'Tokenizer._atkeywords', f'{ks!r} -> CSSProductions.{want}', got == want and consts.get(got) == want, f'maps to {text(v)}')


LEXICAL = {
    'nonascii': r'[^\x00-\x7f]',
    'nl': r'\n|\r\n|\r|\f',
    's': r'[ \t\r\n\f]',
    'w': r'[ \t\r\n\f]*',
    'num': r'[+-]?(?:[0-9]*\.[0-9]+|[0-9]+)',
    'unicode': r'\\[0-9a-fA-F]{1,6}(?:\r\n|[ \t\r\n\f])?',
    'nmstart': r'[_a-zA-Z]|[^\x00-\x7f]|(?:\\[0-9a-fA-F]{1,6}(?:\r\n|[ \t\r\n\f])?|\\[^\n\r\f0-9a-f])',
    'nmchar': r'[-_a-zA-Z0-9]|[^\x00-\x7f]|(?:\\[0-9a-fA-F]{1,6}(?:\r\n|[ \t\r\n\f])?|\\[^\n\r\f0-9a-f])',
}


def r05g(chk, tt, rid='R05.g'):
    chk.rule(rid, 'the basic lexical macros denote the languages of the CSS grammar (decided by automata equivalence against patterns written in the checker): nonascii, nl, s, w, num (ASCII digits only, optional sign), unicode, nmstart, nmchar; NUMBER/PERCENTAGE/DIMENSION/HASH/IDENT are built from them')
    for name, oracle in LEXICAL.items():
        a = tt.macro_nfa(name)
        b = rx.compile_nfa('(?:%s)' % oracle, tt.flags)
        eq, w = rx.equivalent(a, b)
        chk.ob(rid, PRODS, 'MACROS', f'macro {{{name}}} denotes the grammar\'s {name}', eq,
               f'differs from the grammar on {w!r}: tokens are classified differently for such input (e.g. a non-ASCII digit becoming part of a NUMBER)')
    prods = dict(tt.productions)
    want = {'NUMBER': r'{num}', 'PERCENTAGE': r'{num}\%', 'DIMENSION': r'{num}{ident}', 'HASH': r'\#{name}', 'IDENT': r'{ident}', 'ATKEYWORD': r'@{ident}', 'S': r'{s}+', 'STRING': r'{string}', 'INVALID': r'{invalid}', 'COMMENT': r'{comment}'}
    for k, v in want.items():
        chk.ob(rid, PRODS, 'PRODUCTIONS', f'{k} = {v}', prods.get(k) == v, f'is {prods.get(k)!r}')
    ident = rx.compile_nfa('(?:-{0,2}(?:%s)(?:%s)*)' % (LEXICAL['nmstart'], LEXICAL['nmchar']), tt.flags)
    eq, w = rx.equivalent(tt.macro_nfa('ident'), ident)
    chk.ob(rid, PRODS, 'MACROS', 'macro {ident} = up to two hyphens, nmstart, nmchar*', eq, f'differs on {w!r}')
    name = rx.compile_nfa('(?:(?:%s)+)' % LEXICAL['nmchar'], tt.flags)
    eq, w = rx.equivalent(tt.macro_nfa('name'), name)
    chk.ob(rid, PRODS, 'MACROS', 'macro {name} = nmchar+', eq, f'differs on {w!r}')



def r05h(chk, rid='R05.h'):
    chk.rule(rid, 'the position helpers of the tokenizer, decided by evaluation: has_at(text, pos, s) and suffix_eq(text, pos, s) are evaluated on their syntax trees for all strings over a two-letter alphabet up to length four, every position and every pattern up to length three (the functions only compare characters, so two letters exhaust their behaviour): has_at is exactly text[pos:pos+len(s)] == s and suffix_eq exactly text[pos:] == s')
    chk.assume('R05.h: has_at and suffix_eq compare characters only, so a two-letter alphabet exhausts their behaviour')
    import itertools

    from sa.absint import Evaluator, Raised

    m = chk.repo.mod(TOK)
    words = [''.join(w) for n in range(0, 5) for w in itertools.product('ab', repeat=n)]
    pats = [w for w in words if len(w) <= 3]
    for name, spec in (('has_at', lambda t, p, s: t[p:p + len(s)] == s), ('suffix_eq', lambda t, p, s: t[p:] == s)):
        fn = m.get(name)
        params = [a.arg for a in fn.args.args]
        ev = Evaluator(fn, module=m)
        n = 0
        bad = []
        for t in words:
            for p_ in range(0, len(t) + 1):  # positions inside the text or at its end
                for s_ in pats:
                    got = ev.run(**dict(zip(params, (t, p_, s_))))
                    n += 1
                    if isinstance(got, Raised) or bool(got) != spec(t, p_, s_):
                        bad.append(f'{name}({t!r}, {p_}, {s_!r}) gives {got!r}')
        chk.ob(rid, TOK, name, f'all {n} cases agree with the slice comparison it stands for', not bad, f'{len(bad)} differ, e.g. {bad[:2]}: the end-of-input completion of strings and comments fires in the middle of the text (or not at its end)')


PIECES = ['a', 'B1', '-x', ' ', '\n', '\t', '\r\n', '\f', ';', '{', '}', ':', '(', ')', ',', '.', '+', '1', '.5', '1px', '50%', '"s"', "'s'", '"a\\\nb"', '"a\nb"',
          '/*c*/', '/*c\nd*/', '@media', '@charset', '@charset ', '@CHARSET ', '@charset\t', '@charset\n', '@import', '@x', '#h', 'f(', 'url(x)', 'url( "x" )', 'U+26', '~=', '|=', '<!--', '-->',
          '\\41 ', '\\41\n', 'a\\\n', '@', '\\', '!important', '\xe9', 'and(', 'or(', '"open', '/*open', 'url(open', '"open\n', '/*open\n']
# pieces that occur in every thorough triple position; the quick tier uses all pairs
CORE = ['a', ' ', '\n', ';', '"a\\\nb"', '/*c\nd*/', '@charset ', '@charset\t', '@charset\n', '@x', '\\41\n', 'url( "x" )', '"open', '/*open\n', 'f(', '1px']
RAW_KINDS = ('S', 'CHAR', 'NUMBER', 'PERCENTAGE', 'ATKEYWORD', 'CHARSET_SYM', 'IMPORT_SYM', 'MEDIA_SYM', 'PAGE_SYM', 'NAMESPACE_SYM', 'FONT_FACE_SYM', 'VARIABLES_SYM',
             'CDO', 'CDC', 'INCLUDES', 'DASHMATCH', 'PREFIXMATCH', 'SUFFIXMATCH', 'SUBSTRINGMATCH', 'BOM', 'IMPORTANT_SYM')

_TOKEVAL = {}


def _tokenizer_model(repo):
    """Tokenizer.tokenize as an evaluable tree whose yields also report the running offset, with the
    matcher table compiled from MACROS/PRODUCTIONS the way Tokenizer.__init__ does (TokTables)."""
    import copy
    import re

    from sa.absint import Record

    from .tables import TokTables

    tt = TokTables(repo)
    tm = repo.mod(TOK)
    fn = copy.deepcopy(tm.get('Tokenizer.tokenize'))
    n = 0
    for x in ast.walk(fn):
        if isinstance(x, ast.Yield) and isinstance(x.value, ast.Tuple) and len(x.value.elts) == 4:
            x.value.elts.append(ast.Name(id='pos', ctx=ast.Load()))
            n += 1
    if n < 4:
        raise AnalysisError('Tokenizer.tokenize: token yields not found')
    ast.fix_missing_locations(fn)
    matches = [(nm, re.compile(tt.full(nm), tt.flags).match) for nm in tt.names()]
    pm = repo.mod(PRODS)
    consts = {}
    for st in pm.get('CSSProductions').body:
        if isinstance(st, ast.Assign) and isinstance(st.targets[0], ast.Name):
            try:
                consts[st.targets[0].id] = ast.literal_eval(st.value)
            except ValueError:
                pass
    by = dict(matches)
    return fn, tm, matches, Record(**consts), by


def tokenize_text(repo, text_, fullsheet=True, comments=True):
    from sa.absint import Evaluator, Record

    if getattr(repo, '_tokenizer_model', None) is None:
        repo._tokenizer_model = _tokenizer_model(repo)  # kept on the Repo object: one model per analysed tree
    fn, tm, matches, cp, by = repo._tokenizer_model
    me = Record(tokenmatches=matches, _doComments=comments, _pushed=[], commentmatcher=by['COMMENT'], urimatcher=by['URI'])
    return Evaluator(fn, intrinsics={'CSSProductions': cp, 'sys': Record(maxunicode=0x10FFFF)}, module=tm, cls='Tokenizer').run(self=me, text=text_, fullsheet=fullsheet)


def _position_problems(repo, text_):
    """Problems of the token stream of `text_` against the reference: offsets tile the text, line = 1 + line
    feeds before the token, column = distance from the last line feed (a leading BOM has no width)."""
    from sa.absint import Raised

    out = []
    for full in (True, False):
        toks = tokenize_text(repo, text_, fullsheet=full)
        if isinstance(toks, Raised):
            return [f'raises {toks!r}']
        prev = 0
        for i, t in enumerate(toks):
            name, value, line, col, pos = t
            if pos < prev or (i and pos == prev and toks[i - 1][0] != 'BOM' and name != 'EOF') or (pos > len(text_) and name != 'EOF'):
                out.append(f'{name} {value!r} starts at offset {pos} after a token at {prev}: the spans do not tile the text')
                break
            prev = pos
            wl = 1 + text_.count('\n', 0, pos)
            last = text_.rfind('\n', 0, pos)
            wc = pos - last if last >= 0 else pos + 1
            if name == 'EOF':
                break  # the end marker has no first character; only its place at the end is checked below
            if (line, col) != (wl, wc):
                out.append(f'{name} {value!r} at offset {pos} is reported at {line}:{col}, it stands at {wl}:{wc}')
                break
            nxt = toks[i + 1][4] if i + 1 < len(toks) else len(text_)
            span = text_[pos:nxt]
            completed = full and nxt == len(text_) and (i + 1 == len(toks) or toks[i + 1][0] == 'EOF')
            if name in RAW_KINDS and not completed and value != span:
                out.append(f'{name} {value!r} at offset {pos} covers {span!r}: the value is not the text of the token')
                break
        if full:
            if not toks or toks[-1][0] != 'EOF' or toks[-1][4] < len(text_) or [t for t in toks[:-1] if t[0] == 'EOF']:
                out.append(f'the end marker stands at offset {toks[-1][4] if toks else None} of {len(text_)}')
    return out


def _pos_job(args):
    root, texts = args
    from sa.core import Repo

    repo = core_pool_repo(root)
    res = []
    for t in texts:
        p = _position_problems(repo, t)
        if p:
            res.append((t, p[0]))
    return res


def r05i(chk, rid='R05.i', thorough=False):
    chk.rule(rid, 'tiling and positions of the whole tokenizer, decided by evaluation: Tokenizer.tokenize is evaluated on its own syntax tree - its yields extended by the running offset, its matcher table compiled from MACROS and PRODUCTIONS the way the constructor does - on every concatenation of two (thorough tier: also three) pieces from a list of token texts that contains every line-break convention, escaped and raw line breaks inside strings and comments, escapes ended by a line feed, the @charset forms, and the constructs that are completed at the end of input, in full-sheet and fragment mode: offsets increase and end at the length of the text, every token reports line = 1 + line feeds before it and column = distance from the last line feed (the byte order mark production is left out: it is matched against undecoded bytes), and the value of every kind that is not decoded equals the text it covers')
    chk.assume('R05.i: position bookkeeping is per token and depends on the matched text only (R05.a), so all pairs / triples of pieces that contain every way a token can hold a line break exercise it; the regular expression engine is the host\'s')
    import itertools
    import multiprocessing as mp

    texts = [a + b for a, b in itertools.product(PIECES, repeat=2)] + list(PIECES)
    if thorough:
        texts += [a + b + c for a in CORE for b in PIECES for c in CORE]
    texts = sorted(set(texts))
    root = chk.repo.root
    jobs = 12 if thorough else 4
    chunks = [(root, texts[i::jobs * 4]) for i in range(jobs * 4)]
    if len(texts) < 3000:
        raise AnalysisError('R05.i: corpus too small')
    res = [x for part in core_pmap(chk.repo, _pos_job, chunks, jobs) for x in part]
    chk.extra['tokenizer_position_texts'] = len(texts)
    # group by the kind of problem so that one cause is one finding
    groups = {}
    for t, p in sorted(res, key=lambda x: (len(x[0]), x[0])):
        kind = 'tile' if 'tile' in p or 'end marker' in p else 'position' if 'is reported at' in p else 'value' if 'covers' in p else 'raise'
        first = p.split(' ')[0]
        groups.setdefault((kind, first), []).append((t, p))
    labels = {'tile': 'token spans tile the text', 'position': 'tokens report the line and column of their first character', 'value': 'the value of a token that is not decoded is the text it covers', 'raise': 'tokenising does not raise'}
    for kind, label in labels.items():
        mine = {k: v for k, v in groups.items() if k[0] == kind}
        if not mine:
            chk.ob(rid, TOK, 'Tokenizer.tokenize', f'{label} ({len(texts)} texts)', True)
        for (k, first), v in sorted(mine.items()):
            chk.ob(rid, TOK, 'Tokenizer.tokenize', f'{label}: {first} tokens', False, f'{len(v)} texts, e.g. {v[0][0]!r}: {v[0][1]}')


def r05j(chk, rid='R05.j'):
    chk.rule(rid, 'error reports carry the position of the token they complain about, decided by evaluation: the handler of _ErrorHandler (the function every log call ends in) is evaluated on its syntax tree with model exception classes, in raising and in logging mode, for a token given as a tuple, as an object, and for no token, also in that order in one history: the message ends in [line:col: value] of exactly that token, the raised exception carries its line and column, and a report without a token carries none - not those of an earlier report')
    from sa.absint import Evaluator, Obj, Raised, Record

    m = chk.repo.mod('cssutils/errorhandler.py')
    fn = m.get('_ErrorHandler.__handle')

    class DOMException(Exception):
        line = col = None

    class SyntaxErr(DOMException):
        pass

    class HTTPError(Exception):
        pass

    class URLError(Exception):
        pass

    intr = {'xml': Record(dom=Record(SyntaxErr=SyntaxErr, DOMException=DOMException)), 'urllib': Record(error=Record(HTTPError=HTTPError, URLError=URLError))}
    for raising in (True, False):
        logged = []
        me = Obj(enabled=True, raiseExceptions=raising, _logcall=lambda msg: logged.append(msg))
        SyntaxErr.line = SyntaxErr.col = DOMException.line = DOMException.col = None
        history = [('a token tuple', ('IDENT', 'x', 3, 12), (3, 12, 'x')), ('a token object', Record(value='y', line=7, col=2), (7, 2, 'y')), ('no token', None, None),
                   ('a token tuple again', ('IDENT', 'z', 5, 1), (5, 1, 'z')), ('no token with error=None', None, None)]
        for label, tok, want in history:
            del logged[:]
            msgs = []
            kw_ = {'msg': 'm', 'token': tok}
            if 'error=None' in label:
                kw_['error'] = None
            ev = Evaluator(fn, intrinsics=intr, module=m, cls='_ErrorHandler', model_types=(type,))
            res = ev.run(self=me, **kw_)
            mode = 'raising' if raising else 'logging'
            if raising:
                ok = isinstance(res, Raised) and (SyntaxErr.line, SyntaxErr.col) == ((want[0], want[1]) if want else (None, None))
                chk.ob(rid, 'cssutils/errorhandler.py', '_ErrorHandler.__handle', f'{mode} mode, {label}: the exception carries ' + ('the position of the token' if want else 'no position'), ok,
                       f'{res!r} with line/col {SyntaxErr.line}:{SyntaxErr.col}' + ('' if want else ': the position of an earlier, unrelated report'))
            else:
                suffix = f' [{want[0]}:{want[1]}: {want[2]}]' if want else ''
                ok = res is None and logged == ['m' + suffix]
                chk.ob(rid, 'cssutils/errorhandler.py', '_ErrorHandler.__handle', f'{mode} mode, {label}: the message ' + ('ends in [line:col: value] of the token' if want else 'is logged as it is'), ok, f'logged {logged}, {res!r}')


def r05k(chk, rid='R05.k'):
    chk.rule(rid, 'token values are their text with the hex escapes decoded, decided by evaluation of Tokenizer.tokenize (as in R05.i) on one token of every kind whose grammar admits escapes - identifier, function, hash, dimension, string, url() - with one- to six-digit escapes ended by nothing, a space, a tab, a line feed or CR LF, in first, middle and last position: the value is the text with each escape replaced by its character (and its terminator dropped), the kind is unchanged')
    chk.assume('R05.k: at-keywords are left out - their undecoded value is the known finding of C03 (R03.c)')
    from sa.absint import Raised

    def ref(s):
        import re as _re
        return _re.sub(r'\\([0-9a-fA-F]{1,6})(\r\n|[ \t\r\n\f])?', lambda mo: chr(int(mo.group(1), 16)), s)

    escapes = ['\\e9 ', '\\E9\t', '\\0000e9', '\\e9\n', '\\e9\r\n', '\\65 ', '\\000065', '\\6d']
    frames = {'IDENT': ('a{}b', '{}b', 'a{}'), 'FUNCTION': ('a{}b(', 'a{}('), 'HASH': ('#a{}b', '#{}b'), 'DIMENSION': ('1{}x', '1a{}', '1p{}'), 'STRING': ('"a{}b"', '"{}"'), 'URI': ('url(a{}b)', 'url("a{}b")')}
    n = 0
    bad = {}
    for kind, fr in frames.items():
        for f in fr:
            for e in escapes:
                if f.endswith('{}') and not e[-1].isspace() and len(e) < 7:
                    pass
                text_ = f.replace('{}', e)
                if kind in ('IDENT', 'DIMENSION', 'HASH') and f.endswith('{}') is False and not e[-1].isspace() and len(e) < 7 and f[f.index('}') + 1:f.index('}') + 2] in 'abcdefABCDEF0123456789':
                    continue  # the next character would be read as part of the escape
                toks = tokenize_text(chk.repo, text_, fullsheet=False)
                n += 1
                if isinstance(toks, Raised) or not toks or toks[0][0] != kind or len(toks) != 1 or toks[0][1] != ref(text_):
                    bad.setdefault(kind, []).append((text_, toks if isinstance(toks, Raised) else [(t[0], t[1]) for t in toks][:2]))
    for kind in frames:
        b = bad.get(kind, [])
        chk.ob(rid, TOK, 'Tokenizer.tokenize', f'{kind} tokens carry their text with the escapes decoded', not b,
               '; '.join(f'{t!r} gives {g!r}' for t, g in b[:2]) + f' ({len(b)} samples): the same {kind} written with an escape is another value in the DOM')
    chk.extra['escape_samples'] = n


def r05l(chk, rid='R05.l'):
    chk.rule(rid, 'end-of-input completion, decided by evaluation of Tokenizer.tokenize (as in R05.i): in full-sheet mode a text that ends inside a comment, a string of either quote kind, or a url( in any state - nothing after the parenthesis, an unquoted part, an open or closed string of either quote kind, white space after either - comes out as one COMMENT, STRING or URI token that covers the text and is closed with the missing characters, followed by exactly one EOF token; in fragment mode nothing is completed and no EOF is produced')
    from sa.absint import Raised

    cases = [('/*abc', 'COMMENT', '/*abc*/'), ('/*', 'COMMENT', '/**/'), ('/*a*', 'COMMENT', '/*a**/'), ('"abc', 'STRING', '"abc"'), ("'abc", 'STRING', "'abc'"), ('"', 'STRING', '""'), ('"a\\"', 'STRING', '"a\\""'),
             ('url(', 'URI', 'url()'), ('url(a', 'URI', 'url(a)'), ('url( a', 'URI', 'url( a)'), ('url(a ', 'URI', 'url(a )'), ('url("a', 'URI', 'url("a")'), ("url('a", 'URI', "url('a')"), ('url("a"', 'URI', 'url("a")'),
             ("url('a'", 'URI', "url('a')"), ('url("a" ', 'URI', 'url("a" )'), ("url( 'a' ", 'URI', "url( 'a' )"), ('url( "a', 'URI', 'url( "a")'), ('URL(a', 'URI', 'URL(a)'), ('url("a\\"', 'URI', 'url("a\\"")'), ('url("', 'URI', 'url("")')]
    n = 0
    for lead in ('', 'x '):
        for text_, kind, value in cases:
            full = tokenize_text(chk.repo, lead + text_, fullsheet=True)
            frag = tokenize_text(chk.repo, lead + text_, fullsheet=False)
            n += 1
            if isinstance(full, Raised) or isinstance(frag, Raised):
                chk.ob(rid, TOK, 'Tokenizer.tokenize', f'{lead + text_!r} is tokenised', False, f'{full!r} / {frag!r}')
                continue
            body = [(t[0], t[1]) for t in full]
            want = ([('IDENT', 'x'), ('S', ' ')] if lead else []) + [(kind, value), ('EOF', '')]
            chk.ob(rid, TOK, 'Tokenizer.tokenize', f'full sheet: {lead + text_!r} ends in one {kind} token {value!r} and one EOF', body == want, f'tokens {body}', trivial=True)
            fb = [(t[0], t[1]) for t in frag]
            ok = not [t for t in fb if t[0] == 'EOF'] and (kind, value) not in fb
            chk.ob(rid, TOK, 'Tokenizer.tokenize', f'fragment: {lead + text_!r} is not completed, no EOF', ok, f'tokens {fb}', trivial=True)
    chk.extra['completion_cases'] = n
