#!/venv/bin/python
"""Dev tool: regenerate the data-driven parts of DESIGN.md section 11 (fix table, known
findings, seeded changes, twins) between their markers from known_findings.json,
seeded/*/meta.json and twins/*/result.json.  The prose around them is hand-written."""
import json, re, subprocess
from collections import OrderedDict
from pathlib import Path

V = Path('/verif')
D = V / 'DESIGN.md'


def fixes():
    k = json.loads((V / 'known_findings.json').read_text())
    order = subprocess.run(['git', '-C', '/repo', 'log', '--reverse', '--format=%h %s'], capture_output=True, text=True).stdout.splitlines()
    order = [l.split(' ', 1) for l in order if ' fix:' in ' ' + l]
    rows = OrderedDict()
    for e in k['findings']:
        if e.get('status') != 'fixed':
            continue
        mo = re.match(r'fixed: property=(C\d+) (\w+) (.*)', e['line'])
        pid, commit, what = mo.groups()
        rows.setdefault(commit[:7], {'props': [], 'what': []})
        if pid not in rows[commit[:7]]['props']:
            rows[commit[:7]]['props'].append(pid)
        if what not in rows[commit[:7]]['what']:
            rows[commit[:7]]['what'].append(what)
    out = ['| commit | what failed | reported by |', '|---|---|---|']
    seen = set()
    for h, subj in order:
        r = rows.get(h[:7])
        seen.add(h[:7])
        if r:
            out.append(f"| {h[:7]} | {'; '.join(r['what']).replace('|', '\\|')} | {', '.join(sorted(r['props']))} |")
        else:
            out.append(f"| {h[:7]} | {subj.replace('|', '\\|')} | (no entry in known_findings.json) |")
    for h, r in rows.items():
        if h not in seen:
            out.append(f"| {h} | {'; '.join(r['what'])} (commit not in /repo history) | {', '.join(r['props'])} |")
    return '\n'.join(out), len(order)


def known():
    k = json.loads((V / 'known_findings.json').read_text())
    groups = OrderedDict()
    for e in k['findings']:
        if e.get('status') != 'known':
            continue
        g = groups.setdefault((e['property'], e['what']), {'n': 0, 'witness': e.get('witness', ''), 'only': e.get('only', '')})
        g['n'] += 1
    out = []
    for (pid, what), g in sorted(groups.items()):
        tier = ' (thorough tier only)' if g['only'] else ''
        out.append(f"* **{pid}** ({g['n']} obligation key{'s' if g['n'] != 1 else ''}{tier}): {what}  \n  witness: {g['witness']}")
    return '\n'.join(out)


def seeds():
    out = ['| seed | property | base | reported by (new failing obligations) | rules |', '|---|---|---|---|---|']
    n = hit = 0
    for d in sorted((V / 'seeded').iterdir()):
        mp = d / 'meta.json'
        if not mp.exists():
            continue
        meta = json.loads(mp.read_text())
        lr = meta.get('last_run', {})
        cb = lr.get('caught_by', {})
        n += 1
        hit += bool(cb)
        rules = sorted({k.split('|')[0] for v in cb.values() for k in v})
        out.append(f"| {d.name} | {meta.get('property')} | {lr.get('base', meta.get('base', ''))[:7]} | {', '.join(sorted(cb)) or '**not reported**'} | {', '.join(rules[:6])} |")
    return '\n'.join(out), n, hit


def twins():
    out = ['| twin | what was refactored | checks that exit 1 (false alarm) | checks that exit 2 (cannot analyse) |', '|---|---|---|---|']
    n = clean = 0
    for d in sorted((V / 'twins').iterdir()):
        rp = d / 'result.json'
        if not rp.exists():
            continue
        r = json.loads(rp.read_text())
        notes = (d / 'notes.md').read_text() if (d / 'notes.md').exists() else ''
        files = sorted(set(re.findall(r'^\+\+\+ b/(\S+)', (d / 'patch.diff').read_text(), re.M)))
        n += 1
        clean += not r.get('alarms') and not r.get('cannot_analyse')
        out.append(f"| {d.name} | {', '.join(f.replace('cssutils/', '') for f in files)} | {', '.join(sorted(r.get('alarms', {}))) or '-'} | {', '.join(sorted(r.get('cannot_analyse', {}))) or '-'} |")
    return '\n'.join(out), n, clean


def put(text, name, body):
    a, b = f'<!-- BEGIN:{name} -->', f'<!-- END:{name} -->'
    if a not in text:
        raise SystemExit(f'marker {name} missing in DESIGN.md')
    return text[:text.index(a) + len(a)] + '\n' + body + '\n' + text[text.index(b):]


t = D.read_text()
ft, nf = fixes()
t = put(t, 'fixes', ft)
t = put(t, 'known', known())
st, ns, hs = seeds()
t = put(t, 'seeds', st + f'\n\nReported by a real violation (exit 1, a failing obligation that is new with the patch): {hs} of {ns}.')
tt, nt, ct = twins()
t = put(t, 'twins', tt + f'\n\n{ct} of {nt} twins pass every check with exit 0.')
D.write_text(t)
print(f'{nf} fix commits, {ns} seeds ({hs} reported), {nt} twins ({ct} clean)')
