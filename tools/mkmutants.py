#!/venv/bin/python
"""Dev tool: build /verif/selftest/mutants.json.

Two sources of mutants, both expressed as exact text replacements on files of
the *current* tree (so that the self-test needs neither git history nor a
scratch copy):
  * the reverse of every `fix:` commit of /repo (the repaired defect returns);
  * the seeded changes under /verif/seeded/ that apply to the current tree.
For each mutant the properties whose check reports a NEW violation on the
mutated tree are recorded as `expect`; mutants nobody reports are recorded with
an empty list (they document the recall limit and are not used as assertions).
"""
import json, os, re, subprocess, sys, tempfile
from pathlib import Path
sys.path.insert(0, '/verif')
from sa import core
import importlib

def sh(cmd):
    return subprocess.run(cmd, shell=True, text=True, capture_output=True).stdout

def hunks(diff):
    """[(path, old_text, new_text)] per hunk of a unified diff (with context)."""
    out, path, old, new = [], None, [], []
    def flush():
        nonlocal old, new
        if path and (old or new) and old != new:
            out.append((path, ''.join(old), ''.join(new)))
        old, new = [], []
    for line in diff.splitlines(keepends=True):
        if line.startswith('+++ b/'):
            flush(); path = line[6:].strip()
        elif line.startswith('--- ') or line.startswith('diff ') or line.startswith('index '):
            continue
        elif line.startswith('@@'):
            flush()
        elif line.startswith('+'):
            new.append(line[1:])
        elif line.startswith('-'):
            old.append(line[1:])
        elif line.startswith(' '):
            old.append(line[1:]); new.append(line[1:])
    flush()
    return out

def violations(pid, overrides):
    repo = core.Repo(overrides=overrides)
    chk = core.Check(pid, 'quick', repo)
    try:
        importlib.import_module(f'rules.{pid.lower()}').run(chk)
    except core.AnalysisError as e:
        return {o['key'] for o in chk.obs if not o['ok']} | {'ANALYSIS-ERROR: ' + str(e)[:80]}
    except Exception as e:
        return {'ANALYSIS-ERROR: internal ' + repr(e)[:80]}
    return {o['key'] for o in chk.obs if not o['ok']}

ALL = [f'C{i:02d}' for i in range(1, 21)]
base = {p: violations(p, {}) for p in ALL}
mutants = []
pending = []

ONLY = set(sys.argv[1:])  # incremental mode: `mkmutants.py seed-C01-m11 ...` evaluates only these and merges them into the file

def consider(name, changes, origin):
    if not ONLY or name in ONLY:
        pending.append((name, changes, origin))

def evaluate(job):
    name, changes, origin = job
    ov = {}
    for rel, find, rep in changes:
        src = ov.get(rel) or (core.REPO / rel).read_text()
        if src.count(find) != 1:
            return ('skip', f'skip (context not unique/present): {name} {rel}')
        ov[rel] = src.replace(find, rep)
    try:
        for rel, s in ov.items():
            compile(s, rel, 'exec')
    except SyntaxError:
        return ('skip', f'skip (does not compile): {name}')
    expect, errors = {}, {}
    checks = ALL
    if ONLY and name.startswith('seed-'):
        # incremental mode: the property of the seed and the checks that reported it in tools/seeds.py
        meta = json.loads((Path('/verif/seeded') / name[5:] / 'meta.json').read_text())
        checks = sorted({meta['property']} | set((meta.get('last_run') or {}).get('caught_by', {})))
    for p in checks:
        v = violations(p, ov) - base[p]
        real = sorted(x for x in v if not x.startswith('ANALYSIS-ERROR'))
        if real:
            expect[p] = real[:3]
        elif v:
            errors[p] = sorted(v)[0]
    m = {'name': name, 'origin': origin, 'changes': [{'file': r, 'find': f, 'replace': t} for r, f, t in changes], 'expect': sorted(expect), 'sample': {k: v[0][:160] for k, v in expect.items()}, 'analysis_errors': errors}
    return ('ok', m)

# 1. reverse fix commits
log = sh("git -C /repo log --format='%h %s' --grep='^fix:'").strip().splitlines()
for line in reversed(log):
    h, subj = line.split(' ', 1)
    diff = sh(f'git -C /repo show -U2 --format= {h} -- cssutils encutils')
    ch = [(p, new, old) for p, old, new in hunks(diff) if '/tests/' not in p]   # reverse direction
    if ch:
        consider(f'unfix-{h}', ch, f'reverse of {h} {subj[:70]}')
# 2. seeded patches
for d in sorted(Path('/verif/seeded').iterdir()):
    pf = d / 'patch.diff'
    if pf.exists():
        ch = [(p, old, new) for p, old, new in hunks(pf.read_text()) if '/tests/' not in p]
        consider(f'seed-{d.name}', ch, f'seeded change {d.name}')
import multiprocessing as mp
with mp.get_context('fork').Pool(int(os.environ.get('JOBS', '14'))) as pool:
    for kind, r in pool.imap(evaluate, pending):
        if kind == 'skip':
            print(r)
        else:
            mutants.append(r)
            print(f"{r['name']:40s} reported by {r['expect'] or '-'}  (analysis error only: {sorted(r['analysis_errors']) or '-'})")
if ONLY:
    old = json.loads(Path('/verif/selftest/mutants.json').read_text())['mutants']
    names = {m['name'] for m in mutants}
    mutants = [m for m in old if m['name'] not in names] + mutants
Path('/verif/selftest/mutants.json').write_text(json.dumps({'mutants': mutants}, indent=1))
print(len(mutants), 'mutants;', sum(1 for m in mutants if m['expect']), 'reported by a real violation')
