"""Witness script used while triaging the R11.a candidates (documentation of
genuineness; not a check).  Run: cd /repo && /venv/bin/python /verif/witness/c11_triage.py"""
import xml.dom, cssutils
cssutils.log.raiseExceptions = True
import logging; cssutils.log.setLevel(logging.FATAL)

def snap(o):
    out = {}
    for a in ('cssText','mediaText','selectorText','wellformed','name','value','priority','literalpriority','encoding','href','prefix','namespaceURI','margin'):
        try: out[a] = getattr(o, a)
        except Exception as e: out[a] = 'EXC %s' % type(e).__name__
    for a in ('cssRules','media','style','selectorList'):
        try:
            v = getattr(o, a)
            out[a] = getattr(v, 'cssText', None) or getattr(v, 'mediaText', None) or [getattr(r,'cssText',r) for r in v]
        except Exception as e: pass
    return out

def trial(label, obj, fn):
    before = snap(obj)
    try:
        fn()
        print(f'{label}: NOT REJECTED'); return
    except xml.dom.DOMException as e:
        after = snap(obj)
        diff = {k:(before[k], after[k]) for k in before if before[k] != after.get(k)}
        print(f'{label}: rejected {type(e).__name__}; changed: {diff if diff else "nothing"}')
    except Exception as e:
        print(f'{label}: non-DOM exception {type(e).__name__}: {e}')

sheet = cssutils.parseString('@media print { a {color: red} } b {left:0}')
mr = sheet.cssRules[0]
trial('CSSMediaRule.cssText garbage rule inside', mr, lambda: setattr(mr, 'cssText', '@media tv { x {top:0} $$$ {} }'))
trial('CSSMediaRule.cssText trailing', mr, lambda: setattr(mr, 'cssText', '@media tv { x {top:0} } y'))
trial('CSSMediaRule.cssText bad media', mr, lambda: setattr(mr, 'cssText', '@media 3tv { x {top:0} }'))
trial('CSSMediaRule.cssText @import inside', mr, lambda: setattr(mr, 'cssText', '@media tv { x {top:0} @import "a"; }'))
trial('CSSStyleSheet.cssText garbage 2nd rule', sheet, lambda: setattr(sheet, 'cssText', 'x {top:0} @import "late";'))
trial('CSSStyleSheet.cssText bad selector', sheet, lambda: setattr(sheet, 'cssText', 'x {top:0} $ {}'))
p = cssutils.css.Property('color', 'red', 'important')
trial('Property.cssText bad value', p, lambda: setattr(p, 'cssText', 'left: $'))
trial('Property.cssText bad priority', p, lambda: setattr(p, 'cssText', 'left: 1px !bogus'))
trial('Property.priority bad', p, lambda: setattr(p, 'priority', 'bogus'))
trial('Property.name bad', p, lambda: setattr(p, 'name', '$'))
pv = cssutils.css.PropertyValue('red')
trial('PropertyValue.cssText bad', pv, lambda: setattr(pv, 'cssText', '$'))
cv = cssutils.css.ColorValue('rgb(1,2,3)')
trial('ColorValue.cssText bad', cv, lambda: setattr(cv, 'cssText', 'rgb(1,2)'))
ml = cssutils.stylesheets.MediaList('print, tv')
trial('MediaList.mediaText bad', ml, lambda: setattr(ml, 'mediaText', 'print, 3d'))
trial('MediaList.mediaText empty', ml, lambda: setattr(ml, 'mediaText', ''))
mq = cssutils.stylesheets.MediaQuery('print')
trial('MediaQuery.mediaText bad', mq, lambda: setattr(mq, 'mediaText', '3d'))
trial('MediaQuery.mediaText unknown type', mq, lambda: setattr(mq, 'mediaText', 'foo and (color)'))
ir = cssutils.css.CSSImportRule(href='a.css', mediaText='print')
trial('CSSImportRule.cssText bad', ir, lambda: setattr(ir, 'cssText', '@import "b.css" 3d;'))
nr = cssutils.css.CSSNamespaceRule(namespaceURI='u', prefix='p')
trial('CSSNamespaceRule.cssText other uri', nr, lambda: setattr(nr, 'cssText', '@namespace q "other";'))
mg = cssutils.css.MarginRule(margin='@top-left', style='color: red')
trial('MarginRule.cssText bad style', mg, lambda: setattr(mg, 'cssText', '@top-left { $ }'))
trial('MarginRule.cssText bad margin', mg, lambda: setattr(mg, 'cssText', '@foo { left: 0 }'))
s2 = cssutils.parseString('@namespace p "u"; p|a {left:0}')
trial('sheet.insertRule namespace', s2, lambda: s2.insertRule('@namespace q "u2";', 2))
