exec(open('/verif/witness/c11_triage.py').read().split("sheet = cssutils.parseString('@media print")[0])
# known finding witnesses
def fetch(url):
    return None, b'a { color: red } $$$ {'
cssutils.log.raiseExceptions = False
sheet = cssutils.CSSParser(fetcher=fetch).parseString('b {left:0}', href='http://x/a.css')
cssutils.log.raiseExceptions = True
ir = cssutils.css.CSSImportRule(href='x2.css')
trial('sheet.insertRule(import rule object) with broken imported sheet', sheet, lambda: sheet.insertRule(ir, 0))
s2 = cssutils.parseString('@namespace p "a"; p|x {left:0}')
trial('sheet.cssText with namespace clean-up', s2, lambda: setattr(s2, 'cssText', '@namespace p "a"; @namespace p "b"; p|x {top:0}'))
trial('sheet.cssText 2', s2, lambda: setattr(s2, 'cssText', '@namespace p "a"; @namespace q "a"; p|x {top:0}'))
s3 = cssutils.parseString('@namespace p "a"; p|x {left:0}')
for t in ['@namespace q "a";', '@namespace p "b";']:
    trial('insertRule '+t, s3, lambda: s3.insertRule(t, 1))
    print([r.cssText for r in s3.cssRules])
iro = cssutils.css.CSSImportRule(href='a', readonly=True)
try:
    iro.href = 'b'; print('readonly import rule href ACCEPTED', iro.href)
except Exception as e: print('rejected', e)
