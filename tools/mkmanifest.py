#!/venv/bin/python
"""Regenerate MANIFEST.json from tools/manifest_src.py (dev tool, not a check)."""
import json, sys
sys.path.insert(0, '/verif/tools')
import manifest_src as S
props = [json.loads(l) for l in open('/verif/properties.jsonl')]
ids = [p['id'] for p in props]
checks = []
for pid in ids:
    if pid in S.CHECKS:
        c = S.CHECKS[pid]
        checks.append({
            'property_id': pid,
            'quick_cmd': f'./check {pid} --tier quick',
            'thorough_cmd': f'./check {pid} --tier thorough',
            'evidence_file': f'/verif/evidence/{pid}.json',
            'replay_cmd_template': f'./check {pid} --replay {{path}}',
            'engine': 'sa',
            'level_claimed': {'category': 'other', 'text': c['text'], 'design_ref': c.get('design_ref', 'DESIGN.md §4 ' + pid)},
            'level_note': c['note'],
            'technique': c['technique'],
        })
na = [{'property_id': pid, 'reason': S.NOT_APPLICABLE.get(pid, 'no check registered yet')} for pid in ids if pid not in S.CHECKS]
man = {
    'version': 1,
    'setup_cmd': 'true',
    'hooks': {'guard': 'CSSUTILS_VERIF', 'enable': 'none - the checks read /repo as source text; no hook exists in the repository', 'baseline_off_cmd': '/verif/tools/baseline.py /repo', 'source_commits': [], 'add_only': True},
    'engines': [{'name': 'sa', 'path': '/verif/sa', 'serves_properties': sorted(S.CHECKS), 'kind_free_text': 'repository-specific static analysis on Python ast + re._parser trees: class/function model, statement CFG with exceptional edges, regex automata (Glushkov, subset construction, ambiguity), finite-domain abstract evaluation, table extraction'}],
    'checks': checks,
    'notes': S.NOTES,
    'not_applicable': na,
}
json.dump(man, open('/verif/MANIFEST.json', 'w'), indent=1)
print('checks', len(checks), 'not_applicable', len(na))
