"""C04 - syntax errors are contained: only the malformed construct is dropped."""
from __future__ import annotations

from sa.core import pool_repo as core_pool_repo, pmap as core_pmap  # noqa: E402

import ast

from sa import cfg as cfgmod
from sa.cfg import ENTRY, EXIT_RET
from sa.core import AnalysisError, call_name, const, kw, text

from .callbacks import callbacks

UTIL = 'cssutils/util.py'
SHEET = 'cssutils/css/cssstylesheet.py'
MEDIA = 'cssutils/css/cssmediarule.py'


def run(chk):
    chk.attempt(r04a, chk)
    chk.attempt(r04b, chk)
    from .c05 import r05l

    chk.attempt(r05l, chk, 'R04.c')
    from .c09 import r09c

    chk.attempt(r09c, chk, 'R04.e')
    chk.attempt(r04f, chk)
    chk.attempt(r04g, chk)
    chk.attempt(r04h, chk, thorough=chk.tier == 'thorough')
    chk.attempt(r04i, chk, thorough=chk.tier == 'thorough')
    chk.attempt(r04j, chk, thorough=chk.tier == 'thorough')
    chk.attempt(r04k, chk)
    from .c04b import r04l, r04m

    chk.attempt(r04l, chk, thorough=chk.tier == 'thorough')
    chk.attempt(r04m, chk, thorough=chk.tier == 'thorough')
    from .c16b import r16i

    chk.attempt(r16i, chk, 'R04.n')


def _skip_calls(fn):
    return [n for n in ast.walk(fn) if isinstance(n, ast.Call) and call_name(n) == 'self._tokensupto2' and n.args and text(n.args[0]) == 'tokenizer']


def _starttoken(call):
    if len(call.args) >= 2:
        return call.args[1]
    return kw(call, 'starttoken')


def trace_skips(m, owner, fn, tok='token', tkz='tokenizer', registered=(), depth=0, chain=()):
    """Every `self._tokensupto2(...)` call that the callback `fn` makes itself or through local helper
    functions (defs nested in `owner` that are not registered callbacks) to which it hands its token.
    Yields (call, name of the token in that function, name of the tokenizer, helper chain, function)."""
    for c in ast.walk(fn):
        if isinstance(c, ast.Call) and m.enclosing_def(c) is fn:
            if call_name(c) == 'self._tokensupto2':
                yield c, tok, tkz, chain, fn
            elif isinstance(c.func, ast.Name) and depth < 4 and owner is not None:
                helper = next((d for d in ast.walk(owner) if isinstance(d, ast.FunctionDef) and d.name == c.func.id and m.enclosing_def(d) is owner and d is not fn and id(d) not in registered), None)
                if helper is None:
                    continue
                params = [a.arg for a in helper.args.args]
                bind = {params[i]: text(a) for i, a in enumerate(c.args) if i < len(params)}
                bind.update({k.arg: text(k.value) for k in c.keywords if k.arg})
                inv = {v: k for k, v in bind.items()}
                if tok not in inv:
                    continue
                yield from trace_skips(m, owner, helper, inv[tok], inv.get(tkz, tkz), registered, depth + 1, chain + (helper.name,))


def consumes_on_all_paths(m, owner, fn, tok='token', tkz='tokenizer', registered=(), depth=0):
    """Does every path of `fn` to a return pass a statement that consumes the construct - a
    `_tokensupto2` call or a call of a local helper that is handed the token and consumes on all its
    paths?  Returns (ok, offending path or [])."""
    g = cfgmod.CFG(fn)
    nodes = []
    for n in g.nodes:
        for c in cfgmod.calls_at(n):
            if call_name(c) == 'self._tokensupto2':
                nodes.append(n)
            elif isinstance(c.func, ast.Name) and depth < 4 and owner is not None:
                helper = next((d for d in ast.walk(owner) if isinstance(d, ast.FunctionDef) and d.name == c.func.id and m.enclosing_def(d) is owner and d is not fn and id(d) not in registered), None)
                if helper is None:
                    continue
                params = [a.arg for a in helper.args.args]
                bind = {params[i]: text(a) for i, a in enumerate(c.args) if i < len(params)}
                bind.update({k.arg: text(k.value) for k in c.keywords if k.arg})
                inv = {v: k for k, v in bind.items()}
                if tok in inv and consumes_on_all_paths(m, owner, helper, inv[tok], inv.get(tkz, tkz), registered, depth + 1)[0]:
                    nodes.append(n)
    if not nodes:
        return False, []
    ok, path = g.all_paths_pass([ENTRY], lambda n: n in nodes, targets=[EXIT_RET])
    return ok, path or []


def r04a(chk, rid='R04.a'):
    chk.rule(rid, 'the token that triggers "skip the bad construct" is counted: every production callback that can be entered with a bracket-opening token (registered as default=, under CHAR or FUNCTION, or called from such a callback with its token) and discards input with _tokensupto2(tokenizer, ...) passes that token as starttoken')
    sites, cbs = callbacks(chk.repo)
    # callbacks that may receive an opening bracket
    open_keys = {'default', 'CHAR', 'FUNCTION'}
    by_target = {}
    for cb in cbs:
        if isinstance(cb.target, ast.Lambda):
            continue
        by_target.setdefault(id(cb.target), (cb, set()))[1].add(cb.key)
    # helper callbacks invoked with the token from an open-key callback
    extra = set()
    for tid, (cb, keys) in by_target.items():
        if keys & open_keys:
            for c in ast.walk(cb.target):
                if isinstance(c, ast.Call) and isinstance(c.func, ast.Name) and any(text(a) == 'token' for a in c.args):
                    for tid2, (cb2, _) in by_target.items():
                        if cb2.target.name == c.func.id and cb2.rel == cb.rel and cb2.owner == cb.owner:
                            extra.add(tid2)
    n = 0
    for tid, (cb, keys) in by_target.items():
        if not (keys & open_keys or tid in extra):
            continue
        m = chk.repo.mod(cb.rel)
        owner = m.enclosing_def(cb.target)
        registered = {id(c2.target) for c2 in cbs}
        for call, tokname, tkzname, chain, where in trace_skips(m, owner, cb.target, registered=registered):
            if not (call.args and text(call.args[0]) == tkzname):
                continue
            n += 1
            st = _starttoken(call)
            ok = st is not None and text(st) == tokname
            via = f' in helper {" -> ".join(chain)} (called with the token)' if chain else ''
            chk.ob(rid, cb.rel, cb.qual, text(call) + via, ok,
                   'the offending token is not handed to the bracket counter: if it is "(", "[", "{" or a FUNCTION, its closing bracket drives the counter negative and the skip runs past the end of the construct')
    if n < 3:
        raise AnalysisError(f'only {n} skipping callbacks found (3 confirmed by hand: two rule-set defaults and the declaration error handler)')


# statement callbacks: name -> the DOM class they must build
SHEET_CBS = ['charsetrule', 'importrule', 'namespacerule', 'variablesrule', 'fontfacerule', 'mediarule', 'pagerule', 'unknownrule', 'ruleset']
MEDIA_CBS = ['ruleset', 'atrule']


def r04b(chk, rid='R04.b'):
    chk.rule(rid, 'consume always, insert only if well-formed: in every statement callback of CSSStyleSheet._setCssText and CSSMediaRule._setCssText the slice `_tokensupto2(tokenizer, token)` with the default terminators lies on every path to the return, and every insertRule of the parsed rule is control-dependent on rule.wellformed')
    for rel, owner, names in ((SHEET, 'CSSStyleSheet._setCssText', SHEET_CBS), (MEDIA, 'CSSMediaRule._setCssText', MEDIA_CBS)):
        m = chk.repo.mod(rel)
        for name in names:
            q = f'{owner}.{name}'
            fn = m.get(q)
            ownerfn = m.get(owner)
            skips = list(trace_skips(m, ownerfn, fn))
            if not skips:
                chk.ob(rid, rel, q, 'consumes the statement', False, 'no _tokensupto2(tokenizer, token) call: the tokens of the statement stay in the stream and are parsed as further statements')
                continue
            ok, path = consumes_on_all_paths(m, ownerfn, fn)
            chk.ob(rid, rel, q, 'the statement is consumed on every path (directly or through a local helper that is handed the token)', ok, '' if ok else 'path that returns without consuming: ' + ' -> '.join(path[-4:]))
            for c, tokname, tkzname, chain, where in skips:
                plain = len(c.args) == 2 and text(c.args[0]) == tkzname and text(c.args[1]) == tokname and not c.keywords
                via = f' (in helper {" -> ".join(chain)})' if chain else ''
                chk.ob(rid, rel, q, f'`{text(c)}`{via} uses the default statement end (semicolon or the matching closing brace)', plain,
                       'another terminator lets a malformed statement with a block run on to the next ";" of the sheet')
            # insertRule of the parsed rule only under <rule>.wellformed - in the callback and in the helpers it uses
            scopes = {id(fn): fn}
            for c, tokname, tkzname, chain, where in skips:
                scopes[id(where)] = where
            for d in ast.walk(ownerfn):
                if isinstance(d, ast.FunctionDef) and m.enclosing_def(d) is ownerfn and any(isinstance(c, ast.Call) and isinstance(c.func, ast.Name) and c.func.id == d.name for c in ast.walk(fn)):
                    scopes[id(d)] = d
            for sc in scopes.values():
                for c in ast.walk(sc):
                    if isinstance(c, ast.Call) and call_name(c) == 'self.insertRule' and c.args and isinstance(c.args[0], ast.Name) and m.enclosing_def(c) is sc:
                        var = c.args[0].id
                        guarded = _under_wellformed(m, sc, m.enclosing_stmt(c), var)
                        chk.ob(rid, rel, q, f'`{text(c)}`' + (f' (in helper {sc.name})' if sc is not fn else '') + f' only if {var}.wellformed', guarded, 'a rule that failed to parse is inserted')
    chk.require(rid, 25, 'statement callback obligations')


def _under_wellformed(m, fn, stmt, var='rule'):
    child, n = stmt, m.parents.get(stmt)
    while n is not None and n is not fn:
        if isinstance(n, ast.If) and child in n.body and f'{var}.wellformed' in text(n.test):
            return True
        if isinstance(n, ast.If) and child in n.orelse:
            # elif rule.wellformed: ... is represented as orelse=[If]
            pass
        child, n = n, m.parents.get(n)
    return False


def r04f(chk, rid='R04.f'):
    chk.rule(rid, 'end of input inside @media: when the token that ends the block of CSSMediaRule._setCssText is EOF, that EOF token itself is handed on with the tokens of the contained rules (unconditionally, before the variable is re-bound to the synthetic "}"), so that every construct that is still open - at any nesting depth - completes itself the way it does at the end of a sheet')
    m = chk.repo.mod(MEDIA)
    fn = m.get('CSSMediaRule._setCssText')
    branches = []
    for n in ast.walk(fn):
        if isinstance(n, ast.If) and "'EOF'" in text(n.test) and m.enclosing_def(n) is fn:
            calls = [c for c in ast.walk(n.test) if isinstance(c, ast.Call) and call_name(c) == 'self._type' and c.args and isinstance(c.args[0], ast.Name)]
            if calls:
                branches.append((n, calls[0].args[0].id))
    if len(branches) != 1:
        raise AnalysisError(f'CSSMediaRule._setCssText: {len(branches)} end-of-input branches found (1 expected)')
    node, var = branches[0]
    handed = None
    rebound = None
    for i, st in enumerate(node.body):
        if rebound is None and isinstance(st, ast.Assign) and any(isinstance(t, ast.Name) and t.id == var for t in st.targets):
            rebound = i
        if handed is None and isinstance(st, ast.Expr) and isinstance(st.value, ast.Call) and isinstance(st.value.func, ast.Attribute) and st.value.func.attr == 'append' \
                and st.value.args and isinstance(st.value.args[0], ast.Name) and st.value.args[0].id == var:
            handed = i
    ok = handed is not None and (rebound is None or handed < rebound)
    chk.ob(rid, MEDIA, 'CSSMediaRule._setCssText', f'the EOF token `{var}` is appended to the contained tokens, unconditionally and before `{var}` is re-bound', ok,
           'the contained rules do not see the end of input (or only a synthetic "}"): a rule nested two or more blocks deep is cut short and dropped with its complete declarations')


# ---------------------------------------------------------------------------
# the @media block by evaluation

RULE = 'cssutils/css/cssrule.py'
MEDIA_CONTENT = {  # statement token -> (class of the rule the block creates for it | None = refused, token value)
    'IDENT': ('CSSStyleRule', 'a'), 'PAGE_SYM': ('CSSPageRule', '@page'), 'MEDIA_SYM': ('CSSMediaRule', '@media'), 'ATKEYWORD': ('CSSUnknownRule', '@foo'),
    'COMMENT': ('CSSComment', '/**/'),
    'CHARSET_SYM': (None, '@charset '), 'IMPORT_SYM': (None, '@import'), 'NAMESPACE_SYM': (None, '@namespace'), 'FONT_FACE_SYM': (None, '@font-face'),
}


def eval_media_block(chk, statements, illformed=()):
    """Evaluate CSSMediaRule._setCssText on its syntax tree for a block whose content is the given
    statement tokens. Rule classes are models that bind their arguments through the real constructor
    signatures and CSSRule.__init__ (evaluated); a created rule is ill-formed when its index is in
    `illformed`. Returns (final state of the rule, created rules, probes) - a probe records, at the
    moment a nested rule is handed its text, which style sheet that rule and a rule inside it see."""
    from sa.absint import Evaluator, Obj, Raised, Record

    from .effects import Effects

    eff = Effects.get(chk.repo)
    m = chk.repo.mod(MEDIA)
    rm = chk.repo.mod(RULE)
    fn = m.get('CSSMediaRule._setCssText')
    base_init = rm.get('CSSRule.__init__')
    getter = rm.get('CSSRule._getParentStyleSheet')
    SHEET_OBJ = Record(namespaces={'p': 'u'}, _id='SHEET')
    created = []
    probes = []
    log = Record(error=lambda *a, **k: None, warn=lambda *a, **k: None, info=lambda *a, **k: None, debug=lambda *a, **k: None)

    def signature(kind):
        for ci in eff.classes.get(kind, []):
            if ci.rel.startswith('cssutils/css/'):
                init = eff.mro_lookup(ci, '__init__')
                if init is not None:
                    return [a.arg for a in init.args.args][1:]
        raise AnalysisError(f'{kind}: constructor not found')

    def sees(rule):
        got = Evaluator(getter, module=rm, cls='CSSRule').run(self=rule)
        return got

    class RuleModel(Obj):
        kind = None

        def __init__(self, *a, **k):
            params = signature(self.kind)
            if len(a) > len(params) or any(x not in params for x in k):
                raise AnalysisError(f'{self.kind}{(a, k)} does not fit its constructor {params}')
            bound = dict(zip(params, a))
            bound.update(k)
            Obj.__init__(self, kind=self.kind, bound=bound, index=len(created), text=None, _setSeq=lambda s: None, _tempSeq=lambda: [])
            res = Evaluator(base_init, intrinsics={'super': lambda *x: Record(__init__=lambda *y, **z: None)}, module=rm, cls='CSSRule').run(
                self=self, **{p: bound[p] for p in ('parentRule', 'parentStyleSheet') if p in bound})
            if isinstance(res, Raised):
                raise AnalysisError(f'CSSRule.__init__: {res!r}')
            created.append(self)
            for p, v in bound.items():
                if 'text' in p.lower() and v is not None:
                    self._probe(v)

        def _probe(self, v):
            object.__setattr__(self, 'text', v)
            inner = Obj(_parentRule=self, _parentStyleSheet=None, _parent=self)
            probes.append((self, sees(self), sees(inner)))

        @property
        def parentRule(self):
            return self._parentRule

        @property
        def parentStyleSheet(self):
            return sees(self)

        @property
        def wellformed(self):
            return self.index not in illformed

        @property
        def cssText(self):
            return self.text

        @cssText.setter
        def cssText(self, v):
            self._probe(v)

    classes = {k: type(k, (RuleModel,), {'kind': k}) for k in ('CSSStyleRule', 'CSSPageRule', 'CSSMediaRule', 'CSSUnknownRule', 'CSSComment', 'CSSFontFaceRule', 'CSSImportRule')}

    class Me(Obj):
        @property
        def cssRules(self):
            return self._cssRules

        @cssRules.setter
        def cssRules(self, v):
            object.__setattr__(self, '_cssRules', v)

        @property
        def media(self):
            return self._media

        @media.setter
        def media(self, v):
            object.__setattr__(self, '_media', v)

    OLD_RULES, OLD_MEDIA = ['old'], Record(_id='OLDMEDIA')
    me = Me(_cssRules=OLD_RULES, _media=OLD_MEDIA, _parentStyleSheet=SHEET_OBJ, _parentRule=None, parentStyleSheet=SHEET_OBJ, parentRule=None, name=None, _name=None,
            _splitNamespacesOff=lambda t: (t, {}), _tokenize2=lambda t: iter(()), _type=lambda tok: tok[0] if tok else None,
            _tokenvalue=lambda tok, normalize=False: (tok[1].lower() if normalize else tok[1]) if tok else None,
            _stringtokenvalue=lambda tok: tok[1][1:-1], _valuestr=lambda t: 'text', _tempSeq=lambda: [], _setSeq=lambda s: None, _checkReadonly=lambda: None,
            _prods=Record(MEDIA_SYM='MEDIA_SYM', STRING='STRING'), _log=log)
    firsts = iter([('MEDIA_SYM', '@media', 1, 1), None])
    me._nexttoken = lambda tokenizer, default=None: next(firsts)

    def upto(tokenizer=None, starttoken=None, **k):
        if k.get('mediaqueryendonly'):
            return ['mq'], ('CHAR', '{', 1, 1)
        if k.get('mediaendonly'):
            return ['content'], ('CHAR', '}', 1, 1)
        return ['tokens']

    me._tokensupto2 = upto
    me.insertRule = lambda r, index=None: me._cssRules.append(r)
    ran = []

    def driver(expected, seq, tokenizer, productions, default=None, new=None, **kw_):
        table = dict(productions)
        for ttype in statements:
            cb = table.get(ttype, default)
            if cb is None:
                raise AnalysisError(f'CSSMediaRule._setCssText: no callback for {ttype}')
            expected = cb(expected, seq, (ttype, MEDIA_CONTENT[ttype][1], 1, 1), tokenizer)
            ran.append(ttype)
        return True, expected

    css = Record(CSSRuleList=lambda *a: [], **classes)
    intr = {'super': lambda *a: Record(_setCssText=lambda t: None), 'self._parse': driver, 'CSSMediaRule': classes['CSSMediaRule'],
            'cssutils': Record(css=css, stylesheets=Record(MediaList=lambda *a, **k: Record(wellformed=True, mediaText=None, _id='NEWMEDIA'))),
            'self._log.error': log.error, 'self._log.debug': log.debug, 'self._log.warn': log.warn,
            'xml': Record(dom=Record(InvalidModificationErr='InvalidModificationErr', HierarchyRequestErr='HierarchyRequestErr', SyntaxErr='SyntaxErr'))}
    res = Evaluator(fn, intrinsics=intr, module=m, cls='CSSMediaRule').run(self=me, cssText='text')
    if isinstance(res, Raised):
        raise AnalysisError(f'CSSMediaRule._setCssText: evaluation ends in {res!r}')
    if ran != list(statements):
        raise AnalysisError(f'CSSMediaRule._setCssText: the block content was not parsed in the model ({ran})')
    return me, created, probes, SHEET_OBJ, OLD_RULES


def r04g(chk, rid='R04.g'):
    chk.rule(rid, 'containment inside @media, decided by evaluation: CSSMediaRule._setCssText is evaluated on its syntax tree (rule classes are models bound through the real constructor signatures, the token source and the parse loop are stubs that run the registered callbacks) for a block made of a style rule, one damaged or misplaced statement, and another style rule: whatever the middle statement is - @charset, @import, @namespace or @font-face (not allowed here), or a style rule, @page, nested @media or unknown at-rule that is ill-formed - the rule ends up with exactly the two good rules, in order, and its new media list; nothing is rolled back')
    chk.assume('R04.g: the media query parses as well-formed; a statement is consumed by one _tokensupto2 slice (R04.a/R04.b); well-formedness of a nested rule is a parameter of the model')
    n = 0
    for mid in MEDIA_CONTENT:
        kind = MEDIA_CONTENT[mid][0]
        if kind == 'CSSComment':
            continue
        stmts = ['IDENT', mid, 'IDENT']
        me, created, probes, sheet, old = eval_media_block(chk, stmts, illformed=() if kind is None else (1,))
        kinds = [getattr(r, 'kind', r) for r in me._cssRules]
        ok = kinds == ['CSSStyleRule', 'CSSStyleRule'] and me._cssRules is not old and getattr(me._media, '_id', None) == 'NEWMEDIA'
        n += 1
        what = f'{MEDIA_CONTENT[mid][1].strip()} (not allowed in @media)' if kind is None else f'an ill-formed {kind}'
        chk.ob(rid, MEDIA, 'CSSMediaRule._setCssText', f'{what} between two style rules: only it is dropped', ok,
               f'the block ends with rules {kinds}' + (' - the previous content is restored, every rule of the block is lost' if me._cssRules is old else ''))
    # all good: everything is kept in order
    me, created, probes, sheet, old = eval_media_block(chk, ['IDENT', 'COMMENT', 'PAGE_SYM', 'MEDIA_SYM', 'ATKEYWORD'])
    kinds = [getattr(r, 'kind', r) for r in me._cssRules]
    chk.ob(rid, MEDIA, 'CSSMediaRule._setCssText', 'a block of well-formed statements keeps all of them in order', kinds == ['CSSStyleRule', 'CSSComment', 'CSSPageRule', 'CSSMediaRule', 'CSSUnknownRule'], f'{kinds}')
    chk.extra['media_block_cases'] = n + 1


def r02f(chk, rid='R02.f'):
    chk.rule(rid, 'rules nested in @media are parsed in the namespace context of the sheet, decided by evaluation: in the evaluation of CSSMediaRule._setCssText (see R04.g) every rule the block creates is bound through its real constructor signature and CSSRule.__init__; at the moment it is handed its text (constructor argument or cssText assignment), CSSRule._getParentStyleSheet - evaluated from the source - gives the style sheet of the enclosing @media both for that rule and for a rule inside it (parentRule = the new rule), so that prefixed selectors at any nesting depth resolve against the sheet\'s @namespace declarations')
    me, created, probes, sheet, old = eval_media_block(chk, ['IDENT', 'PAGE_SYM', 'MEDIA_SYM', 'ATKEYWORD'])
    if len(probes) < 4:
        raise AnalysisError(f'only {len(probes)} nested rules were handed their text in the model (4 expected)')
    for rule, own, inner in probes:
        chk.ob(rid, MEDIA, 'CSSMediaRule._setCssText', f'{rule.kind} created in the block sees the style sheet while it parses its text', own is sheet,
               f'parentStyleSheet is {own!r}: its selectors are parsed without the namespaces of the sheet')
        if rule.kind in ('CSSMediaRule',):
            chk.ob(rid, MEDIA, 'CSSMediaRule._setCssText', f'a rule inside the nested {rule.kind} sees the style sheet while it is parsed', inner is sheet,
                   f'parentStyleSheet of the inner rule is {inner!r}: prefixed selectors in an @media nested in an @media are dropped, unprefixed ones lose the default namespace')


_BAL = {}


def _balanced_exact(depth, n, singles=('x', ';')):
    key = (depth, n, singles)
    if key not in _BAL:
        if n == 0:
            _BAL[key] = [()]
        else:
            cur = []
            for first in singles:
                cur += [(first,) + rest for rest in _balanced_exact(depth, n - 1, singles)]
            if depth > 0:
                for o, c in (('(', ')'), ('[', ']'), ('{', '}'), ('f(', ')')):
                    for k in range(0, n - 1):
                        for inner in _balanced_exact(depth - 1, k, singles):
                            for rest in _balanced_exact(depth, n - 2 - k, singles):
                                cur.append((o,) + inner + (c,) + rest)
            _BAL[key] = cur
    return _BAL[key]


# names and strings that contain bracket characters without being brackets (an escaped parenthesis in an
# identifier, a brace in a string): the counters must go by the token, not by what its text looks like
DECOYS = ('q\\(', '"}"')
WITH_DECOYS = ('x', ';') + DECOYS


def _tok(v):
    return ('FUNCTION' if v == 'f(' else 'STRING' if v[:1] == '"' else 'IDENT' if v[:1].isalpha() else 'CHAR', v, 1, 1)


def r04h(chk, rid='R04.h', thorough=False):
    chk.rule(rid, 'an unknown at-rule inside a page-margin box is skipped as a unit, decided by evaluation: the consumer that PreDef.unknownrule hands to its production (the nested function that collects the tokens of the rule) is evaluated on every at-rule made of a balanced prelude ended by ";" or followed by a balanced {...} block (all bracket kinds, function tokens, ";" inside brackets, nesting depth 2) followed by the tokens of a declaration: it takes exactly the tokens of the at-rule - the declaration behind it is left for the box')
    chk.assume('R04.h: CSSUnknownRule is a stub that records the tokens it is given; token streams are (type, value, line, col) tuples as the tokenizer makes them')
    from sa.absint import Evaluator, Raised, Record

    m = chk.repo.mod('cssutils/prodparser.py')
    outer = m.get('PreDef.unknownrule')
    inner = [n for n in ast.walk(outer) if isinstance(n, ast.FunctionDef) and n is not outer]
    # the consumer is the local function called from the production's toSeq
    used = {call_name(c) for lam in ast.walk(outer) if isinstance(lam, ast.Lambda) for c in ast.walk(lam) if isinstance(c, ast.Call)}
    inner = [f for f in inner if f.name in used]
    if len(inner) != 1:
        raise AnalysisError(f'PreDef.unknownrule: {len(inner)} token consumers found (1 expected)')
    fn = inner[0]
    maxlen = 6 if thorough else 5
    rest = [_tok('x'), ('CHAR', ':', 1, 1), _tok('x')]
    cases = 0
    bad = []
    for plen in range(0, maxlen):
        for prelude in _balanced_exact(2, plen):
            if ';' in _top_level(prelude) or _top_level_block(prelude):
                continue  # the rule would end inside the prelude
            ends = [(';',)]
            for blen in range(0, maxlen - plen):
                ends += [('{',) + b + ('}',) for b in _balanced_exact(2, blen)]
            for end in ends:
                rule = ('@foo',) + prelude + end
                toks = [('ATKEYWORD', '@foo', 1, 1)] + [_tok(v) for v in prelude + end]
                got = []
                stream = iter(toks + rest)
                res = Evaluator(fn, intrinsics={'cssutils': Record(css=Record(CSSUnknownRule=lambda saved, *a, **k: got.append(list(saved)) or 'RULE'))}, module=m).run(**{fn.args.args[0].arg: stream})
                cases += 1
                left = list(stream)
                if isinstance(res, Raised) or got != [toks] or left != rest:
                    body = prelude + end[1:-1]
                    cls = 'nested' if any(v in ('(', '[', '{', 'f(') for v in body) else 'semicolon' if ';' in end[1:-1] else 'flat'
                    bad.append((cls, ' '.join(rule), 'raises ' + repr(res) if isinstance(res, Raised) else f'takes {len(got[0]) if got else 0} of {len(toks)} tokens, leaves {len(left)} of {len(rest)} behind it'))
    if cases < 300:
        raise AnalysisError(f'only {cases} at-rules enumerated')
    chk.extra['unknown_margin_rules'] = cases
    for cls, what in (('flat', 'without brackets in the prelude or block and without ";" in the block'), ('semicolon', 'with ";" inside the block'), ('nested', 'with (), [], {} or function tokens in the prelude or block')):
        b = [(r, w) for c, r, w in bad if c == cls]
        chk.ob(rid, 'cssutils/prodparser.py', f'PreDef.unknownrule.{fn.name}', f'every balanced unknown at-rule {what} is consumed exactly', not b,
               '; '.join(f'`{r}`: {w}' for r, w in b[:3]) + f' ({len(b)} of {cases} rules): what follows the at-rule in the margin box (or the rest of the @page rule) is swallowed, or the rule is cut short and its rest is read as declarations')


def _top_level(seq):
    out, d = [], 0
    for v in seq:
        if v in ('(', '[', '{', 'f('):
            d += 1
        elif v in (')', ']', '}'):
            d -= 1
        elif d == 0:
            out.append(v)
    return out


def _top_level_block(seq):
    d = 0
    for v in seq:
        if v == '{' and d == 0:
            return True
        if v in ('(', '[', '{', 'f('):
            d += 1
        elif v in (')', ']', '}'):
            d -= 1
    return False


def _r04i_job(args):
    root, start, maxlen = args
    from sa.absint import Evaluator, Raised, Record
    from sa.core import Repo

    repo = core_pool_repo(root)
    m = repo.mod(UTIL)
    fn = m.get('Base._tokensupto2')
    me = Record(_tokenvalue=lambda tok, normalize=False: tok[1] if tok else None, _type=lambda tok: tok[0] if tok else None)
    intr = {'Base': Record(_prods=Record(FUNCTION='FUNCTION'))}
    rest = [_tok('x'), ('CHAR', '{', 1, 1), ('CHAR', '}', 1, 1)]
    closing = {'(': ')', '[': ']', '{': '}', 'f(': ')'}
    cases = 0
    bad = []
    for plen in range(0, maxlen + 1):
        for prelude in _balanced_exact(2, plen, WITH_DECOYS):
            if start in closing:
                # the start token opens a bracket: the statement is that bracket, closed, then the rest of the prelude rules apply
                bodies = [(start,) + prelude + (closing[start],)]
                ends = [()] if start == '{' else [(';',)]  # a block is a complete statement
            else:
                bodies = [(start,) + prelude]
                ends = [(';',)] + [('{',) + b + ('}',) for blen in range(0, maxlen - plen) for b in _balanced_exact(2, blen, WITH_DECOYS)]
            for body in bodies:
                inner = body[1:-1] if start in closing else body[1:]
                if start not in closing and (';' in _top_level(inner) or _top_level_block(inner)):
                    continue
                for end in ends:
                    stmt = body + end
                    toks = [_tok(v) for v in stmt]
                    stream = iter(toks[1:] + rest)
                    got = Evaluator(fn, intrinsics=intr, module=m, cls='Base').run(self=me, tokenizer=stream, starttoken=toks[0])
                    left = list(stream)
                    cases += 1
                    if isinstance(got, Raised) or got != toks or left != rest:
                        bad.append((' '.join(stmt), repr(got) if isinstance(got, Raised) else f'takes {len(got)} of {len(toks)} tokens'))
    return start, cases, bad


def r04i(chk, rid='R04.i', thorough=False):
    chk.rule(rid, 'statement skipping, decided by evaluation: Base._tokensupto2 in its default mode (the one every error path and every statement callback uses) is evaluated on every statement made of a start token (a name, a function token or an opening bracket), a balanced run of names, ";" inside brackets, (), [], {}, function tokens and tokens that merely contain a bracket character (an identifier ending in an escaped parenthesis, a string holding a brace), and an end - ";" or a balanced {...} block - followed by the tokens of the next statement: it returns exactly the tokens of the statement and leaves the next statement in the token source; with separateEnd the end token is split off; an EOF token ends it')
    chk.assume('R04.i: tokens are (type, value, line, col) tuples; Base._prods.FUNCTION is the FUNCTION type name; sequences up to a length bound with nesting depth 2 exercise every counter and every order of opening and closing')
    import multiprocessing as mp

    from sa.absint import Evaluator, Raised, Record

    m = chk.repo.mod(UTIL)
    fn = m.get('Base._tokensupto2')
    me = Record(_tokenvalue=lambda tok, normalize=False: tok[1] if tok else None, _type=lambda tok: tok[0] if tok else None)
    intr = {'Base': Record(_prods=Record(FUNCTION='FUNCTION'))}
    maxlen = 5 if thorough else 4
    rest = [_tok('x'), ('CHAR', '{', 1, 1), ('CHAR', '}', 1, 1)]
    starts = ('x', 'f(', '(', '[', '{')
    res = core_pmap(chk.repo, _r04i_job, [(chk.repo.root, st, maxlen) for st in starts], len(starts))
    cases = sum(c for _, c, _ in res)
    bad = {'start ' + st: b for st, _, b in res}
    if cases < 400:
        raise AnalysisError(f'only {cases} statements enumerated')
    chk.extra['skipped_statements'] = cases
    for start in ('x', 'f(', '(', '[', '{'):
        b = bad.get('start ' + start, [])
        chk.ob(rid, UTIL, 'Base._tokensupto2', f'every balanced statement that starts with `{start}` is consumed exactly', not b,
               '; '.join(f'`{s}`: {w}' for s, w in b[:3]) + f' ({len(b)} statements): the statements behind a damaged one are swallowed, or its tail is parsed as a new statement')
    # separateEnd and EOF
    toks = [_tok(v) for v in ('x', '(', ';', ')', ';')]
    got = Evaluator(fn, intrinsics=intr, module=m, cls='Base').run(self=me, tokenizer=iter(toks[1:] + rest), starttoken=toks[0], separateEnd=True)
    chk.ob(rid, UTIL, 'Base._tokensupto2', 'separateEnd splits the end token off', got == (toks[:-1], toks[-1]), f'{got!r}')
    eof = ('EOF', '', 1, 1)
    toks = [_tok(v) for v in ('x', '(', 'x')]
    stream = iter(toks[1:] + [eof] + rest)
    got = Evaluator(fn, intrinsics=intr, module=m, cls='Base').run(self=me, tokenizer=stream, starttoken=toks[0])
    chk.ob(rid, UTIL, 'Base._tokensupto2', 'an EOF token ends the statement at any depth and is handed on', got == toks + [eof], f'{got!r}')


DECL = 'cssutils/css/cssstyledeclaration.py'


def bound_method(repo, rel, qual, me, intrinsics=None):
    """`qual` of module `rel` as a callable that evaluates its syntax tree with self = me
    (a modelled exception propagates into the evaluation that calls it)."""
    from sa.absint import Evaluator

    m = repo.mod(rel)
    fn = m.get(qual)
    ev = Evaluator(fn, intrinsics=intrinsics or {}, module=m, cls=qual.split('.')[0])
    return lambda *a, **k: ev.call_function(fn, a, k, bound_self=me)


def _r04j_job(args):
    root, start, maxlen = args
    import itertools

    from sa.absint import Evaluator, Obj, Raised, Record
    from sa.core import Repo

    repo = core_pool_repo(root)
    m = repo.mod(DECL)
    fn = m.get('CSSStyleDeclaration._setCssText')
    log = Record(error=lambda *a, **k: None, warn=lambda *a, **k: None, info=lambda *a, **k: None, debug=lambda *a, **k: None)

    class Prop(Obj):
        def __init__(self, *a, **k):
            Obj.__init__(self, tokens=None, args=(a, k), _parent=None)

        @property
        def wellformed(self):
            t = [x for x in (self.tokens or []) if x[0] != 'S']
            return len(t) == 3 and t[0][0] == 'IDENT' and t[1][1] == ':' and t[2][0] == 'IDENT'

        @property
        def cssText(self):
            return self.tokens

        @cssText.setter
        def cssText(self, v):
            object.__setattr__(self, 'tokens', list(v))

    class Seq(list):
        def append(self, val, typ=None, line=None, col=None):  # noqa: A003
            list.append(self, Record(value=val, type=typ))

    def tk(v):
        return ('FUNCTION' if v == 'f(' else 'IDENT' if v.isalnum() else 'CHAR', v, 1, 1)

    good1 = [tk('a'), tk(':'), tk('x1')]
    good2 = [tk('b'), tk(':'), tk('x2')]
    semi = tk(';')
    cases = 0
    bad = []
    closing = {'(': ')', '[': ']', '{': '}', 'f(': ')'}
    for n in range(0, maxlen + 1):
        for run in _damage_runs(n):
            if start in closing:
                # close the bracket the start token opens somewhere in the run: put the closer at every position
                variants = [run[:i] + (closing[start],) + run[i:] for i in range(len(run) + 1) if _is_balanced(run[:i])]
            else:
                variants = [run]
            if n <= 1:
                # tails that look like a declaration of their own behind a separator the skipping might stop at
                variants = variants + [v + t for v in variants for t in (('!', 'y', ':', 'y'), (':', 'y', ':', 'y'), ('y', 'y', ':', 'y'))]
            for body in variants:
                damaged = (start,) + body
                if ';' in _top_level(damaged):
                    continue
                if start == 'x' and damaged[1:2] == (':',) and len(damaged) == 3 and damaged[2].isalnum():
                    continue  # a valid declaration
                toks = good1 + [semi] + [tk(v) for v in damaged] + [semi] + good2
                me = Obj(_checkReadonly=lambda: None, _tokenvalue=lambda tok, normalize=False: tok[1] if tok else None, _type=lambda tok: tok[0] if tok else None,
                         _valuestr=lambda t: 'text', _log=log, _tempSeq=lambda: Seq(), _seq=None)
                me._tokenize2 = lambda text_, toks=toks: iter(toks)
                result = []
                me._setSeq = lambda s: result.append(s)
                intr_util = {'Base': Record(_prods=Record(FUNCTION='FUNCTION')), 'chain': itertools.chain,
                             'cssutils': Record(css=Record(CSSUnknownRule=lambda *a, **k: Obj(wellformed=False, cssText=None), CSSComment=lambda *a, **k: 'COMMENT'))}
                me._tokensupto2 = bound_method(repo, UTIL, 'Base._tokensupto2', me, intr_util)
                me._adddefaultproductions = bound_method(repo, UTIL, 'Base._adddefaultproductions', me, intr_util)
                me._parse = bound_method(repo, UTIL, 'Base._parse', me, intr_util)
                res = Evaluator(fn, intrinsics={'Property': Prop, 'self._log.error': log.error, 'self._log.info': log.info}, module=m, cls='CSSStyleDeclaration').run(self=me, cssText='text')
                cases += 1
                got = None
                if not isinstance(res, Raised) and result:
                    got = [it.value.tokens for it in result[-1] if isinstance(it.value, Prop)]
                if got != [good1, good2]:
                    names = [' '.join(t[1] for t in p_) for p_ in (got or [])]
                    bad.append((' '.join(damaged), repr(res) if isinstance(res, Raised) else f'properties {names}'))
    return start, cases, bad


def r04j(chk, rid='R04.j', thorough=False):
    chk.rule(rid, 'containment inside a declaration block, decided by evaluation across two modules: CSSStyleDeclaration._setCssText is evaluated together with the real parse loop (Base._parse with its default productions) and the real bracket counter (Base._tokensupto2), all on their syntax trees, on token streams `a:1; <damaged>; b:2` where the damaged declaration starts with any of a name, ":", "!", an opening bracket of each kind or a function token, continues with a balanced run (brackets of all kinds, ";" inside brackets, "!", ":" and names; short runs also with a tail that looks like a declaration of its own) and ends at its top-level ";": the block ends up with exactly the properties a and b, each with exactly its own tokens')
    chk.assume('R04.j: Property is a model that is well-formed iff its tokens are name ":" name; the tokenizer is a token list; logging is a stub; damaged declarations up to a length bound with nesting depth 2')
    import multiprocessing as mp

    starts = ('x', ':', '!', '(', '[', '{', 'f(')
    maxlen = 4 if thorough else 3
    ctx = mp.get_context('fork')
    res = core_pmap(chk.repo, _r04j_job, [(chk.repo.root, st, maxlen) for st in starts], len(starts))
    cases = sum(c for _, c, _ in res)
    if cases < 300:
        raise AnalysisError(f'only {cases} damaged declarations enumerated')
    chk.extra['damaged_declarations'] = cases
    for start, _, b in res:
        chk.ob(rid, DECL, 'CSSStyleDeclaration._setCssText', f'a damaged declaration that starts with `{start}` costs only itself', not b,
               '; '.join(f'`a:x1; {d}; b:x2` gives {w}' for d, w in b[:3]) + f' ({len(b)} cases): a declaration behind the damage is lost, or part of the damaged text becomes a declaration')


def _is_balanced(seq):
    st = []
    for v in seq:
        if v in ('(', '[', '{', 'f('):
            st.append({'(': ')', '[': ']', '{': '}', 'f(': ')'}[v])
        elif v in (')', ']', '}'):
            if not st or st.pop() != v:
                return False
    return not st


_RUNS = {}


def _damage_runs(n, depth=2):
    """Balanced runs of exactly n tokens over names, ':', '!', ';' and the bracket kinds."""
    key = (n, depth)
    if key not in _RUNS:
        if n == 0:
            _RUNS[key] = [()]
        else:
            cur = []
            for first in ('y', ':', '!', ';'):
                cur += [(first,) + r for r in _damage_runs(n - 1, depth)]
            if depth > 0:
                for o, c in (('(', ')'), ('[', ']'), ('{', '}'), ('f(', ')')):
                    for k in range(0, n - 1):
                        for inner in _damage_runs(k, depth - 1):
                            for rest in _damage_runs(n - 2 - k, depth):
                                cur.append((o,) + inner + (c,) + rest)
            _RUNS[key] = cur
    return _RUNS[key]


PAGE = 'cssutils/css/csspagerule.py'


def r04k(chk, rid='R04.k'):
    chk.rule(rid, 'containment inside @page, decided by evaluation: CSSPageRule._setCssText and the splitter of margin boxes and declarations it calls (both on their syntax trees; MarginRule and CSSStyleDeclaration are models that take the tokens they are handed) are evaluated for a block made of a good margin box, a margin box that is ill-formed, and a declaration: the page rule commits its selector, the declaration and the good margin box - an ill-formed margin box costs only itself')
    chk.assume('R04.k: a margin box model consumes its tokens up to its closing brace and is ill-formed when it meets the marker token; the page selector parses as well-formed; the block is closed by "}"')
    import itertools

    from sa.absint import Evaluator, Obj, Raised, Record, xml_model

    m = chk.repo.mod(PAGE)
    fn = m.get('CSSPageRule._setCssText')
    log = Record(error=lambda *a, **k: None, warn=lambda *a, **k: None, info=lambda *a, **k: None, debug=lambda *a, **k: None)

    def t(typ, v):
        return (typ, v, 1, 1)

    real_upto = None
    for label, order in (('behind the good one', ('good', 'bad')), ('in front of the good one', ('bad', 'good')), ('(an unknown at-rule with a block) in front of a declaration and the good one', ('unknown', 'decl', 'good'))):
        boxes = {'good': [t('ATKEYWORD', '@top-left'), t('CHAR', '{'), t('IDENT', 'x'), t('CHAR', '}')],
                 'bad': [t('ATKEYWORD', '@Top-Center'), t('IDENT', 'BAD'), t('CHAR', '{'), t('CHAR', '}')],
                 'unknown': [t('ATKEYWORD', '@foo'), t('CHAR', '{'), t('IDENT', 'u'), t('CHAR', ':'), t('IDENT', 'v'), t('CHAR', '}')],
                 'decl': []}
        decl = [t('IDENT', 'margin'), t('CHAR', ':'), t('NUMBER', '1')]
        if 'decl' in order:
            boxes['decl'] = decl + [t('CHAR', ';')]
            styletokens = [tk for k in order for tk in boxes[k]]
        else:
            styletokens = boxes[order[0]] + boxes[order[1]] + decl
        made = []

        class Margin(Obj):
            margins = ('@top-left', '@top-center', '@bottom-left')

            def __init__(self, *a, **k):
                Obj.__init__(self, args=k, margin=None, ok=True, style=[])
                made.append(self)

            @property
            def wellformed(self):
                return self.ok

            @property
            def cssText(self):
                return None

            @cssText.setter
            def cssText(self, toks):
                first = True
                for tok in toks:
                    if first:
                        object.__setattr__(self, 'margin', tok[1].lower())
                        first = False
                    if tok[1] == 'BAD':
                        object.__setattr__(self, 'ok', False)
                    if tok[1] == '}':
                        break

        class Style(Obj):
            def __init__(self, *a, **k):
                Obj.__init__(self, tokens=None)

            @property
            def cssText(self):
                return self.tokens

            @cssText.setter
            def cssText(self, v):
                object.__setattr__(self, 'tokens', list(v))

        class Me(Obj):
            @property
            def cssRules(self):
                return self._cssRules

            @cssRules.setter
            def cssRules(self, v):
                object.__setattr__(self, '_cssRules', v)

        firsts = iter([t('PAGE_SYM', '@page'), None])

        def upto(tokenizer=None, starttoken=None, **k):
            if k.get('blockstartonly'):
                return [t('S', ' ')], t('CHAR', '{')
            if k.get('blockendonly'):
                return list(styletokens), t('CHAR', '}')
            # any other use is the real bracket counter, evaluated from the source
            return bound_method(chk.repo, UTIL, 'Base._tokensupto2', me, {'Base': Record(_prods=Record(FUNCTION='FUNCTION'))})(tokenizer, starttoken, **k)

        me = Me(_cssRules=['old'], style='OLDSTYLE', _selectorText='OLDSEL', _specificity=None, parentStyleSheet=None, _parentStyleSheet=None,
                _tokenize2=lambda x: iter(()), _nexttoken=lambda *a, **k: next(firsts), _type=lambda tok: tok[0] if tok else None,
                _tokenvalue=lambda tok, normalize=False: tok[1] if tok else None, _valuestr=lambda x: 'text', _normalize=lambda s: s.lower(),
                _prods=Record(PAGE_SYM='PAGE_SYM'), _log=log, _tokensupto2=upto)
        setattr(me, '__parseSelectorText', lambda toks: (True, 'NEWSEL', (0, 0, 0)))
        intr = {'super': lambda *a: Record(_setCssText=lambda x: None), 'CSSStyleDeclaration': Style, 'MarginRule': Margin, 'chain': itertools.chain,
                'cssutils': Record(css=Record(CSSRuleList=lambda *a: [])), 'self._log.error': log.error,
                'xml': xml_model()}
        res = Evaluator(fn, intrinsics=intr, module=m, cls='CSSPageRule', model_types=(Margin, Style)).run(self=me, cssText='text')
        if isinstance(res, Raised) or len(made) != len([k for k in order if k in ('good', 'bad')]):
            raise AnalysisError(f'CSSPageRule._setCssText: evaluation ends in {res!r} with {len(made)} margin boxes')
        kept = [getattr(r, 'margin', r) for r in me._cssRules]
        # the declaration reaches the declaration block (an unknown at-rule in front of it may be handed on with it)
        got_style = me.style.tokens if isinstance(me.style, Style) else None
        core = [tk for tk in (got_style or []) if tk[1] != ';']
        style_ok = got_style is not None and core[-len(decl):] == decl and core[:-len(decl)] in ([], boxes.get('unknown', []))
        ok = me._selectorText == 'NEWSEL' and style_ok and '@top-left' in kept and 'old' not in kept
        chk.ob(rid, PAGE, 'CSSPageRule._setCssText', f'an ill-formed margin box {label} costs only itself'.replace('an ill-formed margin box (an unknown', 'a statement that is no margin box (an unknown'), ok,
               f'selector {me._selectorText!r}, declarations {getattr(me.style, "tokens", me.style)!r}, margin boxes {kept}: the whole @page rule is thrown away (or keeps its old content) because of one bad margin box')
