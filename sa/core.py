"""E1 - program model, obligations, verdicts, evidence.

Nothing here imports cssutils or encutils: the repository is read as text and
parsed with ``ast``.
"""
from __future__ import annotations

import ast
import hashlib
import json
import os
import sys
import time
from pathlib import Path

REPO = Path(os.environ.get('VERIF_REPO', '/repo'))
VERIF = Path(__file__).resolve().parent.parent


class AnalysisError(Exception):
    """The checker cannot analyse something it must (exit 2, never a pass)."""


# ---------------------------------------------------------------------------
# source model


class Module:
    def __init__(self, rel, path, src=None):
        self.rel = rel
        self.path = path
        if src is not None:
            self.src = src
        else:
            try:
                self.src = path.read_text(encoding='utf-8')
            except OSError as e:
                raise AnalysisError(f'cannot read {rel}: {e}')
        try:
            self.tree = ast.parse(self.src, filename=str(path))
        except SyntaxError as e:
            raise AnalysisError(f'cannot parse {rel}: {e}')
        self.parents = {}
        for n in ast.walk(self.tree):
            for c in ast.iter_child_nodes(n):
                self.parents[c] = n
        self._index = None

    # qualified names: Class.method.nested, function.nested
    def index(self):
        if self._index is None:
            idx = {}

            def rec(node, prefix):
                for c in ast.iter_child_nodes(node):
                    if isinstance(c, (ast.FunctionDef, ast.AsyncFunctionDef, ast.ClassDef)):
                        q = f'{prefix}{c.name}'
                        idx.setdefault(q, []).append(c)
                        rec(c, q + '.')
                    elif isinstance(c, (ast.If, ast.Try, ast.With, ast.For, ast.While)):
                        rec(c, prefix)
                    # other statement kinds cannot contain definitions we name

            rec(self.tree, '')
            self._index = idx
        return self._index

    def get(self, qual, kind=None):
        got = self.index().get(qual)
        if not got:
            raise AnalysisError(f'anchor vanished: {self.rel}:{qual}')
        node = got[-1]  # the last definition wins, as in Python
        if kind and not isinstance(node, kind):
            raise AnalysisError(f'{self.rel}:{qual} is not a {kind}')
        return node

    def has(self, qual):
        return qual in self.index()

    def qualname_of(self, node):
        """Qualified name of the innermost def/class enclosing ``node``."""
        names = []
        n = node
        while n is not None:
            if isinstance(n, (ast.FunctionDef, ast.AsyncFunctionDef, ast.ClassDef)):
                names.append(n.name)
            elif isinstance(n, ast.Lambda):
                names.append('<lambda>')
            n = self.parents.get(n)
        return '.'.join(reversed(names)) or '<module>'

    def enclosing_def(self, node):
        n = self.parents.get(node)
        while n is not None and not isinstance(
            n, (ast.FunctionDef, ast.AsyncFunctionDef, ast.Lambda)
        ):
            n = self.parents.get(n)
        return n

    def enclosing_stmt(self, node):
        n = node
        while n is not None and not isinstance(n, ast.stmt):
            n = self.parents.get(n)
        return n

    def toplevel_names(self):
        """Names bound at module level (imports, defs, classes, assignments)."""
        if getattr(self, '_toplevel', None) is None:
            out = set()
            for st in ast.walk(self.tree):
                if isinstance(st, (ast.Import, ast.ImportFrom)):
                    for a in st.names:
                        out.add((a.asname or a.name).split('.')[0])
            for st in self.tree.body:
                if isinstance(st, (ast.FunctionDef, ast.ClassDef)):
                    out.add(st.name)
                elif isinstance(st, ast.Assign):
                    for t in st.targets:
                        if isinstance(t, ast.Name):
                            out.add(t.id)
            self._toplevel = out
        return self._toplevel

    def functions(self):
        for q, nodes in self.index().items():
            for n in nodes:
                if isinstance(n, (ast.FunctionDef, ast.AsyncFunctionDef)):
                    yield q, n

    def classes(self):
        for q, nodes in self.index().items():
            for n in nodes:
                if isinstance(n, ast.ClassDef):
                    yield q, n

    def global_assign(self, name):
        """Value node of the last module-level ``name = ...``."""
        val = None
        for st in self.tree.body:
            if isinstance(st, ast.Assign):
                for t in st.targets:
                    if isinstance(t, ast.Name) and t.id == name:
                        val = st.value
            elif isinstance(st, ast.AnnAssign) and isinstance(st.target, ast.Name):
                if st.target.id == name and st.value is not None:
                    val = st.value
        if val is None:
            raise AnalysisError(f'anchor vanished: {self.rel}: global {name}')
        return val

    def class_assign(self, cls, name):
        c = self.get(cls, ast.ClassDef)
        val = None
        for st in c.body:
            if isinstance(st, ast.Assign):
                for t in st.targets:
                    if isinstance(t, ast.Name) and t.id == name:
                        val = st.value
        if val is None:
            raise AnalysisError(f'anchor vanished: {self.rel}: {cls}.{name}')
        return val


PACKAGES = ('cssutils', 'encutils')


class Repo:
    def __init__(self, root=REPO, overrides=None):
        """``overrides`` maps a relative path to replacement source text (used by
        the self-test to analyse an in-memory variant of the tree)."""
        self.root = Path(root)
        self.modules = {}
        overrides = overrides or {}
        for pkg in PACKAGES:
            base = self.root / pkg
            if not base.is_dir():
                raise AnalysisError(f'package directory missing: {base}')
            for p in sorted(base.rglob('*.py')):
                rel = p.relative_to(self.root).as_posix()
                if '/tests/' in rel:
                    continue
                self.modules[rel] = Module(rel, p, overrides.get(rel))
                self.modules[rel].repo = self
        c = self.root / 'conftest.py'
        if c.exists():
            self.modules['conftest.py'] = Module('conftest.py', c)

    def mod(self, rel) -> Module:
        m = self.modules.get(rel)
        if m is None:
            raise AnalysisError(f'anchor vanished: module {rel}')
        return m

    def fn(self, rel, qual):
        return self.mod(rel).get(qual, (ast.FunctionDef, ast.AsyncFunctionDef))

    def cls(self, rel, qual):
        return self.mod(rel).get(qual, ast.ClassDef)

    def digest(self):
        h = hashlib.sha256()
        for rel in sorted(self.modules):
            h.update(rel.encode())
            h.update(self.modules[rel].src.encode())
        return h.hexdigest()[:16]

    def n_functions(self):
        return sum(1 for m in self.modules.values() for _ in m.functions())


# ---------------------------------------------------------------------------
# small AST helpers


def text(node):
    """Normalised source text of a node (position independent)."""
    if node is None:
        return ''
    try:
        s = ast.unparse(node)
    except Exception:  # pragma: no cover
        s = ast.dump(node)
    s = ' '.join(s.split())
    return s if len(s) <= 160 else s[:157] + '...'


def walk_local(node, include_lambda=True):
    """Walk ``node`` without descending into nested def/class bodies."""
    stack = list(ast.iter_child_nodes(node))
    while stack:
        n = stack.pop()
        yield n
        if isinstance(n, (ast.FunctionDef, ast.AsyncFunctionDef, ast.ClassDef)):
            continue
        if isinstance(n, ast.Lambda) and not include_lambda:
            continue
        stack.extend(ast.iter_child_nodes(n))


def call_name(call):
    """Dotted name of a call's function, e.g. 'self._log.error'; '' if not a name."""
    return dotted(call.func) if isinstance(call, ast.Call) else ''


def dotted(node):
    parts = []
    while isinstance(node, ast.Attribute):
        parts.append(node.attr)
        node = node.value
    if isinstance(node, ast.Name):
        parts.append(node.id)
        return '.'.join(reversed(parts))
    if isinstance(node, ast.Call):
        inner = dotted(node.func)
        if inner:
            parts.append(inner + '()')
            return '.'.join(reversed(parts))
    return ''


def kw(call, name, default=None):
    for k in call.keywords:
        if k.arg == name:
            return k.value
    return default


def const(node, default=None):
    return node.value if isinstance(node, ast.Constant) else default


def literal(node, what='literal'):
    try:
        return ast.literal_eval(node)
    except Exception as e:
        raise AnalysisError(f'{what} is no longer a literal: {text(node)} ({e})')


def mangle(cls, name):
    if name.startswith('__') and not name.endswith('__'):
        return f'_{cls.lstrip("_")}{name}'
    return name


# ---------------------------------------------------------------------------
# obligations and verdicts


_POOL_REPO = None


def pool_repo(root):
    """The repository a pool worker analyses: the parent's Repo object (inherited through fork, so that
    in-memory variants of the tree are seen by the workers), else the tree on disk."""
    if _POOL_REPO is not None and str(_POOL_REPO.root) == str(root):
        return _POOL_REPO
    return Repo(root)


def pmap(repo, fn, jobs, procs):
    """pool.map over forked workers that share `repo`; sequential when no pool can be made
    (inside another pool's worker)."""
    import multiprocessing as mp

    global _POOL_REPO
    _POOL_REPO = repo
    try:
        if mp.current_process().daemon:
            raise RuntimeError('nested pool')
        with mp.get_context('fork').Pool(max(1, min(procs, len(jobs)))) as pool:
            return pool.map(fn, jobs)
    except (RuntimeError, AssertionError, OSError):
        return [fn(j) for j in jobs]
    finally:
        _POOL_REPO = None


class Check:
    """Collects the obligations of one property run."""

    def __init__(self, pid, tier, repo):
        self.pid = pid
        self.tier = tier
        self.repo = repo
        self.obs = []  # dicts
        self.shape_mismatch = []
        self.deferred = []  # analysis errors of single rules, raised after all rules have run
        self.rules = {}  # rule id -> description
        self.assumptions = []
        self.extra = {}
        self.t0 = time.time()

    def rule(self, rid, desc):
        self.rules[rid] = desc

    def attempt(self, fn, *a, **k):
        """Run one rule; when the code has a shape the rule cannot read (AnalysisError) the other rules of
        the property still run - their verdicts stand on their own - and the error is raised at the end."""
        try:
            return fn(*a, **k)
        except AnalysisError as e:
            self.deferred.append(e)
            return None

    def raise_deferred(self):
        if self.deferred:
            raise AnalysisError('; '.join(dict.fromkeys(str(e) for e in self.deferred)))

    def ob(self, rule, rel, qual, construct, ok, detail='', trivial=False, shape=False):
        """Record one obligation.  ``shape=True`` marks an obligation that is
        decided by matching the *text shape* of a small function: if it does not
        match, the code was rewritten and the rule cannot tell whether the
        behaviour changed - that is reported as an analysis error (exit 2), never
        as a violation."""
        if rule not in self.rules:
            raise AnalysisError(f'internal: rule {rule} not declared')
        construct = construct if isinstance(construct, str) else text(construct)
        if shape and not ok:
            self.shape_mismatch.append(f'{rule} {rel}:{qual}: {construct}' + (f' ({detail})' if detail else ''))
            return ok
        self.obs.append(
            {
                'rule': rule,
                'file': rel,
                'where': qual,
                'construct': construct,
                'ok': bool(ok),
                'detail': detail,
                'trivial': trivial,
                'key': f'{rule}|{rel}|{qual}|{construct}',
            }
        )
        return ok

    def require(self, rule, n_min, what=''):
        """Fail closed if a rule matched fewer instances than confirmed by hand."""
        n = sum(1 for o in self.obs if o['rule'] == rule)
        if n < n_min:
            raise AnalysisError(
                f'{rule}: only {n} instance(s) found, at least {n_min} expected'
                f' ({what}) - the shape the rule recognises has changed'
            )
        return n

    def assume(self, s):
        if s not in self.assumptions:
            self.assumptions.append(s)


def load_known():
    p = VERIF / 'known_findings.json'
    if not p.exists():
        return []
    return json.loads(p.read_text())['findings']


def finish(chk: Check, seed=0):
    """Print the verdict, write evidence and replay files, return exit code."""
    known = [k for k in load_known() if k['property'] == chk.pid]
    known_keys = {k['key']: k for k in known if k.get('status') == 'known'}
    failing = [o for o in chk.obs if not o['ok']]
    # one finding per key
    seen = {}
    for o in failing:
        seen.setdefault(o['key'], o)
    new = [o for k, o in seen.items() if k not in known_keys]
    matched = [o for k, o in seen.items() if k in known_keys]
    stale = [k for k in known_keys if k not in seen]

    outdir = Path(os.environ.get('VERIF_OUT_DIR') or VERIF / 'out') / chk.pid
    outdir.mkdir(parents=True, exist_ok=True)
    for old in outdir.glob('violation_*.json'):
        old.unlink()

    for o in matched:
        k = known_keys[o['key']]
        print(
            f"KNOWN-FINDING: property={chk.pid} {o['rule']} {o['file']}:{o['where']}"
            f" {o['construct']} -- {k.get('what', '')}"
        )
    if chk.tier == 'thorough':
        for k in stale:
            print(f'NOTE: known finding not observed in this run (not an error): {k}')
    for i, o in enumerate(new):
        rp = outdir / f'violation_{i}.json'
        rp.write_text(json.dumps({'property': chk.pid, **o}, indent=1))
        print(
            f"FINDING {o['rule']} {o['file']}:{o['where']}: {o['construct']}"
            f" :: {o['detail']}"
        )
        print(f'VIOLATION property={chk.pid} replay={rp}')

    n_ob = len(chk.obs)
    n_ok = sum(1 for o in chk.obs if o['ok'])
    distinct = len({o['key'] for o in chk.obs if not o['trivial']})
    per_rule = {}
    for o in chk.obs:
        r = per_rule.setdefault(o['rule'], {'obligations': 0, 'discharged': 0})
        r['obligations'] += 1
        r['discharged'] += o['ok']
    samples = []
    byrule = {}
    for o in chk.obs:
        byrule.setdefault(o['rule'], []).append(o)
    for r, lst in byrule.items():
        pick = [o for o in lst if not o['ok']][:3] + [o for o in lst if o['ok']][:2]
        for o in pick:
            samples.append(
                {
                    'rule': r,
                    'file': o['file'],
                    'where': o['where'],
                    'construct': o['construct'],
                    'verdict': 'ok' if o['ok'] else 'fails',
                    'detail': o['detail'][:300],
                }
            )
    wall = time.time() - chk.t0
    ev = {
        'property_id': chk.pid,
        'tier': chk.tier,
        'seed': seed,
        'level': 'other',
        'coverage': {
            'explanation': (
                'Static analysis of the working tree (ast / re._parser; the library is'
                ' never imported or run). Rules applied: '
                + ' || '.join(f'{r}: {d}' for r, d in chk.rules.items())
            ),
            'evaluations': n_ob,
            'distinct_nontrivial': distinct,
            'rule': 'one evaluation = one obligation (rule instance on one construct: '
            'call site, callback, table row, path, abstract input); distinct = distinct '
            '(rule, file, function, construct) keys; trivial = instances whose rule '
            'holds vacuously (no write, no path), excluded from distinct_nontrivial',
            'obligations': n_ob,
            'discharged': n_ok,
            'per_rule': per_rule,
            'samples': samples,
            'modules_analysed': len(chk.repo.modules),
            'functions_in_model': chk.repo.n_functions(),
            'tree_digest': chk.repo.digest(),
            'known_findings_matched': [o['key'] for o in matched],
            'new_violations': [o['key'] for o in new],
            'shape_mismatches': list(chk.shape_mismatch),
            **chk.extra,
        },
        'assumptions': chk.assumptions
        or ['the Python grammar of /venv/bin/python equals that of the analysed code'],
        'wall_s': round(wall, 3),
        'violations': len(new),
    }
    evdir = Path(os.environ.get('VERIF_EVIDENCE_DIR') or VERIF / 'evidence')
    evdir.mkdir(exist_ok=True)
    (evdir / f'{chk.pid}.json').write_text(json.dumps(ev, indent=1))
    print(
        f'{chk.pid} [{chk.tier}] obligations={n_ob} discharged={n_ok} '
        f'known={len(matched)} new={len(new)} wall={wall:.2f}s'
    )
    if new:
        return 1
    if chk.shape_mismatch:
        for sm in chk.shape_mismatch:
            print(f'SHAPE-MISMATCH {sm}')
        print(f'ANALYSIS-ERROR property={chk.pid}: {len(chk.shape_mismatch)} function(s) no longer have the shape a rule reads; the rule cannot decide them')
        return 2
    return 0


def resolve_collection(m, fn, expr, _depth=0, dicts=False):
    """Elements of a literal collection, looking through tuple()/frozenset()/set()/list()
    wrappers and through a name that is bound exactly once - in `fn` or at module level.
    Returns a list of element expressions, or None when the shape is not recognised."""
    if _depth > 4:
        return None
    if isinstance(expr, (ast.Tuple, ast.List, ast.Set)):
        return list(expr.elts)
    if isinstance(expr, ast.Dict):
        return list(expr.keys) if dicts else None
    if isinstance(expr, ast.Call) and call_name(expr) in ('tuple', 'frozenset', 'set', 'list') and len(expr.args) == 1:
        return resolve_collection(m, fn, expr.args[0], _depth + 1, dicts)
    if isinstance(expr, ast.Name):
        binds = []
        if fn is not None:
            for st in ast.walk(fn):
                if isinstance(st, ast.Assign) and any(isinstance(t, ast.Name) and t.id == expr.id for t in st.targets):
                    binds.append(st.value)
                elif isinstance(st, (ast.AugAssign, ast.AnnAssign)) and isinstance(st.target, ast.Name) and st.target.id == expr.id:
                    binds.append(None)
        if not binds:
            for st in m.tree.body:
                if isinstance(st, ast.Assign) and any(isinstance(t, ast.Name) and t.id == expr.id for t in st.targets):
                    binds.append(st.value)
        if len(binds) == 1 and binds[0] is not None:
            return resolve_collection(m, fn, binds[0], _depth + 1, dicts)
    return None
