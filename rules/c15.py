"""C15 - namespace declarations and namespaced selectors stay consistent."""
from __future__ import annotations

import ast

from sa import cfg as cfgmod
from sa.cfg import ENTRY, EXIT_RET
from sa.core import AnalysisError, call_name, text

from .effects import Effects

UTIL = 'cssutils/util.py'
SHEET = 'cssutils/css/cssstylesheet.py'
NSRULE = 'cssutils/css/cssnamespacerule.py'
SKIP = ('cssutils/sac.py', 'cssutils/css/cssvalue.py', 'conftest.py')


def run(chk):
    chk.attempt(r15a, chk)
    chk.attempt(r15b, chk)
    chk.attempt(r15c, chk)
    chk.attempt(r15d, chk)
    from .c16 import r16b
    from .c09 import r09d

    chk.attempt(r16b, chk, 'R15.e')
    chk.attempt(r09d, chk, 'R15.f')
    chk.attempt(r15g, chk)
    chk.attempt(r15h, chk)
    chk.attempt(r15i, chk)
    chk.attempt(r15j, chk)
    chk.attempt(r15k, chk)
    chk.attempt(r15l, chk)
    chk.attempt(r15n, chk)


def _is_filtered(e):
    if isinstance(e, ast.Call) and call_name(e) == 'filter':
        return True
    if isinstance(e, (ast.GeneratorExp, ast.ListComp)) and any(g.ifs for g in e.generators):
        return True
    return False


def filtering_iter_classes(eff):
    """Classes whose __iter__ skips items (contains an `if` around its yield)."""
    out = {}
    for name, infos in eff.classes.items():
        for ci in infos:
            it = ci.methods.get('__iter__')
            if it is not None and any(isinstance(n, ast.If) for n in ast.walk(it)) and any(isinstance(n, (ast.Yield, ast.YieldFrom)) for n in ast.walk(it)):
                out[(ci.rel, ci.name)] = ci
    return out


def _index_space_loops(m, rel, eff, filt_classes):
    """[(qualname, loop, misuse list)] for every enumeration of a filtered view in a module."""
    out = []
    for q, fn in m.functions():
        for loop in ast.walk(fn):
            if not (isinstance(loop, ast.For) and isinstance(loop.iter, ast.Call) and call_name(loop.iter) == 'enumerate' and loop.iter.args):
                continue
            if not (isinstance(loop.target, ast.Tuple) and isinstance(loop.target.elts[0], ast.Name)):
                continue
            src = loop.iter.args[0]
            idx = loop.target.elts[0].id
            cls = q.split('.')[0]
            self_filtered = text(src) == 'self' and (rel, cls) in filt_classes
            if not (_is_filtered(src) or self_filtered):
                continue
            bad = []
            for n in ast.walk(loop):
                if isinstance(n, ast.Subscript) and isinstance(n.slice, ast.Name) and n.slice.id == idx:
                    if text(n.value) != text(src):
                        bad.append(text(n))
                    elif self_filtered:
                        # self[i] is fine only if the item protocol applies the same filter (R17.a)
                        from .c17 import coherent

                        ok, why = coherent(eff, filt_classes[(rel, cls)])
                        if not ok:
                            bad.append(f'{text(n)} ({why})')
                if isinstance(n, ast.Call) and call_name(n).split('.')[-1] in ('deleteRule', 'insertRule', 'pop', 'insert') and any(isinstance(a, ast.Name) and a.id == idx for a in n.args):
                    bad.append(text(n))
            out.append((q, loop, bad))
    return out


# the expected number of findings of R15.a is zero, so the matcher is exercised on a positive
# example on every run (the shape of the defect repaired in 787d41f)
_R15A_EXAMPLE = '''
class _Namespaces:
    def __delitem__(self, prefix):
        for i, rule in enumerate(filter(lambda r: r.type == r.NAMESPACE_RULE, self.parentStyleSheet.cssRules)):
            if rule.prefix == prefix:
                self.parentStyleSheet.deleteRule(i)
                return
'''



def _empty_style():
    """The declaration block of a model style rule: empty. A namespace is in use because a *selector* names it,
    whatever the block holds - an empty rule is still part of the sheet (and written under keepEmptyRules)."""
    from sa.absint import Record

    return Record(length=0, seq=[], cssText='', valid=True, wellformed=True, getProperties=lambda *a, **k: [], keys=lambda: [], __len__=lambda: 0)


def r15a(chk, rid='R15.a'):
    chk.rule(rid, 'index-space rule: an index obtained by enumerating a filtered view (filter(...), a comprehension with a condition, or `self` of a class whose __iter__ skips items) must not be used to index or delete from another sequence, nor be handed to deleteRule/insertRule as a position')
    from sa.core import Module

    eff = Effects.get(chk.repo)
    filt_classes = filtering_iter_classes(eff)
    ex = _index_space_loops(Module('<example>', None, src=_R15A_EXAMPLE), '<example>', eff, filt_classes)
    if not (len(ex) == 1 and ex[0][2]):
        raise AnalysisError('the index-space matcher no longer recognises its positive example')
    n_loops = 0
    for rel, m in chk.repo.modules.items():
        if rel in SKIP:
            continue
        for q, loop, bad in _index_space_loops(m, rel, eff, filt_classes):
            n_loops += 1
            chk.ob(rid, rel, q, f'index of `for {text(loop.target)} in {text(loop.iter)[:60]}` stays in its own index space', not bad,
                   f'the position among the filtered items is used as a position in another sequence: {bad} - with any skipped item in front, the wrong element is addressed')
    chk.ob(rid, '<checker>', 'R15.a', f'positive example recognised; {n_loops} enumerations of filtered views in the package', True)
    chk.extra['filtered_enumerations'] = n_loops


def r15b(chk, rid='R15.b'):
    chk.rule(rid, 'removing a namespace still used by a selector is rejected: CSSStyleSheet.deleteRule, evaluated on its syntax tree over a model sheet for every index, refuses the sole declaration of a URI that _getUsedURIs reports and leaves list, order and parent links untouched then; _getUsedURIs (evaluated as well) counts style rules at sheet level and at any depth of @media')
    eval_delete_rule(chk, rid)
    # _getUsedURIs evaluated on a model sheet: every style rule, at any depth of @media nesting
    from sa.absint import Evaluator, Raised, Record

    class Rules(Record):
        def __iter__(self):
            return iter(self.cssRules)

    K = dict(STYLE_RULE=1, MEDIA_RULE=4, PAGE_RULE=6, COMMENT=1001, NAMESPACE_RULE=10)

    def style(uri):
        return Record(type=1, selectorList=Record(_getUsedUris=lambda: {uri}), style=_empty_style(), **K)

    def media(*rules):
        return Rules(type=4, cssRules=list(rules), **K)

    sheet = Rules(cssRules=[Record(type=10, **K), style('top'), Record(type=1001, **K), media(style('in-media'), Record(type=6, **K), media(style('in-nested-media'), media(style('depth-3')))), style('last')])
    uf = chk.repo.fn(SHEET, 'CSSStyleSheet._getUsedURIs')
    got = Evaluator(uf, module=chk.repo.mod(SHEET), cls='CSSStyleSheet').run(self=sheet)
    want = {'top', 'in-media', 'in-nested-media', 'depth-3', 'last'}
    missing = sorted(want - set(got)) if not isinstance(got, Raised) else sorted(want)
    chk.ob(rid, SHEET, 'CSSStyleSheet._getUsedURIs', 'the URIs of every style rule count as used: at sheet level and at any depth of @media nesting (by evaluation over a model sheet)', not missing and not isinstance(got, Raised),
           f'not reported as used: {missing}' + (f' ({got!r})' if isinstance(got, Raised) else '') + ' - the @namespace rule of such a URI can be deleted, and keepUsedNamespaceRulesOnly drops it, although a selector still uses the prefix')


def r15c(chk, rid='R15.c'):
    chk.rule(rid, 'items of a Seq are compared through .type / .value: cssutils.util.Item defines no __eq__, so `item == <something that is not an item>` is an identity test that is always false')
    eff = Effects.get(chk.repo)
    item = [c for c in eff.classes.get('Item', []) if c.rel == UTIL]
    if not item:
        raise AnalysisError('util.Item vanished')
    has_eq = '__eq__' in item[0].methods
    n = 0
    for rel, m in chk.repo.modules.items():
        if rel in SKIP or not rel.startswith(('cssutils/css/', 'cssutils/stylesheets/', 'cssutils/serialize.py')):
            continue
        for q, fn in m.functions():
            cls = q.split('.')[0]
            infos = [c for c in eff.classes.get(cls, []) if c.rel == rel]
            if infos and 'ListSeq' in infos[0].bases:
                continue  # seq is a plain list of objects there
            for loop in ast.walk(fn):
                if not isinstance(loop, ast.For):
                    continue
                it = loop.iter
                if isinstance(it, ast.Call) and call_name(it) == 'enumerate' and it.args:
                    it = it.args[0]
                    var = loop.target.elts[1] if isinstance(loop.target, ast.Tuple) and len(loop.target.elts) == 2 else None
                else:
                    var = loop.target
                if not (isinstance(var, ast.Name) and text(it).split('.')[-1] in ('_seq', 'seq') and text(it).startswith(('self.', 'rule.', 'variables.', 'selector.', 'mediaquery.'))):
                    continue
                n += 1
                for c in ast.walk(loop):
                    if isinstance(c, ast.Compare) and len(c.ops) == 1 and isinstance(c.ops[0], (ast.Eq, ast.NotEq)):
                        sides = [c.left, c.comparators[0]]
                        if any(isinstance(s, ast.Name) and s.id == var.id for s in sides):
                            chk.ob(rid, rel, q, text(c), has_eq, 'a Seq item is compared with a plain value: the test is never true, so the branch that should update the existing item is dead')
    chk.ob(rid, UTIL, 'Item', f'{n} loops over item sequences compare through .type/.value', True)
    if n < 15:
        raise AnalysisError(f'only {n} loops over Seq items found')


def r15d(chk, rid='R15.d'):
    chk.rule(rid, 'the namespace mapping is a view: _Namespaces keeps no copy of the mapping (its methods write no attribute outside __init__; `namespaces` is computed from the rule list, last declaration of a URI first), and its item operations go through insertRule / deleteRule / the rule setters')
    eff = Effects.get(chk.repo)
    if not hasattr(eff, 'writes'):
        eff.compute_writes(scratch={'_readonly', '_log'})
    ci = [c for c in eff.classes.get('_Namespaces', []) if c.rel == UTIL][0]
    for name, f in list(ci.methods.items()) + list(ci.getters.items()):
        if name == '__init__':
            continue
        k = eff.fn_key.get(id(f))
        w = sorted(eff.writes.get(k, set())) if k else []
        chk.ob(rid, UTIL, f'_Namespaces.{name}', 'keeps no state of its own', not w, f'writes {w}: a cached mapping can disagree with the rules')
    g = ci.getters.get('namespaces')
    src = ast.unparse(g) if g is not None else ''
    # what _Namespaces.namespaces computes is decided by evaluation in R15.h (together with the clean-up)
    src = ast.unparse(ci.methods['__setitem__'])
    chk.ob(rid, UTIL, '_Namespaces.__setitem__', 'declares through insertRule(..., inOrder=True) or the rule setters', 'self.parentStyleSheet.insertRule(' in src and 'inOrder=True' in src and 'rule.namespaceURI = namespaceURI' in src, '', shape=True)
    src = ast.unparse(ci.methods['__delitem__'])
    chk.ob(rid, UTIL, '_Namespaces.__delitem__', 'deletes through deleteRule (which keeps the in-use guard)', 'self.parentStyleSheet.deleteRule(' in src, '', shape=True)


def r15g(chk, rid='R15.g'):
    chk.rule(rid, 'the prefix of an @namespace rule and its serialised item move together: on every normal path of CSSNamespaceRule._setPrefix that stores self._prefix, the item list is written too (replace the prefix item, or insert one) - path-sensitive over the for/else')
    from sa import cfg as cfgmod2
    from sa.cfg import EXIT_RET as ER

    fn = chk.repo.fn(NSRULE, 'CSSNamespaceRule._setPrefix')
    g = cfgmod2.CFG(fn)

    def wr(n):
        out = set()
        if n.kind == 'stmt':
            s = n.stmt
            if isinstance(s, ast.Assign):
                for t in s.targets:
                    if text(t) == 'self._prefix':
                        out.add('prefix')
                    if isinstance(t, ast.Subscript) and text(t.value) == 'self._seq':
                        out.add('seq')
            for c in cfgmod2.calls_at(n):
                if text(c.func) in ('self._seq.insert', 'self._seq.append', 'self._seq.replace'):
                    out.add('seq')
        return frozenset(out)

    states = {ENTRY: {frozenset()}}
    work = [ENTRY]
    while work:
        a = work.pop()
        for b, _ in g.succ[a]:
            new = {s | wr(g.nodes[b]) for s in states[a]}
            if not new <= states.setdefault(b, set()):
                states[b] |= new
                work.append(b)
    exits = states.get(ER, set())
    if not any('prefix' in s for s in exits):
        raise AnalysisError('_setPrefix: store to self._prefix not found')
    for s in sorted(exits, key=sorted):
        ok = not s or s == frozenset({'prefix', 'seq'})
        chk.ob(rid, NSRULE, 'CSSNamespaceRule._setPrefix', f'path writing {sorted(s) or "nothing"}', ok,
               'the prefix reported by the rule (and used by the namespace mapping and by selectors) changes while the serialised rule keeps the old one')
    init = ast.unparse(chk.repo.fn(NSRULE, 'CSSNamespaceRule.__init__'))
    chk.ob(rid, NSRULE, 'CSSNamespaceRule.__init__', 'the constructor sets URI and prefix through their setters', 'self.namespaceURI = namespaceURI' in init and 'self.prefix = prefix' in init, '', shape=True)


def r15h(chk, rid='R15.h'):
    chk.rule(rid, 'the clean-up after a namespace edit, decided by evaluation: CSSStyleSheet._cleanNamespaces is evaluated on its syntax tree - with the effective mapping computed by _Namespaces.namespaces, evaluated from util.py - from every list of @namespace rules that can arise - a list of up to two rules with one rule per prefix and per URI (prefixes p, q and the default; two URIs), into which one further declaration was inserted at any position, mixed with other rules: afterwards no prefix and no URI is declared twice, the remaining @namespace rules are exactly the pairs of the mapping, an existing declaration is given up only for a new declaration of the same URI, and nothing but @namespace rules was removed')
    chk.assume('R15.h: deleteRule is modelled as plain removal (its refusal for namespaces in use is R15.b); pre-states are all lists of up to two declarations satisfying the invariant plus one inserted declaration')
    import itertools
    import operator

    from sa.absint import Evaluator, Obj, Raised, Record

    sm = chk.repo.mod(SHEET)
    um = chk.repo.mod(UTIL)
    clean = sm.get('CSSStyleSheet._cleanNamespaces')
    nsprop = um.get('_Namespaces.namespaces')
    K = dict(NAMESPACE_RULE=10, STYLE_RULE=1)

    def unique_everseen(it, key=None):
        seen, out = set(), []
        for x in it:
            k = key(x) if key else x
            if k not in seen:
                seen.add(k)
                out.append(x)
        return out

    class Rules(list):
        @property
        def length(self):
            return len(self)

    n = 0
    bad = []
    choices = [(p, u) for p in ('p', 'q', '') for u in ('u1', 'u2')]
    def invariant(pairs):
        return len({p for p, u in pairs}) == len(pairs) and len({u for p, u in pairs}) == len(pairs)

    combos = []
    for k in range(0, 3):
        for base in itertools.product(choices, repeat=k):
            if not invariant(base):
                continue
            for new in choices:
                if new in base:
                    continue  # insertRule does not insert a pair that is already declared
                for pos in range(k + 1):
                    combos.append((tuple(base[:pos]) + (new,) + tuple(base[pos:]), pos))
    for combo, newpos in sorted(set(combos)):
        if True:
            for style_at in (None, 0):
                rules = Rules(Obj(type=10, prefix=p, namespaceURI=u, tag=f'{p}={u}#{i}', **K) for i, (p, u) in enumerate(combo))
                if style_at is not None:
                    rules.insert(style_at, Obj(type=1, tag='style', **K))
                before = [r.tag for r in rules]

                def mapping():
                    got = Evaluator(nsprop, intrinsics={'unique_everseen': unique_everseen, 'operator': operator}, model_types=(Rules,), module=um, cls='_Namespaces').run(self=Record(parentStyleSheet=Record(cssRules=rules)))
                    if isinstance(got, Raised):
                        raise AnalysisError(f'_Namespaces.namespaces: {got!r}')
                    return got

                class NS(Record):
                    def items(self):
                        return list(mapping().items())

                    def values(self):
                        return list(mapping().values())

                    def keys(self):
                        return list(mapping().keys())

                me = Record(cssRules=rules, _cssRules=rules, namespaces=NS())
                me.deleteRule = lambda i: rules.pop(i)
                res = Evaluator(clean, model_types=(Rules, NS), module=sm, cls='CSSStyleSheet').run(self=me)
                n += 1
                if isinstance(res, Raised):
                    bad.append(f'{before}: {res!r}')
                    continue
                left = [(r.prefix, r.namespaceURI) for r in rules if r.type == 10]
                probs = []
                if len({p for p, u in left}) != len(left):
                    probs.append('a prefix is declared twice')
                if len({u for p, u in left}) != len(left):
                    probs.append('a URI is declared twice')
                if sorted(left) != sorted(mapping().items()):
                    probs.append(f'mapping {sorted(mapping().items())} differs from the rules {sorted(left)}')
                if [r.tag for r in rules if r.type != 10] != [t for t in before if t == 'style']:
                    probs.append('another rule was removed')
                # a declaration that was there before goes only when the new one declares the same URI again
                newp, newu = combo[newpos]
                # (decided for declarations in front of the inserted one; what should happen to a declaration
                # *behind* a newly inserted one with the same prefix is not settled by the property - CSS lets the
                # later one win, the code keeps the earlier one)
                gone = [(p_, u_) for i_, (p_, u_) in enumerate(combo) if i_ < newpos and f'{p_}={u_}#{i_}' not in [r.tag for r in rules]]
                wrongly = [x for x in gone if x[1] != newu]
                if wrongly:
                    probs.append(f'the existing declaration {wrongly} was removed in favour of the inserted {newp}={newu}: names written with that prefix lose their namespace')
                if probs:
                    bad.append(f'{before} -> {[r.tag for r in rules]}: ' + '; '.join(probs))
    chk.extra['clean_namespace_cases'] = n
    chk.ob(rid, SHEET, 'CSSStyleSheet._cleanNamespaces', f'all {n} rule lists end with one rule per prefix and per URI, equal to the mapping', not bad, f'{len(bad)} lists do not, e.g. ' + ' | '.join(bad[:2]))


def r15i(chk, rid='R15.i'):
    chk.rule(rid, "a selector carries the namespaces it was resolved with: on every path of Selector._setSelectorText that commits a new sequence (passes _setSeq) the selector's own namespace snapshot (__namespaces) is stored as well, from _getUsedNamespaces(); a selector that is detached from its sheet later resolves and serialises its prefixes from that snapshot")
    SELF = 'cssutils/css/selector.py'
    m = chk.repo.mod(SELF)
    fn = m.get('Selector._setSelectorText')
    g = cfgmod.CFG(fn)
    commits = [n for n in g.nodes if any(call_name(c) == 'self._setSeq' for c in cfgmod.calls_at(n))]
    snaps = [n for n in g.nodes if n.kind == 'stmt' and isinstance(n.stmt, ast.Assign) and any(text(t) == 'self.__namespaces' for t in n.stmt.targets) and '_getUsedNamespaces' in text(n.stmt.value)]
    if len(commits) != 1:
        raise AnalysisError(f'Selector._setSelectorText: {len(commits)} _setSeq commits found')
    ok = bool(snaps)
    path = []
    if ok:
        ok, path = g.all_paths_pass([commits[0].id], lambda n: n in snaps, targets=[EXIT_RET])
    chk.ob(rid, SELF, 'Selector._setSelectorText', 'every commit of a new sequence is followed by the refresh of the namespace snapshot', ok,
           'a path commits the sequence without the snapshot: ' + ' -> '.join((path or [])[-4:]) + ' - after the rule is detached (deleteRule) its prefixes resolve against an empty or outdated mapping and are serialised as |name')



def namespaces_view(chk, sheet, list_types=()):
    """A model of the sheet's _Namespaces object: the mapping is what _Namespaces.namespaces (evaluated
    from util.py on the model rule list) computes at the moment of the call; get/keys/items/in/[] read
    it; any other method the evaluated code calls on it is a no-op (change notifications)."""
    import operator

    from sa.absint import Evaluator, Loose, Raised, Record

    um = chk.repo.mod(UTIL)
    nsprop = um.get('_Namespaces.namespaces')

    def unique_everseen(it, key=None):
        seen, out = set(), []
        for x in it:
            k = key(x) if key else x
            if k not in seen:
                seen.add(k)
                out.append(x)
        return out

    class View(Loose):
        @property
        def namespaces(self):
            me = Loose(parentStyleSheet=sheet, _log=None)
            got = Evaluator(nsprop, intrinsics={'unique_everseen': unique_everseen, 'operator': operator}, model_types=tuple(list_types), module=um, cls='_Namespaces').run(self=me)
            if isinstance(got, Raised) or not isinstance(got, dict):
                raise AnalysisError(f'_Namespaces.namespaces: {got!r}')
            return got

        def get(self, prefix, default=None):
            return self.namespaces.get(prefix, default)

        def keys(self):
            return self.namespaces.keys()

        def items(self):
            return self.namespaces.items()

        def values(self):
            return self.namespaces.values()

        def __contains__(self, prefix):
            return prefix in self.namespaces

        def __getitem__(self, prefix):
            return self.namespaces[prefix]

        def __iter__(self):
            return iter(self.namespaces)

    return View()


def eval_delete_rule(chk, rid):
    """CSSStyleSheet.deleteRule (with _getUsedURIs, resolved in the class) evaluated on its syntax tree
    over a model sheet, for every index - negative ones included -, rule objects and foreign objects."""
    from sa.absint import Evaluator, Obj, Raised, Record

    sm = chk.repo.mod(SHEET)
    fn = sm.get('CSSStyleSheet.deleteRule')
    K = dict(STYLE_RULE=1, MEDIA_RULE=4, NAMESPACE_RULE=10, CHARSET_RULE=2, IMPORT_RULE=3)

    class RuleM(Obj):
        pass

    class Rules(list):
        @property
        def length(self):
            return len(self)

    class Sheet(Record):
        def __iter__(self):
            return iter(self._cssRules)

    def build():
        rs = Rules([
            RuleM(type=2, tag='charset', **K), RuleM(type=10, tag='p=u1', prefix='p', namespaceURI='u1', **K), RuleM(type=10, tag='q=u1', prefix='q', namespaceURI='u1', **K),
            RuleM(type=10, tag='r=u2', prefix='r', namespaceURI='u2', **K), RuleM(type=10, tag='s=u3', prefix='s', namespaceURI='u3', **K),
            RuleM(type=10, tag='default=u4', prefix='', namespaceURI='u4', **K),
            RuleM(type=1, tag='style-u1', selectorList=Record(_getUsedUris=lambda: {'u1'}), style=_empty_style(), **K), RuleM(type=1, tag='style-u2', selectorList=Record(_getUsedUris=lambda: {'u2'}), style=_empty_style(), **K),
            RuleM(type=1, tag='style-u4', selectorList=Record(_getUsedUris=lambda: {'u4'}), style=_empty_style(), **K)])
        me = Sheet(_cssRules=rs, _checkReadonly=lambda: None)
        me.cssRules = rs
        me._namespaces = namespaces_view(chk, me, (Rules,))
        me.namespaces = me._namespaces
        for r in rs:
            r._parentStyleSheet = me
        return me, rs

    n = 0
    bad = []
    me0, rs0 = build()
    args = list(range(-len(rs0) - 1, len(rs0) + 1)) + ['obj:' + r.tag for r in rs0] + ['foreign']
    for a in args:
        me, rs = build()
        if isinstance(a, str) and a.startswith('obj:'):
            arg = next(r for r in rs if r.tag == a[4:])
            idx = rs.index(arg)
        elif a == 'foreign':
            arg, idx = RuleM(type=1, tag='foreign', **K), None
        else:
            arg, idx = a, (a if -len(rs) <= a < len(rs) else None)
        before = [r.tag for r in rs]
        res = Evaluator(fn, intrinsics={'CSSRule': RuleM, 'xml': Record(dom=Record(IndexSizeErr='IndexSizeErr', NoModificationAllowedErr='NoModificationAllowedErr'))},
                        model_types=(Rules,), module=sm, cls='CSSStyleSheet').run(self=me, index=arg)
        n += 1
        after = [r.tag for r in rs]
        label = f'deleteRule({a!r})'
        if idx is None:
            ok = isinstance(res, Raised) and res.kind == 'IndexSizeErr' and after == before
            want = 'IndexSizeErr, nothing changed'
        else:
            victim = build()[1][idx].tag
            used_sole = victim in ('r=u2', 'default=u4')  # u2 and the default namespace u4 are used and declared once; u1 is declared twice; u3 is unused
            if used_sole:
                ok = isinstance(res, Raised) and res.kind == 'NoModificationAllowedErr' and after == before and all(r._parentStyleSheet is me for r in rs)
                want = 'refused (the namespace is in use and declared once), list and order unchanged'
            else:
                gone = [r for r in build()[1]]
                want_after = [t for i, t in enumerate(before) if i != (idx % len(before))]
                removed = [r for r in [*rs0] if False]
                ok = not isinstance(res, Raised) and after == want_after and all(r._parentStyleSheet is me for r in rs)
                want = f'{victim} removed, the others untouched'
        if not ok:
            bad.append(f'{label}: result {res!r}, list {after}; prescribed: {want}')
    chk.extra['delete_rule_cases'] = n
    chk.ob(rid, SHEET, 'CSSStyleSheet.deleteRule', f'all {n} deletions: exactly the addressed rule goes; the sole declaration of a namespace in use is refused and leaves list and order as they were; an invalid index or a foreign rule is refused', not bad,
           f'{len(bad)} cases differ, e.g. ' + ' | '.join(bad[:2]))
    # the detached rule names no sheet
    me, rs = build()
    victim = rs[6]
    Evaluator(fn, intrinsics={'CSSRule': RuleM, 'xml': Record(dom=Record(IndexSizeErr='IndexSizeErr', NoModificationAllowedErr='NoModificationAllowedErr'))}, model_types=(Rules,), module=sm, cls='CSSStyleSheet').run(self=me, index=6)
    chk.ob(rid, SHEET, 'CSSStyleSheet.deleteRule', 'the removed rule names no sheet as parent', victim._parentStyleSheet is None and victim not in rs, f'parent {victim._parentStyleSheet!r}')


def r15j(chk, rid='R15.j'):
    chk.rule(rid, 'a namespace prefix is looked up as it is written, decided by evaluation: the handler New.productions registers for namespace_prefix tokens is evaluated for a prefix with upper-case letters and for one with an escape, in a type selector and inside an attribute selector: the prefix handed on for the lookup is the prefix of the token, letter for letter (prefixes are case-sensitive: Svg| and svg| may denote different namespaces)')
    from sa.absint import Evaluator, Raised, Record

    from .callbacks import new_productions

    sm = chk.repo.mod('cssutils/css/selector.py')
    handlers = {cb.key: cb.target for cb in new_productions(chk.repo)}
    h = handlers.get('namespace_prefix')
    if h is None or isinstance(h, ast.Lambda):
        raise AnalysisError('New.productions: no handler for namespace_prefix')
    for prefix in ('Svg|', 'XLink|', 'svg|', '*|', '|'):
        for context, expected in (('', 'type_selector universal HASH class attrib pseudo negation '), ('attrib', 'prefix attribute')):
            appended = []
            me = Record(context=[context], selector=Record(_tokenvalue=lambda tok, normalize=False: tok[1].lower() if normalize else tok[1], _type=lambda tok: tok[0]), wellformed=True, _log=Record(error=lambda *a, **k: None))
            me.append = lambda seq, v, typ=None, token=None: appended.append((v, typ))
            res = Evaluator(h, intrinsics={'self._log.error': me._log.error}, module=sm, cls='New').run(self=me, expected=expected, seq=[], token=('namespace_prefix', prefix, 1, 1))
            ok = not isinstance(res, Raised) and appended == [(prefix, '_PREFIX')]
            chk.ob(rid, 'cssutils/css/selector.py', f'New.{h.name}', f'prefix {prefix!r} ' + ('in an attribute selector' if context else 'of a type selector') + ' is handed on unchanged', ok,
                   f'handed on {appended}: the name is resolved with another prefix than the one written - to another namespace, or to none (NamespaceErr)')


def r15k(chk, rid='R15.k'):
    chk.rule(rid, 'the serializer drops an @namespace rule only when nothing uses it, decided by evaluation: CSSSerializer.do_CSSStyleSheet is evaluated on its syntax tree for a model sheet whose own _getUsedURIs is the source\'s (evaluated over the model rules) with keepUsedNamespaceRulesOnly on and off: a namespace that is used only by a style rule inside an @media inside an @media, one that is used at top level and the default namespace are written, an unused one is dropped under the preference only; everything else is written in order')
    from sa.absint import Evaluator, Obj, Raised, Record, SourceBacked

    serm = chk.repo.mod('cssutils/serialize.py')
    sm = chk.repo.mod(SHEET)
    fn = serm.get('CSSSerializer.do_CSSStyleSheet')
    K = dict(STYLE_RULE=1, MEDIA_RULE=4, NAMESPACE_RULE=10, CHARSET_RULE=2, IMPORT_RULE=3)

    class RL(list):
        def rulesOfType(self, t):
            return [r for r in self if r.type == t]

    class Media(Obj):
        def __iter__(self):
            return iter(self.cssRules)

    def style(tag, uris):
        return Obj(type=1, cssText=tag, selectorList=Record(_getUsedUris=lambda: set(uris)), style=_empty_style(), **K)

    def ns(prefix, uri):
        return Obj(type=10, prefix=prefix, namespaceURI=uri, cssText=f'@namespace {prefix} "{uri}";', **K)

    inner = Media(type=4, cssText='@media{inner}', cssRules=RL([style('deep', {'u-deep'})]), **K)
    outer = Media(type=4, cssText='@media{outer}', cssRules=RL([inner]), **K)
    rules = RL([ns('d', 'u-deep'), ns('t', 'u-top'), ns('', 'u-default'), ns('x', 'u-unused'), style('top', {'u-top', 'u-default'}), outer])
    sheet = SourceBacked(sm, 'CSSStyleSheet', intrinsics={}, _cssRules=rules)
    for keep_used_only in (True, False):
        prefs = Record(keepUsedNamespaceRulesOnly=keep_used_only, lineSeparator='\n')
        me = Record(prefs=prefs, _linenumnbers=lambda t: t)
        got = Evaluator(fn, intrinsics={'cssutils': Record(css=Record(CSSRule=Record(**K)))}, module=serm, cls='CSSSerializer', model_types=(RL, SourceBacked, Media)).run(self=me, stylesheet=sheet)
        if isinstance(got, Raised) or not isinstance(got, bytes):
            raise AnalysisError(f'CSSSerializer.do_CSSStyleSheet: {got!r}')
        lines = got.decode('utf-8').split('\n')
        want = [r.cssText for r in rules if not (keep_used_only and getattr(r, 'namespaceURI', None) == 'u-unused')]
        chk.ob(rid, 'cssutils/serialize.py', 'CSSSerializer.do_CSSStyleSheet', f'keepUsedNamespaceRulesOnly={keep_used_only}: exactly the unused @namespace rule is dropped' if keep_used_only else 'keepUsedNamespaceRulesOnly=False: every rule is written', lines == want,
               f'written: {lines}; prescribed: {want} - a namespace that is used (at any nesting depth of @media) loses its declaration, so the text does not reparse or its names resolve differently')


def r15l(chk, rid='R15.l'):
    chk.rule(rid, 'the namespace mapping reads consistently, decided by evaluation: _Namespaces - its methods and container protocol evaluated from the source over a model rule list - is asked for a bound prefix, the default prefix, a prefix bound to the empty namespace and an unknown prefix: item access, get, `in`, keys, items, values, length and iteration all answer from the one computed mapping; a prefix that is listed can be looked up (also when its URI is the empty string) without an error report, an unknown prefix is reported as NamespaceErr')
    import operator

    from sa.absint import Obj, Raised, Record, SourceBacked, _Raise, xml_model

    um = chk.repo.mod(UTIL)
    K = dict(NAMESPACE_RULE=10, STYLE_RULE=1)

    def unique_everseen(it, key=None):
        seen, out = set(), []
        for x in it:
            k = key(x) if key else x
            if k not in seen:
                seen.add(k)
                out.append(x)
        return out

    class Rules(list):
        pass

    rules = Rules([Obj(type=10, prefix='p', namespaceURI='u', **K), Obj(type=10, prefix='e', namespaceURI='', **K), Obj(type=10, prefix='', namespaceURI='d', **K), Obj(type=1, **K)])
    errors = []
    log = Record(error=lambda *a, **k: errors.append(k.get('error')))
    ns = SourceBacked(um, '_Namespaces', intrinsics={'unique_everseen': unique_everseen, 'operator': operator, 'xml': xml_model(), 'self._log.error': log.error},
                      parentStyleSheet=Record(cssRules=rules), _log=log)
    want = {'p': 'u', 'e': '', '': 'd'}
    try:
        mapping = ns.namespaces
        reads = {'namespaces': dict(mapping), 'keys': sorted(ns.keys()), 'items': sorted(ns.items()), 'values': sorted(ns.values()), 'len': len(ns), 'iter': sorted(iter(ns)),
                 'in': [k for k in ('p', 'e', '', 'zz') if k in ns], 'get': [ns.get(k, 'MISSING') for k in ('p', 'e', '', 'zz')]}
    except (_Raise, AttributeError, TypeError) as e:
        raise AnalysisError(f'_Namespaces: the mapping protocol cannot be evaluated ({e!r})')
    prescribed = {'namespaces': want, 'keys': sorted(want), 'items': sorted(want.items()), 'values': sorted(want.values()), 'len': 3, 'iter': sorted(want), 'in': ['p', 'e', ''], 'get': ['u', '', 'd', 'MISSING']}
    diff = {k: reads[k] for k in prescribed if reads[k] != prescribed[k]}
    chk.ob(rid, UTIL, '_Namespaces', 'keys, items, values, length, iteration, `in` and get answer from the computed mapping', not diff, f'{diff}')
    for prefix, uri in want.items():
        del errors[:]
        try:
            got = ns[prefix]
        except _Raise as e:
            got = e
        chk.ob(rid, UTIL, '_Namespaces.__getitem__', f'prefix {prefix!r} (listed by keys) is looked up as {uri!r} without an error report', got == uri and not errors,
               f'gives {got!r}, reports {errors}: selectors with this prefix cannot be set or appended in raising mode although the prefix is declared')
    del errors[:]
    try:
        got = ns['zz']
    except _Raise as e:
        got = e
    chk.ob(rid, UTIL, '_Namespaces.__getitem__', 'an unknown prefix is reported as NamespaceErr', errors == ['NamespaceErr'], f'gives {got!r}, reports {errors}')


def r15n(chk, rid='R15.n'):
    chk.rule(rid, 'a selector attached to a sheet resolves its prefixes against the sheet and nothing else, decided by evaluation: Selector._setSelectorText '
                  '(with the real parse loop and the New productions, evaluated from the source) is run for a selector whose list sits in a rule of a model sheet, with '
                  'a (text, namespaces) pair as input: a prefix the sheet does not declare is refused (nothing committed, NamespaceErr reported) whatever the pair '
                  'offers - also when the sheet declares nothing at all, where its mapping is empty and therefore falsy -, a prefix the sheet declares resolves to '
                  'the sheet\'s URI, and a detached selector resolves against the pair')
    from .c16b import eval_selector

    SELF = 'cssutils/css/selector.py'
    cases = [
        # (text, given, sheet, committed?, (uri, name) of the element)
        ('a|x', {'a': 'U1'}, {}, False, None),
        ('a|x', {'a': 'U1'}, {'b': 'U2'}, False, None),
        ('[a|t]', {'a': 'U1'}, {}, False, None),
        ('b|x', {'b': 'U1'}, {'b': 'U2'}, True, ('U2', 'x')),
        ('b|x', {}, {'b': 'U2'}, True, ('U2', 'x')),
        ('x', {'a': 'U1'}, {}, True, None),
        ('a|x', {'a': 'U1'}, None, True, ('U1', 'x')),
    ]
    for text_, given, sheet, want_commit, want_el in cases:
        errors = []
        r = eval_selector(chk, text_, namespaces=given, log_errors=errors, sheet_namespaces=sheet)
        where = 'detached' if sheet is None else f'attached to a sheet declaring {sheet or "nothing"}'
        ok = r['committed'] == want_commit and (want_commit or bool(errors)) and (want_el is None or tuple(r['element'] or ()) == want_el)
        chk.ob(rid, SELF, 'Selector._setSelectorText', f'{text_} with the pair {given}, {where}: ' + ('accepted' + (f' as {want_el}' if want_el else '') if want_commit else 'refused'), ok,
               f'committed={r["committed"]} element={r["element"]!r} errors={errors[:1]}: the sheet would hold a selector whose namespace it does not declare and write it as |name')
