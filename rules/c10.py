"""C10 - declaration blocks obey the ordered-multimap-with-cascade model."""
from __future__ import annotations

import ast
import re

from sa import cfg as cfgmod
from sa.cfg import ENTRY, EXIT_RET
from sa.core import AnalysisError, call_name, const, kw, text

from .c02 import is_norm
from .effects import Effects
from .tables import ProfileTables, class_regex

DECL = 'cssutils/css/cssstyledeclaration.py'
PROPS = 'cssutils/css/cssproperties.py'
VARS = 'cssutils/css/cssvariablesdeclaration.py'
PROP = 'cssutils/css/property.py'


def run(chk):
    chk.attempt(r10a, chk)
    chk.attempt(r10b, chk)
    chk.attempt(r10c, chk)
    chk.attempt(r10d, chk)
    chk.attempt(r10e, chk)
    chk.attempt(r10f, chk)
    chk.attempt(r10g, chk)
    chk.attempt(r10h, chk)


# ---------------------------------------------------------------------------


def _replacement_shape(fn, inner, want):
    f = None
    for n in ast.walk(fn):
        if isinstance(n, ast.FunctionDef) and n.name == inner:
            f = n
    if f is None:
        return False
    rets = [text(r.value) for r in ast.walk(f) if isinstance(r, ast.Return)]
    return rets == [want]


def r10a(chk, rid='R10.a'):
    chk.rule(rid, 'DOM-name mapping, exhaustively over the property tables: _toDOMname and _toCSSname are evaluated on their syntax trees (with the module-level patterns they use): converting a property name to its DOM name and back yields the name again, for every key of every properties[...] table')
    m = chk.repo.mod(PROPS)
    from sa.absint import Evaluator, Raised

    to_dom = m.get('_toDOMname')
    to_css = m.get('_toCSSname')

    def dom(n):
        r = Evaluator(to_dom, module=m).run(CSSname=n)
        if isinstance(r, Raised) or not isinstance(r, str):
            raise AnalysisError(f'_toDOMname({n!r}): {r!r}')
        return r

    def css(n):
        r = Evaluator(to_css, module=m).run(DOMname=n)
        if isinstance(r, Raised) or not isinstance(r, str):
            raise AnalysisError(f'_toCSSname({n!r}): {r!r}')
        return r

    pt = ProfileTables(chk.repo)
    names = sorted({n for t in pt.properties.values() for n in t})
    if len(names) < 100:
        raise AnalysisError(f'only {len(names)} property names found')
    doms = {}
    for n in names:
        d = dom(n)
        back = css(d)
        chk.ob(rid, PROPS, '_toCSSname', f'{n} -> {d} -> {back}', back == n,
               f'attribute-style access `style.{d}` addresses the property {back!r}, not {n!r}')
        doms.setdefault(d, []).append(n)
    clash = {d: v for d, v in doms.items() if len(v) > 1}
    chk.ob(rid, PROPS, '_toDOMname', 'DOM names are unique', not clash, str(clash))
    # nothing defined in the declaration-block class itself may hide a generated accessor: the accessors live on
    # the base class CSS2Properties, so a method or class attribute of the same name wins in the MRO
    dm0 = chk.repo.mod(DECL)
    cls_node = next((n for n in ast.walk(dm0.tree) if isinstance(n, ast.ClassDef) and n.name == 'CSSStyleDeclaration'), None)
    if cls_node is None:
        raise AnalysisError('class CSSStyleDeclaration not found')
    own = {}
    for st in cls_node.body:
        if isinstance(st, (ast.FunctionDef, ast.AsyncFunctionDef, ast.ClassDef)):
            own.setdefault(st.name, st.lineno)
        elif isinstance(st, (ast.Assign, ast.AnnAssign, ast.AugAssign)):
            for t in (st.targets if isinstance(st, ast.Assign) else [st.target]):
                for nm in ast.walk(t):
                    if isinstance(nm, ast.Name):
                        own.setdefault(nm.id, st.lineno)
    if len(own) < 15:
        raise AnalysisError(f'only {len(own)} names found in the body of CSSStyleDeclaration')
    hidden = sorted(set(own) & set(doms))
    chk.ob(rid, DECL, 'CSSStyleDeclaration', f'no name defined in the class body ({len(own)} names) hides one of the {len(doms)} generated DOM-name accessors', not hidden,
           '; '.join(f'`{d}` (line {own[d]}) hides the accessor of property {doms[d][0]!r}: `style.{d} = v` no longer reaches setProperty' for d in hidden))
    # the generated accessors use exactly these converters
    src = m.src
    chk.ob(rid, PROPS, '<module>', 'accessors are generated for every table key via _toDOMname / _toCSSname',
           'CSS2Properties._properties.append(_toDOMname(name))' in ast.unparse(m.tree) and 'CSSname = _toCSSname(DOMname)' in ast.unparse(m.tree), 'generation loop changed', shape=True)
    # accessors delegate to the name-based API, with normalising (by evaluation)
    from sa.absint import Record

    dm = chk.repo.mod(DECL)
    for acc, target, args in (('_getP', 'getPropertyValue', {'CSSName': 'font-style'}), ('_setP', 'setProperty', {'CSSName': 'font-style', 'value': 'italic'}), ('_delP', 'removeProperty', {'CSSName': 'font-style'}),
                              ('__getitem__', 'getPropertyValue', {'CSSName': 'font-style'}), ('__setitem__', 'setProperty', {'CSSName': 'font-style', 'value': 'italic'}),
                              ('__setitem__ (tuple)', 'setProperty', {'CSSName': 'font-style', 'value': ('italic', 'important')}), ('__delitem__', 'removeProperty', {'CSSName': 'font-style'})):
        fn = dm.get(f'CSSStyleDeclaration.{acc.split(" ")[0]}')
        calls = []
        me = Record(getPropertyPriority=lambda name, normalize=True: 'important', getProperty=lambda name, normalize=True: Record(priority='important', value='OLD', name=name),
                    getPropertyValue=lambda name, normalize=True, default='': (calls.append(('getPropertyValue', name, normalize)), 'VALUE')[1],
                    setProperty=lambda name, value=None, priority='', normalize=True, replace=True: calls.append(('setProperty', name, value, priority, normalize, replace)),
                    removeProperty=lambda name, normalize=True: calls.append(('removeProperty', name, normalize)))
        got = Evaluator(fn, module=dm, cls='CSSStyleDeclaration').run(self=me, **args)
        want = {'_getP': [('getPropertyValue', 'font-style', True)], '_setP': [('setProperty', 'font-style', 'italic', '', True, True)], '_delP': [('removeProperty', 'font-style', True)],
                '__getitem__': [('getPropertyValue', 'font-style', True)], '__setitem__': [('setProperty', 'font-style', 'italic', '', True, True)],
                '__setitem__ (tuple)': [('setProperty', 'font-style', 'italic', 'important', True, True)], '__delitem__': [('removeProperty', 'font-style', True)]}[acc]
        # an absent priority may be passed as '' or None: setProperty treats both as "no priority"
        calls = [tuple('' if (c[0] == 'setProperty' and i == 3 and x is None) else x for i, x in enumerate(c)) for c in calls]
        ok = not isinstance(got, Raised) and calls == want and (target != 'getPropertyValue' or got == 'VALUE')
        chk.ob(rid, DECL, f'CSSStyleDeclaration.{acc}', f'attribute- and item-style access is {target} by normalised name, a plain value carries no priority', ok,
               f'calls {calls}, returns {got!r}: `style.fontStyle = v`, `style[name] = v` and setProperty(name, v) then differ for the same update (an entry written with an escape or in upper case, or one that is !important)')


# ---------------------------------------------------------------------------


def r10b(chk, rid='R10.b'):
    chk.rule(rid, 'variables block: the name map _vars and the item list seq use one key discipline and move together - every subscript / `in` / del on self._vars uses a normalised key, every comparison against the stored literal name x.value[0] normalises it and looks at "var" items only, and each of _setCssText / setVariable / removeVariable that writes one structure writes the other')
    m = chk.repo.mod(VARS)
    n_keys = 0
    for q in ('CSSVariablesDeclaration.removeVariable', 'CSSVariablesDeclaration.setVariable', 'CSSVariablesDeclaration.getVariableValue', 'CSSVariablesDeclaration.__contains__'):
        fn = m.get(q)
        # names holding a normalised key
        norm = set()
        params = {a.arg for a in fn.args.args}
        for n in ast.walk(fn):
            if isinstance(n, ast.Assign) and is_norm(n.value):
                for t in n.targets:
                    if isinstance(t, ast.Name):
                        norm.add(t.id)
        # flow-insensitive but ordered: a parameter re-bound to normalize(param) counts from that line on
        rebinding = {t.id: n.lineno for n in ast.walk(fn) if isinstance(n, ast.Assign) and is_norm(n.value) for t in n.targets if isinstance(t, ast.Name)}

        def normalised(e, at):
            if is_norm(e):
                return True
            if isinstance(e, ast.Name):
                if e.id in params and e.id in rebinding:
                    return at > rebinding[e.id]
                return e.id in norm and e.id not in params
            return False

        for n in ast.walk(fn):
            key = None
            if isinstance(n, ast.Subscript) and text(n.value) == 'self._vars':
                key = n.slice
            elif isinstance(n, ast.Compare) and len(n.ops) == 1 and isinstance(n.ops[0], (ast.In, ast.NotIn)) and text(n.comparators[0]) in ('self._vars', 'list(self.keys())'):
                key = n.left
            if key is not None:
                n_keys += 1
                chk.ob(rid, VARS, q, f'key of `{text(n)[:50]}` is normalised', normalised(key, n.lineno),
                       'the map is keyed by normalised names: a raw key misses the entry for any other spelling of the name')
            if isinstance(n, ast.Compare) and len(n.ops) == 1 and isinstance(n.ops[0], ast.Eq):
                sides = [n.left, n.comparators[0]]
                lit = [s for s in sides if 'value[0]' in text(s)]
                if lit:
                    other = [s for s in sides if s is not lit[0]][0]
                    ok = is_norm(lit[0]) and normalised(other, n.lineno)
                    chk.ob(rid, VARS, q, f'`{text(n)[:60]}` compares normalised names', ok,
                           'seq stores the literal spelling of the name: comparing it raw with a normalised key fails for "X: 1"')
                    par = m.parents.get(n)
                    guard = text(par) if isinstance(par, ast.BoolOp) else ''
                    chk.ob(rid, VARS, q, f'`{text(n)[:60]}` looks at "var" items only', "'var' == x.type" in guard or "x.type == 'var'" in guard,
                           'seq also holds comments, whose value cannot be indexed')
    if n_keys < 5:
        raise AnalysisError(f'only {n_keys} uses of self._vars recognised')
    for q in ('CSSVariablesDeclaration._setCssText', 'CSSVariablesDeclaration.setVariable', 'CSSVariablesDeclaration.removeVariable'):
        fn = m.get(q)
        src = ast.unparse(fn)
        w_vars = bool(re.search(r'self\._vars\[[^\]]+\] = |del self\._vars\[|self\._vars = ', src))
        w_seq = bool(re.search(r'self\.seq\.(replace|append)\(|del self\.seq\[|self\._setSeq\(', src))
        chk.ob(rid, VARS, q, 'writes both the name map and the item list', w_vars and w_seq, f'_vars written: {w_vars}, seq written: {w_seq}')
    # the serializer lists the item list; keys()/length come from the map
    sm = chk.repo.mod('cssutils/serialize.py')
    chk.ob(rid, 'cssutils/serialize.py', 'CSSSerializer.do_css_CSSVariablesDeclaration', 'serialises variables.seq', 'variables.seq' in ast.unparse(sm.get('CSSSerializer.do_css_CSSVariablesDeclaration')), '', shape=True)


# ---------------------------------------------------------------------------
ENUMERATORS = ['__contains__', '__iter__', 'keys', 'item', 'length', 'getProperties']


def r10c(chk, rid='R10.c'):
    chk.rule(rid, 'one view of a declaration block, decided by evaluation: membership, iteration, keys, item, length, getProperty and getProperties (with the helpers they call, resolved in the class) are evaluated on their syntax trees over model blocks with repeated names, literal spellings, comments and !important entries before and after plain ones, and compared with the prescribed view')
    chk.assume('R10.c: the read side looks at properties only through name, literalname and priority; five model blocks cover repeated names, literal spellings, comments and !important before/after plain entries')
    from sa.absint import Evaluator, Raised, Record

    m = chk.repo.mod(DECL)

    class PropM(Record):
        pass

    def P(tag, name, literal, prio=''):
        return Record(value=PropM(tag=tag, name=name, literalname=literal, priority=prio), type='Property')

    blocks = {
        'empty': [],
        'comments only': [Record(value=Record(cssText='/*c*/'), type='COMMENT')],
        'plain': [P(1, 'a', 'a'), P(2, 'b', 'b')],
        'repeated name': [P(1, 'a', 'a'), P(2, 'b', 'B'), Record(value=Record(cssText='/*c*/'), type='COMMENT'), P(3, 'a', 'A'), P(4, 'c', 'c')],
        'important first': [P(1, 'a', 'a', 'important'), P(2, 'a', 'a'), P(3, 'b', 'b'), P(4, 'b', 'b', 'important'), P(5, 'b', 'b', 'important'), P(6, 'a', 'A')],
    }

    def spec(block):
        props = [it.value for it in block if isinstance(it.value, PropM)]
        names = []
        for p in reversed(props):
            if p.name not in names:
                names.append(p.name)
        names.reverse()

        def effective(name, normalize=True):
            hits = [p for p in props if (normalize and p.name == name.lower()) or p.literalname == name]
            imp = [p for p in hits if p.priority]
            return (imp or hits or [None])[-1]
        return props, names, effective

    def run(member, block, **args):
        me = Record(seq=list(block), _normalize=lambda x: x.lower() if x else x)
        node = m.get(f'CSSStyleDeclaration.{member}') if m.has(f'CSSStyleDeclaration.{member}') else None
        ev = Evaluator(node, intrinsics={'Property': PropM}, module=m, cls='CSSStyleDeclaration') if node is not None else None
        if ev is None:
            # a class-level property(...): read it as an attribute of the model object
            ev = Evaluator(m.get('CSSStyleDeclaration.keys'), intrinsics={'Property': PropM}, module=m, cls='CSSStyleDeclaration')
            return ev.expr(ast.parse(f'self.{member}', mode='eval').body, {'self': me})
        return ev.run(self=me, **args)

    def tags(x):
        if isinstance(x, Raised):
            return repr(x)
        if x is None or isinstance(x, (str, int, bool)):
            return x
        if isinstance(x, PropM):
            return x.tag
        return [tags(y) for y in x]

    n = 0
    bad = []

    def expect(label, got, want):
        nonlocal n
        n += 1
        if tags(got) != tags(want):
            bad.append(f'{label}: {tags(got)!r}, prescribed {tags(want)!r}')

    for bname, block in blocks.items():
        props, names, effective = spec(block)
        expect(f'{bname}: keys()', run('keys', block), names)
        expect(f'{bname}: length', run('length', block), len(names))
        expect(f'{bname}: iteration', run('__iter__', block), [effective(x) for x in names])
        expect(f'{bname}: getProperties()', run('getProperties', block), [effective(x) for x in names])
        expect(f'{bname}: getProperties(all=True)', run('getProperties', block, all=True), props)
        for i in range(-len(names) - 1, len(names) + 2):
            want = names[i] if -len(names) <= i < len(names) else ''
            expect(f'{bname}: item({i})', run('item', block, index=i), want)
        for name in ('a', 'A', 'b', 'B', 'c', 'zz'):
            expect(f'{bname}: {name!r} in block', run('__contains__', block, nameOrProperty=name), name.lower() in names)
            # a Property object is looked up by its normalised name, whatever its literal spelling
            probe = PropM(literalname=name.upper() + '\\', name=name.lower(), priority='', tag='probe', wellformed=True)
            expect(f'{bname}: Property({name!r}) in block', run('__contains__', block, nameOrProperty=probe), name.lower() in names)
            for normalize in (True, False):
                expect(f'{bname}: getProperty({name!r}, normalize={normalize})', run('getProperty', block, name=name, normalize=normalize), effective(name, normalize))
            expect(f'{bname}: getProperties({name!r})', run('getProperties', block, name=name), [effective(name)] if effective(name) else [])
            expect(f'{bname}: getProperties({name!r}, all=True)', run('getProperties', block, name=name, all=True), [p for p in props if p.name == name.lower()])
    chk.extra['declaration_view_cases'] = n
    chk.ob(rid, DECL, 'CSSStyleDeclaration', f'all {n} reads of five model blocks agree with one view: distinct names in the order of their last entry; the effective entry of a name is its last !important entry, else its last entry (keys, length, item, in, iteration, getProperty, getProperties; by evaluation)', not bad, '; '.join(bad[:3]))


def r10d(chk, rid='R10.d'):
    chk.rule(rid, 'set/remove: setProperty updates the effective entry (candidates come from getProperties(name, all=(not normalize)), never from the list of all entries) and appends otherwise; removeProperty rebuilds the list without every entry of the name and returns the effective value read before')
    m = chk.repo.mod(DECL)
    _eval_set_property(chk, rid, m)
    rp = m.get('CSSStyleDeclaration.removeProperty')
    g = cfgmod.CFG(rp)
    read = [n for n in g.nodes if n.kind == 'stmt' and isinstance(n.stmt, ast.Assign) and 'self.getPropertyValue(name' in text(n.stmt.value)]
    commit = [n for n in g.nodes if any(call_name(c) == 'self._setSeq' for c in cfgmod.calls_at(n))]
    ok = bool(read) and bool(commit)
    if ok:
        ok, _ = g.all_paths_pass([ENTRY], lambda n: n in read, targets=[commit[0].id])
    chk.ob(rid, DECL, 'CSSStyleDeclaration.removeProperty', 'the effective value is read before the entries are removed', ok, '')
    # what removeProperty computes: evaluated on its syntax tree over a model declaration block
    from sa.absint import Evaluator, Raised, Record

    class PropM(Record):
        pass

    def block():
        return [Record(value=Record(cssText='/*c*/'), type='COMMENT'),
                Record(value=PropM(name='color', literalname='color', tag=1), type='Property'),
                Record(value=PropM(name='color', literalname='COLOR', tag=2), type='Property'),
                Record(value=PropM(name='top', literalname='top', tag=3), type='Property'),
                Record(value=PropM(name='color', literalname='color', tag=4), type='Property'),
                Record(value=PropM(name='x', literalname='X', tag=5), type='Property')]

    n = bad = 0
    first = ''
    for name in ('color', 'COLOR', 'Color', 'top', 'x', 'X', 'absent'):
        for normalize in (True, False):
            kept = []
            me = Record(seq=block(), _checkReadonly=lambda: None, getPropertyValue=lambda nm, normalize=True: ('value before', nm, normalize),
                        _tempSeq=lambda: Record(appendItem=lambda it: kept.append(it)), _normalize=lambda x: x.lower(), _setSeq=lambda sq: setattr(me, 'committed', sq), committed=None)
            got = Evaluator(rp, intrinsics={'Property': PropM}, module=m, cls='CSSStyleDeclaration').run(self=me, name=name, normalize=normalize)
            n += 1
            want = [it for it in block() if not (isinstance(it.value, PropM) and (it.value.name == name.lower() if normalize else it.value.literalname == name))]
            tags = [getattr(it.value, 'tag', 'comment') for it in kept]
            wtags = [getattr(it.value, 'tag', 'comment') for it in want]
            ok = tags == wtags and got == ('value before', name, normalize) and me.committed is not None
            if not ok:
                bad += 1
                first = first or f'removeProperty({name!r}, normalize={normalize}) keeps entries {tags} (prescribed {wtags}), returns {got!r}, commits: {me.committed is not None}'
    chk.ob(rid, DECL, 'CSSStyleDeclaration.removeProperty', f'all {n} name/normalize cases: exactly the entries of the name are removed, order and comments kept, the value read before is returned', bad == 0, first)


# ---------------------------------------------------------------------------


def r10e(chk, rid='R10.e'):
    chk.rule(rid, 'parent links of properties: every path that puts a Property into a declaration block establishes property.parent = block first (constructed with parent=self, or assigned before the append); _setCssText re-parents every parsed item before committing the list')
    m = chk.repo.mod(DECL)
    sp = m.get('CSSStyleDeclaration.setProperty')
    g = cfgmod.CFG(sp)
    app = [n for n in g.nodes if any(text(c.func) == 'self.seq.append' and c.args and isinstance(c.args[0], ast.Name) for c in cfgmod.calls_at(n))]
    if len(app) != 1:
        raise AnalysisError('setProperty: append site not found')
    var = [c.args[0].id for c in cfgmod.calls_at(app[0]) if text(c.func) == 'self.seq.append'][0]

    def establishes(n):
        s = n.stmt
        if n.kind != 'stmt' or not isinstance(s, ast.Assign):
            return False
        for t in s.targets:
            if text(t) in (f'{var}.parent', f'{var}._parent') and text(s.value) == 'self':
                return True
            if isinstance(t, ast.Name) and t.id == var and isinstance(s.value, ast.Call) and call_name(s.value).endswith('Property') and text(kw(s.value, 'parent')) == 'self':
                return True
        return False

    ok, path = g.all_paths_pass([ENTRY], establishes, targets=[app[0].id])
    chk.ob(rid, DECL, 'CSSStyleDeclaration.setProperty', f'`{var}` names this block as parent before it is appended', ok,
           '' if ok else 'a Property object handed in by the caller keeps its old (or no) parent: validation context and back-links are wrong: ' + ' -> '.join(path[-4:]))
    sc = m.get('CSSStyleDeclaration._setCssText')
    # the function and the methods of the class it refers to (production callbacks may be closures or methods)
    fns, todo = [], [sc]
    while todo:
        f = todo.pop()
        if f in fns:
            continue
        fns.append(f)
        for x in ast.walk(f):
            if isinstance(x, ast.Attribute) and isinstance(x.value, ast.Name) and x.value.id == 'self' and m.has(f'CSSStyleDeclaration.{x.attr}'):
                cand = m.get(f'CSSStyleDeclaration.{x.attr}')
                if isinstance(cand, ast.FunctionDef) and cand.name.startswith('_') and cand not in fns:
                    todo.append(cand)
    made = [c for f in fns for c in ast.walk(f) if isinstance(c, ast.Call) and call_name(c).endswith('Property') and not call_name(c).startswith('self.')]
    chk.ob(rid, DECL, 'CSSStyleDeclaration._setCssText', 'parsed properties are created with parent=self', bool(made) and all(text(kw(c, 'parent')) == 'self' for c in made),
           f'{[text(c)[:50] for c in made]}: a parsed property does not know its block - validation (which looks at the parent rule, e.g. @font-face) and back-links are wrong')
    g2 = cfgmod.CFG(sc)
    rep = [n for n in g2.nodes if n.kind == 'for' and 'item.value._parent = self' in ast.unparse(n.stmt)]
    commit = [n for n in g2.nodes if any(call_name(c) == 'self._setSeq' for c in cfgmod.calls_at(n))]
    ok = bool(rep) and bool(commit)
    if ok:
        ok, _ = g2.all_paths_pass([ENTRY], lambda n: n in rep, targets=[commit[0].id])
    chk.ob(rid, DECL, 'CSSStyleDeclaration._setCssText', 'every item of the new list is re-parented before the list is committed', ok, '')


def cowritten(fn, members):
    """For every path to a normal return: which of the member fields were
    written?  Returns the set of distinct written-sets seen at the exit."""
    g = cfgmod.CFG(fn)

    def wr(n):
        out = set()
        if n.kind == 'stmt' and isinstance(n.stmt, (ast.Assign, ast.AugAssign)):
            for t in (n.stmt.targets if isinstance(n.stmt, ast.Assign) else [n.stmt.target]):
                tt = text(t)
                for k, pat in members.items():
                    if tt == pat:
                        out.add(k)
        return frozenset(out)

    states = {ENTRY: {frozenset()}}
    work = [ENTRY]
    while work:
        a = work.pop()
        for b, _ in g.succ[a]:
            new = {s | wr(g.nodes[b]) for s in states[a]}
            if not new <= states.setdefault(b, set()):
                states[b] |= new
                work.append(b)
    return states.get(EXIT_RET, set()), g


def r10f(chk, rid='R10.f'):
    chk.rule(rid, 'co-written fields of a Property: on every normal path of the priority setter the normalised priority, the literal priority and the serialised token list seqs[2] are written together or not at all (one exemption: the media-query branch, whose list is never filled); likewise name / literal name / seqs[0] in the name setter')
    m = chk.repo.mod(PROP)
    cls = m.get('Property', ast.ClassDef)
    setter = None
    for st in cls.body:
        if isinstance(st, ast.FunctionDef) and st.name == 'priority' and any(text(d) == 'priority.setter' for d in st.decorator_list):
            setter = st
    if setter is None:
        raise AnalysisError('Property.priority setter not found')
    members = {'priority': 'self._priority', 'literal': 'self._literalpriority', 'tokens': 'self.seqs[2]'}
    exits, g = cowritten(setter, members)
    for s in sorted(exits, key=sorted):
        if not s or s == frozenset(members):
            chk.ob(rid, PROP, 'Property.priority', f'path writing {sorted(s) or "nothing"}', True)
            continue
        # the media-query branch: `if self._mediaQuery:` exactly
        mq = [n for n in setter.body if isinstance(n, ast.If) and text(n.test) == 'self._mediaQuery']
        exempt = s == frozenset({'priority', 'literal'}) and len(mq) == 1 and any(isinstance(x, ast.Return) for x in mq[0].body)
        # is that path really only the media query branch?
        if exempt:
            others = [n for n in ast.walk(setter) if isinstance(n, ast.Return) and chk.repo.mod(PROP).parents.get(n) is not mq[0] and n not in mq[0].body]
            for r in others:
                par = chk.repo.mod(PROP).parents.get(r)
                if isinstance(par, ast.If) and par is not mq[0] and par in setter.body:
                    exempt = False
        chk.ob(rid, PROP, 'Property.priority', f'path writing only {sorted(s)}', exempt,
               'exempt: media-query properties never carry priority tokens' if exempt else
               'the reported priority and the serialised priority tokens diverge: getPropertyPriority and cssText disagree', trivial=exempt)
    sn = m.get('Property._setName')
    exits, _ = cowritten(sn, {'name': 'self._name', 'literal': 'self._literalname', 'tokens': 'self.seqs[0]'})
    for s in sorted(exits, key=sorted):
        chk.ob(rid, PROP, 'Property._setName', f'path writing {sorted(s) or "nothing"}', not s or len(s) == 3, 'name fields diverge')


def r10g(chk, rid='R10.g'):
    chk.rule(rid, 'variables block, decided by evaluation: CSSVariablesDeclaration.setVariable and removeVariable (with the helpers they call) are evaluated on their syntax trees over a model block whose item list keeps literal names as written - escaped (wid\\th), upper case (HEIGHT), plain - next to comments, two of them holding one and the same value object: after every call, under any spelling of the name, the item list and the name map list exactly the same variables once each with the same values; an update replaces the one item of the name in place, a removal deletes it and returns the old text')
    chk.assume("R10.g: helper.normalize is modelled as 'remove a backslash before a non-hex character, then lower-case'; the production parse of the variable name as an identifier test")
    import re as _re

    from sa.absint import Evaluator, Raised, Record

    m = chk.repo.mod(VARS)

    class PV(Record):
        def __init__(self, cssText=None, parent=None, **k):
            Record.__init__(self, cssText=cssText, wellformed=True, parent=parent)

    class SeqM(list):
        _readonly = True

        def append(self, val, typ=None, line=None, col=None):
            list.append(self, Record(value=val, type=typ, line=line, col=col))

        def replace(self, i, val, typ, line=None, col=None):
            self[i] = Record(value=val, type=typ, line=line, col=col)

    def norm(x):
        return _re.sub(r'\\([^0-9a-fA-F\n\r\f])', r'\1', x).lower() if x else x

    def block():
        sq = SeqM()
        vars_ = {}
        shared = PV(cssText='3')  # one value object set for two names (setVariable accepts value objects)
        for lit, val in (('wid\\th', '1px'), (None, '/*c*/'), ('HEIGHT', '2px'), ('c', shared), ('d', shared)):
            if lit is None:
                list.append(sq, Record(value=Record(cssText=val), type='COMMENT', line=1, col=1))
            else:
                pv = val if isinstance(val, PV) else PV(cssText=val)
                list.append(sq, Record(value=[lit, pv], type='var', line=1, col=1))
                vars_[norm(lit)] = pv
        return sq, vars_

    def view(sq):
        return [(norm(it.value[0]), it.value[1].cssText) for it in sq if it.type == 'var']

    intr = {'normalize': norm, 'ProdParser().parse': lambda text_, *a, **k: (bool(_re.fullmatch(r'[a-z_-][a-z0-9_-]*', text_ or '')), None, None, None),
            'Sequence': lambda *a, **k: None, 'PreDef.ident': lambda *a, **k: None, 'PropertyValue': PV}
    bad = []
    n = 0
    for name in ('width', 'WIDTH', 'wid\\th', 'w\\idth', 'height', 'Height', 'c', 'new', 'N\\ow'):
        sq, vars_ = block()
        me = Record(seq=sq, _vars=vars_, _checkReadonly=lambda: None, _log=Record(error=lambda *a, **k: None))
        res = Evaluator(m.get('CSSVariablesDeclaration.setVariable'), intrinsics={**intr, 'self._log.error': me._log.error}, model_types=(SeqM,), module=m, cls='CSSVariablesDeclaration').run(self=me, variableName=name, value='9')
        n += 1
        want = [(k, '9' if k == norm(name) else v) for k, v in view(block()[0])]
        if norm(name) not in dict(want):
            want.append((norm(name), '9'))
        got = view(sq) if not isinstance(res, Raised) else repr(res)
        mapped = sorted((k, v.cssText) for k, v in me._vars.items())
        if got != want or mapped != sorted(want) or sq._readonly is not True:
            bad.append(f'setVariable({name!r}, "9"): items {got}, name map {mapped}; prescribed {want} in both')
    for name in ('width', 'WIDTH', 'wid\\th', 'height', 'HEIGHT', 'c', 'd', 'absent'):
        sq, vars_ = block()
        me = Record(seq=sq, _vars=vars_, _checkReadonly=lambda: None, _log=Record(error=lambda *a, **k: None))
        res = Evaluator(m.get('CSSVariablesDeclaration.removeVariable'), intrinsics={**intr, 'self._log.error': me._log.error}, model_types=(SeqM,), module=m, cls='CSSVariablesDeclaration').run(self=me, variableName=name)
        n += 1
        before = view(block()[0])
        want = [(k, v) for k, v in before if k != norm(name)]
        wantret = dict(before).get(norm(name), '')
        got = view(sq) if not isinstance(res, Raised) else repr(res)
        mapped = sorted((k, v.cssText) for k, v in me._vars.items())
        if got != want or mapped != sorted(want) or res != wantret:
            bad.append(f'removeVariable({name!r}): items {got}, name map {mapped}, returns {res!r}; prescribed {want} in both, returning {wantret!r}')
    chk.extra['variable_edit_cases'] = n
    chk.ob(rid, VARS, 'CSSVariablesDeclaration', f'all {n} edits keep the item list and the name map in step', not bad, f'{len(bad)} cases differ, e.g. ' + '; '.join(bad[:2]))


def r10h(chk, rid='R10.h'):
    chk.rule(rid, 'the name map of a variables block is private to it: `_vars` is read and written only as `self._vars` inside CSSVariablesDeclaration; everybody else goes through the mapping interface, which hands out the *text* of a value - so a value object is never shared between two blocks (a sheet-level table filled with shared objects can refer back to itself: var() resolution then recurses without end)')
    n = 0
    for rel, m in chk.repo.modules.items():
        if not rel.startswith('cssutils/') or '/tests/' in rel:
            continue
        for x in ast.walk(m.tree):
            if isinstance(x, ast.Attribute) and x.attr == '_vars':
                n += 1
                q = m.qualname_of(x)
                ok = rel == VARS and q.startswith('CSSVariablesDeclaration.') and isinstance(x.value, ast.Name) and x.value.id == 'self'
                chk.ob(rid, rel, q, f'`{text(m.enclosing_stmt(x))[:70]}` reaches the name map', ok, 'parsed value objects of another block are taken over instead of their text', trivial=ok)
    if n < 5:
        raise AnalysisError(f'only {n} uses of _vars found')



def _eval_set_property(chk, rid, m):
    """CSSStyleDeclaration.setProperty (with getProperties / getProperty, resolved in the class) evaluated
    on its syntax tree over a model block."""
    from sa.absint import Evaluator, Raised, Record

    sp = m.get('CSSStyleDeclaration.setProperty')

    class PropM(Record):
        def __init__(self, name=None, value=None, priority='', parent=None, **k):
            Record.__init__(self, literalname=name, name=(name or '').lower(), priority=priority, parent=parent, wellformed=k.pop('wellformed', True),
                            propertyValue=Record(cssText=value), tag=k.pop('tag', 'NEW'), **k)

    from sa.absint import SourceBacked

    from .c04 import bound_method
    from .c16b import seq_model

    SeqM = SourceBacked

    def block():
        # the item list is util.Seq, evaluated from the source
        sq = seq_model(chk.repo)
        for tag, lit, val, prio in ((1, 'a', '1', 'important'), (2, 'A', '2', ''), (None, None, None, None), (3, 'b', '3', ''), (4, 'a', '4', '')):
            if tag is None:
                sq.append(Record(cssText='/*c*/'), 'COMMENT')
            else:
                sq.append(PropM(lit, val, prio, tag=tag), 'Property')
        sq._readonly = True
        return sq

    class Me(Record):
        @property
        def seq(self):
            return self._seq

    def receiver(sq, removed):
        me = Me(_seq=sq, _checkReadonly=lambda: None, _normalize=lambda x: x.lower(), _log=Record(warn=lambda *a, **k: None), removeProperty=lambda nm, normalize=True: removed.append(nm))
        me._tempSeq = bound_method(chk.repo, 'cssutils/util.py', '_NewBase._tempSeq', me, {'Seq': lambda readonly=True: seq_model(chk.repo, readonly)})
        me._setSeq = bound_method(chk.repo, 'cssutils/util.py', '_NewBase._setSeq', me)
        return me

    def view(sq):
        return [(it.value.tag, getattr(it.value.propertyValue, 'cssText', it.value.propertyValue), it.value.priority) for it in sq if isinstance(it.value, PropM)]

    n = 0
    bad = []
    for name, normalize, replace, prio, as_object in ((x, nz, rp_, pr, ob) for ob in (False, True) for x in ('a', 'A', 'b', 'new') for nz in (True, False) for rp_ in (True, False) for pr in ('', 'important')):
        sq = block()
        removed = []
        me = receiver(sq, removed)
        ev = Evaluator(sp, intrinsics={'Property': PropM, 'self._log.warn': me._log.warn}, model_types=(SeqM,), module=m, cls='CSSStyleDeclaration')
        if as_object:
            # a Property object in place of the name: it carries value and priority itself
            res = ev.run(self=me, name=PropM(name, '9', prio), normalize=normalize, replace=replace)
        else:
            res = ev.run(self=me, name=name, value='9', priority=prio, normalize=normalize, replace=replace)
        n += 1
        before = view(block())
        props = [t for t in before]
        # the entry an update must hit
        if normalize:
            hits = [t for t in before if {1: 'a', 2: 'a', 3: 'b', 4: 'a'}[t[0]] == name.lower()]
        else:
            hits = [t for t in before if {1: 'a', 2: 'A', 3: 'b', 4: 'a'}[t[0]] == name]
        imp = [t for t in hits if t[2]]
        # without normalising the documented behaviour is weaker ("may return NOT the effective value but the
        # effective for the unnormalized name"): the last entry with that literal name is the one updated
        target = ((imp if normalize else []) or hits or [None])[-1]
        if replace and target is not None:
            want = [(t[0], '9', prio) if t == target else t for t in before]
        else:
            want = before + [('NEW', '9', prio)]
        got = view(me._seq) if not isinstance(res, Raised) else repr(res)
        if got != want or me._seq._readonly is not True:
            bad.append(f'setProperty({"Property(" if as_object else ""}{name!r}, "9", {prio!r}{")" if as_object else ""}, normalize={normalize}, replace={replace}): {got}, prescribed {want}')
    for empty in ('', None):
        sq = block()
        removed = []
        me = receiver(sq, removed)
        Evaluator(sp, intrinsics={'Property': PropM}, model_types=(SeqM,), module=m, cls='CSSStyleDeclaration').run(self=me, name='a', value=empty)
        n += 1
        if removed != ['a'] or view(me._seq) != view(block()):
            bad.append(f'setProperty("a", {empty!r}) must remove the property: removeProperty calls {removed}')
    chk.extra['set_property_cases'] = n
    chk.ob(rid, DECL, 'CSSStyleDeclaration.setProperty', f'all {n} cases: an update hits the effective entry of the name (the last !important one, else the last; by literal name without normalising), otherwise - or with replace=False - a new entry is appended; an empty value removes (by evaluation)', not bad, f'{len(bad)} differ, e.g. ' + ' | '.join(bad[:2]))
