"""C18 - value normalisation never changes what a value denotes (structural parts)."""
from __future__ import annotations

import ast
import re

from sa.absint import Evaluator, Record
from sa.core import AnalysisError, call_name, const, literal, text

SER = 'cssutils/serialize.py'
COLORS = 'cssutils/css/colors.py'

CSS21_COLORS = {
    'maroon': (128, 0, 0), 'red': (255, 0, 0), 'orange': (255, 165, 0), 'yellow': (255, 255, 0), 'olive': (128, 128, 0),
    'purple': (128, 0, 128), 'fuchsia': (255, 0, 255), 'white': (255, 255, 255), 'lime': (0, 255, 0), 'green': (0, 128, 0),
    'navy': (0, 0, 128), 'blue': (0, 0, 255), 'aqua': (0, 255, 255), 'teal': (0, 128, 128), 'black': (0, 0, 0),
    'silver': (192, 192, 192), 'gray': (128, 128, 128),
}
LENGTH_UNITS = {'em', 'ex', 'px', 'in', 'cm', 'mm', 'pt', 'pc', 'rem', 'ch', 'vw', 'vh', 'vmin', 'vmax', 'q'}


def run(chk):
    chk.attempt(r18a, chk)
    chk.attempt(r18b, chk)
    chk.attempt(r18c, chk)
    chk.attempt(r18d, chk)
    chk.attempt(r18g, chk)
    chk.attempt(r18h, chk)
    chk.attempt(r18i, chk)
    from .c03 import r03a, r03b

    chk.attempt(r03a, chk, 'R18.e')
    chk.attempt(r03b, chk, 'R18.f')
    chk.attempt(r18j, chk)


def r18a(chk, rid='R18.a'):
    chk.rule(rid, 'hash shortening is lossless: CSSSerializer._hash is a decision procedure on the characters of its argument; evaluated on its syntax tree for representatives of every case (length 4/7/other, each pair equal/unequal, preference on/off) it shortens exactly #aabbcc -> #abc under minimizeColorHash and returns everything else unchanged')
    fn = chk.repo.fn(SER, 'CSSSerializer._hash')
    ev = Evaluator(fn, module=chk.repo.mod(SER), cls='CSSSerializer')
    cases = []
    for val in ('#aabbcc', '#AAbbCC', '#aabbcd', '#aabccc', '#abbbcc', '#abc', '#aabbccdd', '#aabbc', '#', '#1122334', '#aAbbcc', '#112233'):
        for pref in (True, False):
            cases.append((val, pref))
    for val, pref in cases:
        self_ = Record(prefs=Record(minimizeColorHash=pref))
        got = ev.run(self=self_, val=val, type_=None)
        short = pref and len(val) == 7 and val[1] == val[2] and val[3] == val[4] and val[5] == val[6]
        want = ('#' + val[1] + val[3] + val[5]) if short else val
        chk.ob(rid, SER, 'CSSSerializer._hash', f'_hash({val!r}) with minimizeColorHash={pref} -> {want!r}', got == want, f'returns {got!r}: the colour changes')
    m = chk.repo.mod(SER)
    uses = [c for c in ast.walk(m.tree) if isinstance(c, ast.Call) and call_name(c).endswith('._hash')]
    ok = len(uses) == 1
    if ok:
        st = m.enclosing_stmt(uses[0])
        par = m.parents.get(st)
        ok = isinstance(par, ast.If) and text(par.test) in ("'HASH' == type_", "type_ == 'HASH'") and st in par.body
    chk.ob(rid, SER, 'Out.append', 'only HASH items are shortened', ok, 'other values could be passed through _hash')


def _value_fn(chk):
    return chk.repo.fn(SER, 'CSSSerializer.do_css_Value')


def _eval_number(chk, vtype, dim, num, sign, omit):
    """Text that CSSSerializer.do_css_Value writes for a numeric value, by evaluating its
    syntax tree (helpers resolved in the class; Out modelled as plain concatenation)."""
    from sa.absint import Evaluator, Record

    fn = _value_fn(chk)
    parts = []
    out = Record(append=lambda val, type_=None, *a, **k: parts.append(val), value=lambda: ''.join(parts))
    me = Record(prefs=Record(omitLeadingZero=omit))
    val = Record(type=vtype, dimension=dim, value=num, _sign=sign)
    ev = Evaluator(fn, intrinsics={'Out': lambda ser: out}, module=chk.repo.mod(SER), cls='CSSSerializer')
    return ev.run(self=me, value=val)


NUM_RE = re.compile(r'^([+-]?)(\d*)(\.?)(\d*)(.*)$', re.S)
UNITS = sorted(LENGTH_UNITS - {'rem', 'ch', 'vw', 'vh', 'vmin', 'vmax', 'q'}) + ['deg', 'rad', 'grad', 's', 'ms', 'hz', 'khz', 'dpi', 'fr', 'rem', 'vw']


def r18b(chk, rid='R18.b'):
    chk.rule(rid, 'zero lengths only: CSSSerializer.do_css_Value evaluated on its syntax tree for zero and non-zero values of every unit: the unit is written unchanged, except that a zero *length* may be written unit-less (a zero angle, time, frequency, resolution or percentage keeps its unit; no non-zero value loses it)')
    n = 0
    for omit in (False, True):
        for dim in UNITS + ['%']:
            vtype = 'PERCENTAGE' if dim == '%' else 'DIMENSION'
            for num, sign in ((0, ''), (0.0, '-'), (0, '+'), (5, ''), (0.5, ''), (-0.25, '-')):
                got = _eval_number(chk, vtype, dim, num, sign, omit)
                n += 1
                mo = NUM_RE.match(got) if isinstance(got, str) else None
                unit = mo.group(5) if mo else None
                ok = unit == dim or (unit == '' and num == 0 and dim in LENGTH_UNITS)
                if not ok or (num == 0 and sign == '' and not omit):
                    chk.ob(rid, SER, 'CSSSerializer.do_css_Value', f'{num}{dim} keeps its unit' + (' (or drops it: zero length)' if num == 0 and dim in LENGTH_UNITS else ''), ok,
                           f'written as {got!r}: ' + ('a zero that is not a length loses its unit' if num == 0 else 'a non-zero value loses or changes its unit'))
    chk.ob(rid, SER, 'CSSSerializer.do_css_Value', f'all {n} unit cases evaluated', True)


def module_global(m, name):
    """Value of a module-level name, by evaluating the module's top-level statements (a table may be a
    literal or be built by code at import time)."""
    import ast as _ast

    from sa.absint import Evaluator, Raised

    body = [st for st in m.tree.body if not isinstance(st, (_ast.Import, _ast.ImportFrom, _ast.FunctionDef, _ast.ClassDef))]
    fn = _ast.FunctionDef(name='_module', args=_ast.arguments(posonlyargs=[], args=[], kwonlyargs=[], kw_defaults=[], defaults=[]), body=body + [_ast.Return(value=_ast.Name(id=name, ctx=_ast.Load()))], decorator_list=[], lineno=1, col_offset=0)
    _ast.fix_missing_locations(fn)
    got = Evaluator(fn, module=m).run()
    if isinstance(got, Raised):
        raise AnalysisError(f'{m.rel}: evaluating the module for {name} ends in {got!r}')
    return got


def r18c(chk, rid='R18.c'):
    chk.rule(rid, 'colour table consistency: the gray/grey spelling pairs are equal, aqua=cyan, fuchsia=magenta, every channel is an int in 0..255 and alpha is 1.0 except for transparent; the CSS 2.1 colour keywords and all 147 extended colour keywords have their specification values (the table is obtained by evaluating the module, so it may be a literal or be built at import time)')
    m = chk.repo.mod(COLORS)
    table = module_global(m, 'COLORS')
    if not isinstance(table, dict) or len(table) < 140:
        raise AnalysisError(f'colour table has only {len(table)} entries')
    chk.ob(rid, COLORS, 'COLORS', f'{len(table)} entries, all lower-case names', all(k == k.lower() for k in table), '')
    bad = [k for k, v in table.items() if not (isinstance(v, tuple) and len(v) == 4 and all(isinstance(c, int) and 0 <= c <= 255 for c in v[:3]) and isinstance(v[3], float) and (v[3] == 1.0 or k == 'transparent'))]
    chk.ob(rid, COLORS, 'COLORS', 'channels are ints in 0..255, alpha 1.0 (0.0 for transparent)', not bad, f'{bad[:5]}')
    pairs = [(k, k.replace('gray', 'grey')) for k in table if 'gray' in k]
    if len(pairs) < 7:
        raise AnalysisError('gray/grey pairs not found')
    for a, b in pairs + [('aqua', 'cyan'), ('fuchsia', 'magenta')]:
        chk.ob(rid, COLORS, 'COLORS', f'{a} == {b}', b in table and table[a] == table[b], f'{table.get(a)} vs {table.get(b)}')
    for k, rgb in CSS21_COLORS.items():
        chk.ob(rid, COLORS, 'COLORS', f'{k} = {rgb}', table.get(k, (None,))[:3] == rgb, f'table says {table.get(k)}')
    chk.ob(rid, COLORS, 'COLORS', 'transparent is (0, 0, 0, 0.0)', table.get('transparent') == (0, 0, 0, 0.0), str(table.get('transparent')))
    # the 147 extended colour keywords of CSS Color Level 3 (SVG), typed into the checker
    from .svgcolors import T as SVG

    wrong = sorted(k for k in SVG if tuple(table.get(k, ())[:3]) != SVG[k])
    chk.ob(rid, COLORS, 'COLORS', f'all {len(SVG)} extended colour keywords have their specification values', not wrong,
           '; '.join(f'{k}: table says {table.get(k)}, specified {SVG[k]}' for k in wrong[:3]) + f' ({len(wrong)} keywords): the typed channels of the keyword denote another colour than its name')
    extra = sorted(set(table) - set(SVG) - {'transparent'})
    chk.ob(rid, COLORS, 'COLORS', 'the table holds the extended colour keywords and transparent, nothing else', not extra, f'{extra[:5]}')


def r18d(chk, rid='R18.d'):
    chk.rule(rid, 'the number formatter decided by evaluation: CSSSerializer.do_css_Value (with _strip_zeros, resolved in the class) is evaluated on its syntax tree for representatives of every case its comparisons distinguish - zero, integral (small, huge), non-integral below and above magnitude one, each sign spelling, literals with one to six fractional digits, and literals with seven (below half a millionth, where the formatted text is all zeros) - under omitLeadingZero on and off: the text denotes exactly the same real number, an explicit + is kept for non-zero values only, the leading zero is dropped only under the preference and only the one before the decimal point')
    chk.assume("R18.d: the branch structure of do_css_Value is decided for representatives of every case; '%f' formatting of the representatives is the interpreter's float arithmetic")
    from fractions import Fraction

    cases = []
    for num in (0, 1, 7, 10, 100, 2 ** 53 + 1, 10 ** 15, 0.5, 0.05, 0.000001, 0.0000001, 0.0000004, 0.1234564, 0.123456, 0.999999, 1.5, 10.5, 10.05, 100.000001, 1234.5678, 99999.999999):
        for neg in (False, True):
            if num == 0:
                cases += [(0, ''), (0, '+'), (0, '-')] if not neg else []
                continue
            v = -num if neg else num
            cases += [(v, '-')] if neg else [(v, ''), (v, '+')]
    n = 0
    for omit in (False, True):
        for vtype, dim in (('NUMBER', None), ('DIMENSION', 'px'), ('PERCENTAGE', '%'), ('DIMENSION', 'deg')):
            for num, sign in cases:
                got = _eval_number(chk, vtype, dim, num, sign, omit)
                n += 1
                mo = NUM_RE.match(got) if isinstance(got, str) else None
                problems = []
                if not mo or not (mo.group(2) or mo.group(4)):
                    problems.append('not a number')
                else:
                    sg, ip, dot, fp = mo.group(1), mo.group(2), mo.group(3), mo.group(4)
                    denotes = Fraction((sg if sg == '-' else '') + (ip or '0') + ('.' + fp if fp else ''))
                    exact = Fraction(str(num))
                    if exact * 10 ** 6 != int(exact * 10 ** 6):
                        # more than six fractional digits: the formatter rounds to six ('%f'), the text must be the nearest such number
                        if abs(denotes - exact) > Fraction(5, 10 ** 7):
                            problems.append(f'denotes {denotes}, not {num} rounded to six digits')
                    elif denotes != exact and denotes != Fraction(num):
                        problems.append(f'denotes {denotes} instead of {num}')
                    if (sg == '+') != (sign == '+' and num != 0):
                        problems.append("explicit '+' " + ('lost' if sign == '+' else 'invented'))
                    if num < 0 and sg != '-':
                        problems.append('minus sign lost')
                    if 0 < abs(num) < 1 and num != int(num):
                        if omit and ip != '':
                            problems.append('leading zero kept under omitLeadingZero')
                        if not omit and ip != '0':
                            problems.append('leading zero dropped without the preference')
                    if fp.endswith('0') and len(fp) > 1:
                        problems.append('redundant trailing zeros')
                if problems or n <= 2:
                    chk.ob(rid, SER, 'CSSSerializer.do_css_Value', f'{sign if sign == "+" else ""}{num}{dim or ""} (omitLeadingZero={omit})', not problems, f'written as {got!r}: ' + '; '.join(problems))
    chk.extra['number_cases_evaluated'] = n
    chk.ob(rid, SER, 'CSSSerializer.do_css_Value', f'all {n} number cases evaluated', True)


def _elif_chain_before(m, ifnode):
    """The `if`s whose else-branch this `if` sits in (elif chain predecessors)."""
    out = []
    cur = ifnode
    while True:
        par = m.parents.get(cur)
        if isinstance(par, ast.If) and cur in par.orelse:
            out.append(par)
            cur = par
        else:
            break
    return out


def r18g(chk, rid='R18.g'):
    chk.rule(rid, 'hue is an angle: in ColorValue._setCssText the first argument of colorsys.hls_to_rgb derives from the parsed hue component only by scaling with the constant 360 (division, optionally a modulo): no clamping or truncating function (min, max, abs, int, round) lies on its def-use chain, because hsl(400, ...) denotes the same colour as hsl(40, ...); and the components are passed in the order colorsys expects (h, l, s)')
    rel = 'cssutils/css/value.py'
    m = chk.repo.mod(rel)
    fn = m.get('ColorValue._setCssText')
    calls = [c for c in ast.walk(fn) if isinstance(c, ast.Call) and text(c.func).endswith('hls_to_rgb')]
    rawname = 'raw'
    if not calls:
        # the conversion may live in a module-level helper that is handed the components: follow `helper(raw)`
        for c in ast.walk(fn):
            if isinstance(c, ast.Call) and isinstance(c.func, ast.Name) and m.has(c.func.id) and isinstance(m.get(c.func.id), ast.FunctionDef):
                h = m.get(c.func.id)
                for i, a in enumerate(c.args):
                    if isinstance(a, ast.Name) and a.id == 'raw' and i < len(h.args.args):
                        inner = [x for x in ast.walk(h) if isinstance(x, ast.Call) and text(x.func).endswith('hls_to_rgb')]
                        if inner:
                            calls, fn, rawname = inner, h, h.args.args[i].arg
    if len(calls) != 1 or len(calls[0].args) != 3:
        raise AnalysisError('ColorValue._setCssText: colorsys.hls_to_rgb call not found')

    def chain(expr, depth=0):
        """All expressions on the def-use chain of `expr` inside the function."""
        out = [expr]
        if depth > 5:
            return out
        for x in ast.walk(expr):
            if isinstance(x, ast.Name):
                for st in ast.walk(fn):
                    if isinstance(st, ast.Assign):
                        for t in st.targets:
                            if isinstance(t, ast.Name) and t.id == x.id:
                                out += chain(st.value, depth + 1)
                            elif isinstance(t, ast.Tuple) and isinstance(st.value, ast.Tuple) and len(t.elts) == len(st.value.elts):
                                for a, b in zip(t.elts, st.value.elts):
                                    if isinstance(a, ast.Name) and a.id == x.id:
                                        out += chain(b, depth + 1)
        return out

    hue = chain(calls[0].args[0])
    src = ' ; '.join(text(e) for e in hue)
    if f'{rawname}[0]' not in src:
        raise AnalysisError(f'ColorValue._setCssText: hue argument `{text(calls[0].args[0])}` does not derive from raw[0]')
    bad = sorted({call_name(c) for e in hue for c in ast.walk(e) if isinstance(c, ast.Call) and call_name(c) in ('min', 'max', 'abs', 'int', 'round')})
    chk.ob(rid, rel, 'ColorValue._setCssText', 'the hue reaches colorsys.hls_to_rgb without clamping or truncation', not bad,
           f'{bad} applied to the hue: hsl(400, 100%, 50%) no longer denotes the colour of hsl(40, 100%, 50%)')
    scaled = any(isinstance(x, ast.BinOp) and isinstance(x.op, ast.Div) and const(x.right) in (360, 360.0) for e in hue for x in ast.walk(e))
    chk.ob(rid, rel, 'ColorValue._setCssText', 'the hue is scaled from degrees to the unit circle (division by 360)', scaled, 'colorsys expects the hue as a fraction of the circle')
    l_chain = ' ; '.join(text(e) for e in chain(calls[0].args[1]))
    s_chain = ' ; '.join(text(e) for e in chain(calls[0].args[2]))
    chk.ob(rid, rel, 'ColorValue._setCssText', 'lightness (third hsl() component) is passed second, saturation third', f'{rawname}[2]' in l_chain and f'{rawname}[1]' in s_chain and f'{rawname}[1]' not in l_chain and f'{rawname}[2]' not in s_chain, f'l <- {l_chain[:60]}; s <- {s_chain[:60]}', shape=True)


def r18h(chk, rid='R18.h'):
    chk.rule(rid, 'numeric literals and their typed accessors, decided by evaluation: a DIMENSION / NUMBER / PERCENTAGE token is passed through the toSeq conversion of its PreDef production (evaluated from prodparser.py) and then through DimensionValue._setCssText (evaluated from value.py; the production parse between them is modelled): the value is exactly the real number the literal denotes - integers of any size, one to six fractional digits, with and without integer part and sign - the sign spelling is kept, and the unit is the normalised unit (case folded, simple escapes removed) or None')
    chk.assume("R18.h: the production parse between PreDef and DimensionValue is modelled as 'the token goes through the toSeq of its production'; helper.normalize as in R10.g")
    import re as _re
    from fractions import Fraction

    from sa.absint import Evaluator, Raised, Record

    vm = chk.repo.mod('cssutils/css/value.py')
    pm = chk.repo.mod('cssutils/prodparser.py')

    def norm(x):
        return _re.sub(r'\\([^0-9a-fA-F\n\r\f])', r'\1', x).lower() if x else x

    def prod_of(kind):
        f = pm.get(f'PreDef.{kind}')
        intr = {'Prod': lambda **k: Record(kind=kind, **k), 'cssutils': Record(helper=Record(normalize=norm)),
                'PreDef': Record(types=Record(DIMENSION='DIMENSION', NUMBER='NUMBER', PERCENTAGE='PERCENTAGE'))}
        p = Evaluator(f, intrinsics=intr, module=pm, cls='PreDef').run(stop=True)
        if isinstance(p, Raised) or not isinstance(p, Record):
            raise AnalysisError(f'PreDef.{kind}: {p!r}')
        return p

    prods = {'DIMENSION': prod_of('dimension'), 'NUMBER': prod_of('number'), 'PERCENTAGE': prod_of('percentage')}
    fn = vm.get('DimensionValue._setCssText')

    def run(ttype, literal, used=False):
        token = (ttype, literal, 1, 1)
        conv = getattr(prods[ttype], 'toSeq', None)
        typ, val = conv(token, None) if conv else (token[0], token[1])
        me = Record(_checkReadonly=lambda: None, _setSeq=lambda sq: None, wellformed=None, _sign=None, _value=None, _dimension=None, _type=None)
        if used:  # an object that held another value before
            me._sign, me._value, me._dimension, me._type, me.wellformed = '-', 99, 'old', 'DIMENSION', True
        intr = {'ProdParser().parse': lambda *a, **k: (True, [Record(type=typ, value=val)], {}, None), 'Sequence': lambda *a, **k: None, 'Choice': lambda *a, **k: None,
                'PreDef': Record(dimension=lambda **k: None, number=lambda **k: None, percentage=lambda **k: None), 'normalize': norm}
        res = Evaluator(fn, intrinsics=intr, module=vm, cls='DimensionValue').run(self=me, cssText=literal)
        return res, me

    nums = ['0', '1', '7', '007', '1.5', '1.50', '.5', '0.5', '0.000001', '0.123456', '123456.654321', '9007199254740993', '99999999999999999', '1' + '0' * 40, '18446744073709551617']
    n = 0
    bad = []
    for numtext in nums:
        for sign in ('', '+', '-'):
            for ttype, unit, want_unit in (('NUMBER', '', None), ('PERCENTAGE', '%', '%'), ('DIMENSION', 'px', 'px'), ('DIMENSION', 'PX', 'px'), ('DIMENSION', 'e\\m', 'em'), ('DIMENSION', 'Q', 'q')):
                literal = sign + numtext + unit
                res, me = run(ttype, literal)
                n += 1
                if isinstance(res, Raised):
                    bad.append(f'{literal!r}: {res!r}')
                    continue
                try:
                    denotes = Fraction(me._value)
                except (TypeError, ValueError):
                    bad.append(f'{literal!r}: value {me._value!r}')
                    continue
                want = Fraction(sign.replace('+', '') + (numtext if not numtext.startswith('.') else '0' + numtext))
                if '.' in numtext:
                    want = Fraction(float(want))  # a decimal literal is held as the nearest double; integers exactly
                probs = []
                if denotes != want:
                    probs.append(f'value {me._value!r} instead of {sign + numtext}')
                if me._sign != sign:
                    probs.append(f'sign {me._sign!r}')
                if me._dimension != want_unit:
                    probs.append(f'unit {me._dimension!r} instead of {want_unit!r}')
                if me._type != ttype:
                    probs.append(f'type {me._type!r}')
                if probs:
                    bad.append(f'{literal!r}: ' + ', '.join(probs))
    # assigning new text to a value object that held something else gives what a fresh object gives
    stale = []
    for ttype, literal in (('NUMBER', '3'), ('NUMBER', '1.2'), ('PERCENTAGE', '50%'), ('DIMENSION', '2em'), ('NUMBER', '+0')):
        r1, fresh = run(ttype, literal)
        r2, used = run(ttype, literal, used=True)
        n += 1
        a = (fresh._sign, fresh._value, fresh._dimension, fresh._type)
        b = (used._sign, used._value, used._dimension, used._type)
        if isinstance(r2, Raised) or a != b:
            stale.append(f'{literal!r} assigned to an object that held -99old: (sign, value, unit, type) = {b}, a fresh object gives {a}')
    chk.ob(rid, 'cssutils/css/value.py', 'DimensionValue._setCssText', 'a value object set to new text holds nothing of its old value', not stale, '; '.join(stale[:2]) + ': line-height: 18px edited in place to 1.2 is written 1.2px')
    chk.extra['numeric_literal_cases'] = n
    for b_ in bad[:4]:
        chk.ob(rid, 'cssutils/css/value.py', 'DimensionValue._setCssText', 'literal read as written', False, b_)
    chk.ob(rid, 'cssutils/css/value.py', 'DimensionValue._setCssText', f'all {n} literals: exact value, sign spelling, normalised unit, token type', not bad, f'{len(bad)} differ')


def r18i(chk, rid='R18.i'):
    chk.rule(rid, 'a URL survives writing and reading, decided by evaluation: helper.uri (the writer) and helper.urivalue with stringvalue (the reader of the URI token) are evaluated on their syntax trees and composed: for URLs that begin, end or contain each character that matters - every Unicode white space character (there are finitely many), quotes, parentheses, comma, semicolon, control characters, non-ASCII letters - the content read back is the content written; the reader alone returns the exact content of quoted and unquoted url() tokens, including an escaped delimiter at the very end')
    from sa.absint import Evaluator, Raised

    m = chk.repo.mod('cssutils/helper.py')
    w, r = m.get('uri'), m.get('urivalue')
    # line feed, carriage return and form feed are written as hex escapes, which the tokenizer decodes before
    # urivalue sees the token (R03.a decides those); every other white space character is covered here
    spaces = [chr(c) for c in range(0x3001) if chr(c).isspace() and chr(c) not in '\n\r\f']
    specials = spaces + ['"', "'", '(', ')', ',', ';', '\x01', '\x7f', '\xe9', '€', '%', '#', '?']
    n = 0
    bad = []
    for c in specials:
        for value in (c + 'x', 'x' + c, 'a' + c + 'b', c + 'x' + c):
            text_ = Evaluator(w, module=m).run(value=value)
            if isinstance(text_, Raised) or not isinstance(text_, str):
                bad.append(f'uri({value!r}) gives {text_!r}')
                continue
            back = Evaluator(r, module=m).run(uri=text_)
            n += 1
            if back != value:
                bad.append(f'{value!r} is written {text_!r} and read back as {back!r}')
    chk.extra['url_round_trips'] = n
    chk.ob(rid, 'cssutils/helper.py', 'uri', f'all {n} URLs come back as they were written', not bad, f'{len(bad)} do not, e.g. ' + ' | '.join(bad[:2]))
    for token, want in (('url(a.png)', 'a.png'), ('url( a.png )', 'a.png'), ('url("a b")', 'a b'), ("url('a b')", 'a b'), ('url("a\\"")', 'a"'), ('url("\\"a")', '"a'), ("url('it\\'s')", "it's"), ('url("")', ''), ('url()', ''), ('URL("x")', 'x'), ('url("a\'b")', "a'b")):
        got = Evaluator(r, module=m).run(uri=token)
        chk.ob(rid, 'cssutils/helper.py', 'urivalue', f'the content of {token} is {want!r}', got == want, f'read as {got!r}')


def r18j(chk, rid='R18.j'):
    chk.rule(rid, 'typed colour channels, decided by evaluation: the part of ColorValue._setCssText behind the production parse is evaluated on its syntax tree for the parse results of #rgb, #rrggbb, a colour keyword, rgb()/rgba() with numbers and with percentages, hsl()/hsla() at the anchor hues - with alpha 0, 0.0, 0.5 and 1 where the notation has one: red, green, blue are the channels the notation denotes and alpha is the alpha that was written (1.0 where the notation has none)')
    chk.assume('R18.j: the production parse is replaced by its result (function name item, one value item per component); colorsys is the interpreter\'s')
    from sa.absint import Evaluator, Obj, Raised, Record

    vm = chk.repo.mod('cssutils/css/value.py')
    fn = vm.get('ColorValue._setCssText')
    table = module_global(chk.repo.mod(COLORS), 'COLORS')
    VAL = Record(NUMBER='NUMBER', PERCENTAGE='PERCENTAGE', DIMENSION='DIMENSION', IDENT='IDENT')

    def comp(v, pct=False):
        return Record(type=None, value=Record(type='PERCENTAGE' if pct else 'NUMBER', value=v))

    def func(name, comps):
        return [Record(type='FUNCTION', value=name)] + [comp(v, p) for v, p in comps] + [Record(type='CHAR', value=')')]

    cases = [('#f00', [Record(type='HASH', value='#f00')], (255, 0, 0, 1.0)), ('#0a0B0c', [Record(type='HASH', value='#0a0B0c')], (10, 11, 12, 1.0)),
             ('Navy', [Record(type='IDENT', value='Navy')], (0, 0, 128, 1.0)), ('transparent', [Record(type='IDENT', value='transparent')], (0, 0, 0, 0.0)),
             ('rgb(1, 2, 3)', func('rgb(', [(1, False), (2, False), (3, False)]), (1, 2, 3, 1.0)), ('rgb(100%, 0%, 50%)', func('rgb(', [(100, True), (0, True), (50, True)]), (255, 0, 127, 1.0)),
             ('hsl(0, 100%, 50%)', func('hsl(', [(0, False), (100, True), (50, True)]), (255, 0, 0, 1.0)), ('hsl(120, 100%, 50%)', func('hsl(', [(120, False), (100, True), (50, True)]), (0, 255, 0, 1.0)),
             ('hsl(240, 100%, 50%)', func('hsl(', [(240, False), (100, True), (50, True)]), (0, 0, 255, 1.0)), ('hsl(0, 0%, 100%)', func('hsl(', [(0, False), (0, True), (100, True)]), (255, 255, 255, 1.0))]
    for alpha in (0, 0.0, 0.5, 1):
        cases.append((f'rgba(1, 2, 3, {alpha})', func('rgba(', [(1, False), (2, False), (3, False), (alpha, False)]), (1, 2, 3, alpha)))
        cases.append((f'hsla(120, 100%, 50%, {alpha})', func('hsla(', [(120, False), (100, True), (50, True), (alpha, False)]), (0, 255, 0, alpha)))
    bad = []
    for label, seq, want in cases:
        me = Obj(_checkReadonly=lambda: None, type='COLOR_VALUE', COLORS=table, wellformed=None, _colorType=None, _red=None, _green=None, _blue=None, _alpha=None, _setSeq=lambda sq: None,
                 _prods=Record(FUNCTION='FUNCTION', HASH='HASH', IDENT='IDENT', NUMBER='NUMBER', PERCENTAGE='PERCENTAGE'), _log=Record(error=lambda *a, **k: None))
        intr = {'ProdParser().parse': lambda *a, seq=seq, **k: (True, seq, {}, None), 'Sequence': lambda *a, **k: None, 'Choice': lambda *a, **k: None, 'Prod': lambda *a, **k: None,
                'PreDef': Record(unary=lambda **k: None, number=lambda **k: None, percentage=lambda **k: None, comma=lambda **k: None, funcEnd=lambda **k: None, hexcolor=lambda **k: None, S=lambda **k: None),
                'Value': VAL, 'self._log.error': me._log.error}
        res = Evaluator(fn, intrinsics=intr, module=vm, cls='ColorValue').run(self=me, cssText=label)
        got = (me._red, me._green, me._blue, me._alpha)
        if isinstance(res, Raised) or me.wellformed is not True or got != want or type(got[3]) not in (int, float):
            bad.append(f'{label}: channels {got}' + (f' ({res!r})' if isinstance(res, Raised) else '') + f', denoted {want}')
    chk.ob(rid, 'cssutils/css/value.py', 'ColorValue._setCssText', f'all {len(cases)} colours have the channels and the alpha their notation denotes', not bad, '; '.join(bad[:3]))
