"""C01 - totality of the hand-written block parsers, by evaluation with the real parse loop."""
from __future__ import annotations

from sa.core import pool_repo as core_pool_repo, pmap as core_pmap  # noqa: E402

import itertools

from sa.core import AnalysisError

UNKNOWN = 'cssutils/css/cssunknownrule.py'
UTIL = 'cssutils/util.py'


def _tk(v):
    if v == 'EOF':
        return ('EOF', '', 1, 1)
    return ('FUNCTION' if v.endswith('(') and len(v) > 1 else 'STRING' if v[:1] == '"' else 'URI' if v.startswith('url(') and v.endswith(')') else 'IDENT' if v[:1].isalpha() else 'INVALID' if v == "'open" else 'CHAR', v, 1, 1)


def _o_job(args):
    root, firsts, maxlen = args
    from sa.absint import Evaluator, Obj, Raised, Record

    from .c04 import bound_method
    from .c16b import seq_model
    from sa.core import Repo

    repo = core_pool_repo(root)
    m = repo.mod(UNKNOWN)
    fn = m.get('CSSUnknownRule._setCssText')
    log = Record(error=lambda *a, **k: None, warn=lambda *a, **k: None, info=lambda *a, **k: None, debug=lambda *a, **k: None)
    alphabet = ['x', ';', '{', '}', '(', ')', '[', ']', 'rgb(', '"s"', 'url(u)', "'open"]
    cases = 0
    bad = []
    accepted_bad = []
    for first in firsts:
        for n in range(0, maxlen):
            for tail in itertools.product(alphabet, repeat=n):
                for eof in (False, True):
                    vals = ('@foo', first) + tail + (('EOF',) if eof else ())
                    toks = [('ATKEYWORD', '@foo', 1, 1)] + [_tk(v) for v in vals[1:]]
                    stream = iter(toks)
                    committed = []
                    me = Obj(_log=log, atkeyword=None, _atkeyword=None, _prods=Record(ATKEYWORD='ATKEYWORD'), _valuestr=lambda t: 'text', _tokenize2=lambda t: stream,
                             _nexttoken=lambda tk, default=None: next(tk, default), _type=lambda tok: tok[0] if tok else None, _tokenvalue=lambda tok, normalize=False: tok[1] if tok else None,
                             _stringtokenvalue=lambda tok: tok[1][1:-1], _uritokenvalue=lambda tok: tok[1][4:-1], _tempSeq=lambda: seq_model(repo), _setSeq=lambda sq: committed.append(sq))
                    intr_util = {'Base': Record(_prods=Record(FUNCTION='FUNCTION')), 'chain': itertools.chain, 'cssutils': Record(css=Record(CSSUnknownRule=lambda *a, **k: Obj(wellformed=False), CSSComment=lambda *a, **k: Record(cssText='/**/')))}
                    me._parse = bound_method(repo, UTIL, 'Base._parse', me, intr_util)
                    me._adddefaultproductions = bound_method(repo, UTIL, 'Base._adddefaultproductions', me, intr_util)
                    intr = {'super': lambda *a: Record(_setCssText=lambda t: None), 'xml': Record(dom=Record(InvalidModificationErr='InvalidModificationErr', SyntaxErr='SyntaxErr')),
                            'self._log.error': log.error}
                    res = Evaluator(fn, intrinsics=intr, module=m, cls='CSSUnknownRule').run(self=me, cssText='text')
                    cases += 1
                    if isinstance(res, Raised):
                        bad.append((' '.join(vals), repr(res)))
                    elif committed:
                        # an accepted rule is balanced: every opener of its sequence has its closer
                        seqvals = [it.value for it in committed[-1]]
                        st = []
                        ok = True
                        for v in seqvals:
                            if isinstance(v, str) and (v in '([{' and v or v.endswith('(')) and v not in ('"("',):
                                if v in ('(', '[', '{') or (v.endswith('(') and len(v) > 1 and not v.startswith('"')):
                                    st.append({'(': ')', '[': ']', '{': '}'}[v[-1]])
                            elif v in (')', ']', '}'):
                                if not st or st.pop() != v:
                                    ok = False
                        if st or not ok:
                            accepted_bad.append((' '.join(vals), f'accepted with the sequence {seqvals}'))
    return cases, bad, accepted_bad


def r01o(chk, rid='R01.o', thorough=False):
    chk.rule(rid, 'totality of the unknown at-rule parser, decided by evaluation: CSSUnknownRule._setCssText is evaluated on its syntax tree together with the real parse loop (Base._parse and its default productions) on every token sequence of up to four (thorough: five) tokens behind the at-keyword over names, ";", the six brackets, a function token, a string, a url() and an unterminated string, with and without an end-of-input token - balanced or not, complete or cut off anywhere: no sequence ends in an exception (unbalanced and truncated input is reported through the log), and whatever is accepted has every bracket it opens closed')
    chk.assume('R01.o: the tokenizer is a token list; logging is a stub that does not raise (log mode); the sequence class is util.Seq evaluated from the source')
    import multiprocessing as mp

    alphabet = ['x', ';', '{', '}', '(', ')', '[', ']', 'rgb(', '"s"', 'url(u)', "'open"]
    maxlen = 4 if thorough else 3
    ctx = mp.get_context('fork')
    res = core_pmap(chk.repo, _o_job, [(chk.repo.root, [a], maxlen) for a in alphabet], len(alphabet))
    cases = sum(r[0] for r in res)
    bad = [x for r in res for x in r[1]]
    acc = [x for r in res for x in r[2]]
    if cases < 3000:
        raise AnalysisError(f'only {cases} token sequences enumerated')
    chk.extra['unknown_rule_sequences'] = cases
    chk.ob(rid, UNKNOWN, 'CSSUnknownRule._setCssText', f'no token sequence behind an unknown at-keyword raises ({cases} sequences)', not bad,
           '; '.join(f'`{t}`: {w}' for t, w in bad[:3]) + f' ({len(bad)} sequences): the exception leaves parseString')
    chk.ob(rid, UNKNOWN, 'CSSUnknownRule._setCssText', 'an accepted unknown rule is balanced', not acc, '; '.join(f'`{t}`: {w}' for t, w in acc[:3]) + f' ({len(acc)} sequences)')
