"""C09 - a stylesheet stays structurally valid under any sequence of DOM edits.

The ordering clause is an inductive invariant; the rules check that the set of
writers of a rule list is closed and that each writer preserves the order and
the parent links."""
from __future__ import annotations

import ast

from sa import cfg as cfgmod
from sa.cfg import ENTRY, EXIT_EXC, EXIT_RET, walk_expr
from sa.core import AnalysisError, call_name, const, resolve_collection, text

SHEET = 'cssutils/css/cssstylesheet.py'
RULE = 'cssutils/css/cssrule.py'
MEDIA = 'cssutils/css/cssmediarule.py'
PAGE = 'cssutils/css/csspagerule.py'

MUTATORS = {'insert', 'append', 'extend', 'pop', 'remove', 'clear', 'sort', 'reverse', '__delitem__', '__setitem__'}


def run(chk):
    chk.attempt(r09a, chk)
    chk.attempt(r09b, chk)
    chk.attempt(r09c, chk)
    chk.attempt(r09d, chk)
    chk.attempt(r09e, chk)
    chk.attempt(r09g, chk)
    chk.attempt(r09h, chk)
    from .c10 import r10e

    chk.attempt(r10e, chk, 'R09.f')


# ---------------------------------------------------------------------------
ALLOWED_WRITERS = {
    (SHEET, 'CSSStyleSheet.__init__'): 'creates the list',
    (SHEET, 'CSSStyleSheet.cssRules'): 'the setter: adopts every rule',
    (SHEET, 'CSSStyleSheet._setCssText'): 'reset branch restores the old list',
    (SHEET, 'CSSStyleSheet.insertRule'): 'position-checked insert',
    (SHEET, 'CSSStyleSheet.deleteRule'): 'detaching delete',
    (RULE, 'CSSRuleRules._setCssRules'): 'the setter: adopts every rule',
    (RULE, 'CSSRuleRules._finishInsertRule'): 'kind-checked insert',
    (RULE, 'CSSRuleRules.deleteRule'): 'detaching delete',
    (MEDIA, 'CSSMediaRule._setCssText'): 'reset branch restores the old list',
}


def rule_list_writes(m):
    """(node, kind, description) for every write to a rule list in module m."""
    out = []
    for n in ast.walk(m.tree):
        if isinstance(n, (ast.Assign, ast.AugAssign, ast.Delete)):
            tgts = n.targets if not isinstance(n, ast.AugAssign) else [n.target]
            for t in tgts:
                for x in ([t] + (list(t.elts) if isinstance(t, ast.Tuple) else [])):
                    if isinstance(x, ast.Attribute) and x.attr == '_cssRules':
                        out.append((n, 'raw', text(n)))
                    elif isinstance(x, ast.Subscript) and isinstance(x.value, ast.Attribute) and x.value.attr in ('_cssRules', 'cssRules'):
                        out.append((n, 'raw' if x.value.attr == '_cssRules' else 'public-item', text(n)))
        elif isinstance(n, ast.Call) and isinstance(n.func, ast.Attribute) and n.func.attr in MUTATORS:
            recv = n.func.value
            if isinstance(recv, ast.Attribute) and recv.attr == '_cssRules':
                out.append((n, 'raw', text(n)))
            elif isinstance(recv, ast.Attribute) and recv.attr == 'cssRules' and n.func.attr not in ('append', 'extend'):
                # append/extend of a list installed by a setter are rebound to insertRule
                out.append((n, 'public-mutator', text(n)))
    # the same through a local alias: `rules = self._cssRules` / `self.cssRules`, then `del rules[i]`,
    # `rules[i] = x`, `rules.pop()` ...
    for q, fn in m.functions():
        alias = {}
        for st in ast.walk(fn):
            if isinstance(st, ast.Assign) and isinstance(st.value, ast.Attribute) and st.value.attr in ('_cssRules', 'cssRules') and m.enclosing_def(st) is fn:
                for t in st.targets:
                    if isinstance(t, ast.Name):
                        alias[t.id] = st.value.attr
        if not alias:
            continue
        rebound = {t.id for st in ast.walk(fn) if isinstance(st, ast.Assign) for t in st.targets if isinstance(t, ast.Name) and t.id in alias
                   and not (isinstance(st.value, ast.Attribute) and st.value.attr in ('_cssRules', 'cssRules'))}
        for n in ast.walk(fn):
            if m.enclosing_def(n) is not fn:
                continue
            if isinstance(n, (ast.Assign, ast.AugAssign, ast.Delete)):
                for t in (n.targets if not isinstance(n, ast.AugAssign) else [n.target]):
                    if isinstance(t, ast.Subscript) and isinstance(t.value, ast.Name) and t.value.id in alias and t.value.id not in rebound:
                        out.append((n, 'raw-alias', f'{text(n)} (with {t.value.id} = self.{alias[t.value.id]})'))
            elif isinstance(n, ast.Call) and isinstance(n.func, ast.Attribute) and n.func.attr in MUTATORS and isinstance(n.func.value, ast.Name) and n.func.value.id in alias and n.func.value.id not in rebound:
                if not (alias[n.func.value.id] == 'cssRules' and n.func.attr in ('append', 'extend')):
                    out.append((n, 'raw-alias', f'{text(n)} (with {n.func.value.id} = self.{alias[n.func.value.id]})'))
    return out


def r09a(chk, rid='R09.a'):
    chk.rule(rid, 'closed writer set: raw stores / in-place mutation of a rule list (`_cssRules`, item stores or list mutators on `cssRules`) occur only in the insert/delete/setter functions enumerated in the checker; any other writer bypasses the position and parent-link checks')
    n = 0
    for rel, m in chk.repo.modules.items():
        if rel in ('cssutils/sac.py', 'cssutils/css/cssvalue.py'):
            continue
        for node, kind, desc in rule_list_writes(m):
            q = m.qualname_of(node)
            ok = (rel, q) in ALLOWED_WRITERS
            n += 1
            chk.ob(rid, rel, q, desc, ok, ALLOWED_WRITERS.get((rel, q), 'writes a rule list outside the guarded mutators: order and parent links are not checked here'))
    if n < 12:
        raise AnalysisError(f'only {n} rule-list writes found (>= 12 confirmed by hand)')


# ---------------------------------------------------------------------------
RANK = {'CHARSET_RULE': 0, 'IMPORT_RULE': 1, 'NAMESPACE_RULE': 2}
BODY = {'STYLE_RULE', 'MEDIA_RULE', 'PAGE_RULE', 'FONT_FACE_RULE'}
FREE = {'COMMENT', 'UNKNOWN_RULE'}


def _kinds(node):
    """Rule kinds named in `r.type in (r.A, r.B)` / `r.type == r.A`."""
    out = set()
    for x in ast.walk(node):
        if isinstance(x, ast.Attribute) and x.attr.endswith('_RULE') or isinstance(x, ast.Attribute) and x.attr == 'COMMENT':
            out.add(x.attr)
    return out


def _branch_kind(test):
    """Which rule kinds a top-level branch of insertRule handles."""
    t = text(test)
    if 'rule.type' not in t:
        return None
    ks = set()
    for x in ast.walk(test):
        if isinstance(x, ast.Attribute) and isinstance(x.value, ast.Name) and x.value.id == 'rule' and (x.attr.endswith('_RULE') or x.attr == 'COMMENT'):
            ks.add(x.attr)
    return frozenset(ks)


def insert_tables(fn):
    """Extract, per handled kind, the scans of CSSStyleSheet.insertRule."""
    chain = None
    for st in fn.body:
        if isinstance(st, ast.If) and _branch_kind(st.test) == frozenset({'CHARSET_RULE'}):
            chain = st
    if chain is None:
        raise AnalysisError('insertRule: hierarchy chain `if rule.type == rule.CHARSET_RULE` not found')
    branches = {}
    cur = chain
    while True:
        k = _branch_kind(cur.test)
        if k is None:
            raise AnalysisError(f'insertRule: branch test not recognised: {text(cur.test)}')
        branches[k] = (cur.test, cur.body)
        if len(cur.orelse) == 1 and isinstance(cur.orelse[0], ast.If) and _branch_kind(cur.orelse[0].test) is not None:
            cur = cur.orelse[0]
        else:
            branches['else'] = (None, cur.orelse)
            break
    tables = {}
    for k, (test, body) in branches.items():
        tab = {'after': set(), 'before': set(), 'stop': set(), 'loops': []}
        for n in ast.walk(ast.Module(body=body, type_ignores=[])):
            if isinstance(n, ast.For):
                it = text(n.iter)
                kinds = set()
                has_return = any(isinstance(x, ast.Return) for x in ast.walk(n))
                sets_index = any(isinstance(x, ast.Assign) and text(x.targets[0]) == 'index' for x in ast.walk(n))
                for x in ast.walk(n):
                    if isinstance(x, ast.If):
                        kinds |= {a.attr for a in ast.walk(x.test) if isinstance(a, ast.Attribute) and isinstance(a.value, ast.Name) and a.value.id == 'r' and (a.attr.endswith('_RULE') or a.attr == 'COMMENT')}
                if it == 'self._cssRules[index:]' and has_return:
                    tab['after'] |= kinds
                elif it == 'self._cssRules[:index]' and has_return:
                    tab['before'] |= kinds
                elif it == 'enumerate(self._cssRules)' and sets_index:
                    tab['stop'] |= kinds
                    tab['has_stop'] = True
                tab['loops'].append(it)
        tables[k] = tab
    return branches, tables


def r09b(chk, rid='R09.b'):
    chk.rule(rid, 'insertRule position tables: per rule kind the must-not-follow / must-not-precede scans cover all lower / higher ranks of the order charset < import < namespace < {style, media, page, font-face}; an ordered-add scan may stop only at kinds that can never precede a lower rank (and must stop at every body kind)')
    fn = chk.repo.fn(SHEET, 'CSSStyleSheet.insertRule')
    branches, tables = insert_tables(fn)
    need = [frozenset({'CHARSET_RULE'}), frozenset({'IMPORT_RULE'}), frozenset({'NAMESPACE_RULE'}), 'else']
    for k in need:
        if k not in tables:
            raise AnalysisError(f'insertRule: branch for {k} not found')
    q = 'CSSStyleSheet.insertRule'
    imp = tables[frozenset({'IMPORT_RULE'})]
    want = {'NAMESPACE_RULE'} | BODY
    chk.ob(rid, SHEET, q, '@import: rejected after any of namespace/style/media/page/font-face', want <= imp['before'],
           f'kinds not scanned before the index: {sorted(want - imp["before"])}')
    ns = tables[frozenset({'NAMESPACE_RULE'})]
    chk.ob(rid, SHEET, q, '@namespace: rejected before any later @charset/@import', {'CHARSET_RULE', 'IMPORT_RULE'} <= ns['after'],
           f'kinds not scanned after the index: {sorted({"CHARSET_RULE", "IMPORT_RULE"} - ns["after"])}')
    chk.ob(rid, SHEET, q, '@namespace: rejected after any of style/media/page/font-face', BODY <= ns['before'],
           f'kinds not scanned before the index: {sorted(BODY - ns["before"])}')
    bad = ns['stop'] & (FREE | set(RANK))
    chk.ob(rid, SHEET, q, '@namespace ordered add: the scan stops only at kinds that cannot precede @import/@charset', not bad,
           f'stops at {sorted(bad)}, which may precede an @import: the namespace rule is placed before it')
    chk.ob(rid, SHEET, q, '@namespace ordered add: the scan stops at every body kind', BODY <= ns['stop'],
           f'does not stop at {sorted(BODY - ns["stop"])}: the rule is appended after them')
    other = tables['else']
    want = {'CHARSET_RULE', 'IMPORT_RULE', 'NAMESPACE_RULE'}
    chk.ob(rid, SHEET, q, 'style/media/page/font-face: rejected before any later @charset/@import/@namespace', want <= other['after'],
           f'kinds not scanned after the index: {sorted(want - other["after"])}')
    chk.ob(rid, SHEET, q, 'style/media/page/font-face: the scan covers the whole tail `self._cssRules[index:]`',
           'self._cssRules[index:]' in other['loops'], f'loops: {other["loops"]}')
    # variables (outside the property's order, but must not break it either)
    vk = frozenset({'VARIABLES_RULE'})
    if vk in tables:
        v = tables[vk]
        bad = v['stop'] & (FREE | set(RANK))
        chk.ob(rid, SHEET, q, '@variables ordered add: the scan stops only at kinds that cannot precede @import/@namespace', not bad,
               f'stops at {sorted(bad)}, which may precede an @import or @namespace')
        chk.ob(rid, SHEET, q, '@variables: rejected before any later @charset/@import/@namespace', want <= v['after'], f'{sorted(want - v["after"])}')
    # @charset only first and only once, comments/unknown rules not in front of it, and the index range
    # are decided by evaluation in R09.g


# ---------------------------------------------------------------------------
LEVELS = {
    'charsetrule': (0, {1}),
    'importrule': (1, {1}),
    'namespacerule': (2, {2}),
    'variablesrule': (2, {2}),
    'fontfacerule': (None, {3}),
    'mediarule': (None, {3}),
    'pagerule': (None, {3}),
    'ruleset': (None, {3}),
}
FREE_CBS = ('S', 'COMMENT', 'unknownrule')


def r09c(chk, rid='R09.c'):
    chk.rule(rid, 'parse-time ordering levels, decided by evaluation: CSSStyleSheet._setCssText is evaluated on its syntax tree up to its call of _parse (rule classes, tokenizer and insertRule are model stubs); there every production callback of the dispatch table - resolved from the source, whatever it is called - is run for each level 0..3 and each kind of statement token: @charset is accepted at level 0 only, @import up to 1, @namespace and @variables up to 2, body rules always; an accepted rule sets the level to its rank, a rejected one and every comment, white space, unknown or misplaced margin at-rule leaves it where it is (at least 1); a refused @namespace leaves an existing binding of its prefix alone; parsing starts at level 0')
    chk.assume('R09.c: rule classes, the tokenizer and insertRule are stubs; every rule parses as well-formed (an ill-formed statement is consumed and dropped by the same callbacks: R04.b)')
    from sa.absint import Evaluator, Obj, Raised, Record

    m = chk.repo.mod(SHEET)
    fn = m.get('CSSStyleSheet._setCssText')
    inserted = []
    logged = []
    results = []
    problems = []

    state = {'wellformed': True}
    consumed = []

    from .effects import Effects

    eff = Effects.get(chk.repo)

    def signature(kind):
        for ci in eff.classes.get(kind, []):
            if ci.rel.startswith('cssutils/css/'):
                init = eff.mro_lookup(ci, '__init__')
                if init is not None:
                    return [a.arg for a in init.args.args][1:]
        return None

    def mkrule(kind):
        params = signature(kind)

        class R(Obj):
            margins = ('@top-left', '@bottom-center')

            def __init__(self, *a, **k):
                # the model keeps the real constructor's parameter names: a slice of tokens must be bound to the text
                if params is not None:
                    bound = dict(zip(params, a))
                    if len(a) > len(params) or any(x not in params for x in k):
                        problems.append(f'{kind}({len(a)} positional, {sorted(k)}) does not fit its constructor ({params}): TypeError out of the parser')
                    bound.update(k)
                    for pn, v in bound.items():
                        if v == ['tokens'] and 'text' not in pn.lower():
                            problems.append(f'{kind}: the tokens of the statement are handed to the parameter `{pn}` (constructor {params}): the constructor does not parse them as rule text and fails on the list')
                Obj.__init__(self, kind=kind, wellformed=state['wellformed'] or kind == 'CSSComment', prefix='p', namespaceURI='u', NAMESPACE_RULE=10, cssText=None)
        return R

    css = Record(**{n: mkrule(n) for n in ('CSSComment', 'CSSCharsetRule', 'CSSImportRule', 'CSSNamespaceRule', 'CSSVariablesRule', 'CSSFontFaceRule', 'CSSMediaRule', 'CSSPageRule', 'MarginRule', 'CSSUnknownRule', 'CSSStyleRule')},
                 CSSRuleList=lambda *a: [])
    SPEC = {  # token type -> (highest level at which the statement is accepted, level after acceptance)
        'CHARSET_SYM': (0, 1), 'IMPORT_SYM': (1, 1), 'NAMESPACE_SYM': (2, 2), 'VARIABLES_SYM': (2, 2),
        'FONT_FACE_SYM': (3, 3), 'PAGE_SYM': (3, 3), 'MEDIA_SYM': (3, 3), 'IDENT': (3, 3),
    }
    NEUTRAL = {'S': None, 'CDO': None, 'CDC': None, 'COMMENT': 'CSSComment', 'ATKEYWORD': None}

    def driver(expected, seq, tokenizer, productions, default=None, **kw):
        results.append(('start', expected))
        table = dict(productions)
        cases = [(t, t) for t in list(SPEC) + ['S', 'CDO', 'CDC', 'COMMENT']] + [('ATKEYWORD', '@foo'), ('ATKEYWORD', '@TOP-LEFT')]
        for ttype, val in cases:
            cb = table.get(ttype, default)
            if cb is None:
                results.append((ttype, val, None, 'no callback'))
                continue
            for level in (0, 1, 2, 3):
                del inserted[:]
                del consumed[:]
                tok = (ttype, val, 1, 1)
                new = cb(level, seq, tok, tokenizer)
                results.append((ttype, val, level, new, [r.kind for r in inserted]))
                # consume always: one slice of the statement, from this token, with the default end
                if ttype not in ('S', 'CDO', 'CDC', 'COMMENT') and consumed != [((tokenizer, tok), {})]:
                    problems.append(f'{ttype} {val} at level {level}: the statement is consumed by {len(consumed)} slice(s) {[(a[1:], k) for a, k in consumed][:2]} instead of one _tokensupto2(tokenizer, token)')
                # insert only if well-formed
                state['wellformed'] = False
                del inserted[:]
                cb(level, seq, tok, tokenizer)
                state['wellformed'] = True
                if [r.kind for r in inserted if r.kind != 'CSSComment']:
                    problems.append(f'{ttype} {val} at level {level}: a rule that failed to parse is inserted')
        # a prefix that is already declared: re-declared in place while @namespace is allowed, left alone when the statement is refused
        cb = table.get('NAMESPACE_SYM', default)
        for level in (0, 1, 2, 3):
            touched = []
            existing = Obj(kind='CSSNamespaceRule', prefix='p', namespaceURI='old', _replaceNamespaceURI=lambda u: touched.append(u))
            me.namespaces = {'p': 'old'}
            me._namespaces = me.namespaces
            me.cssRules = Record(rulesOfType=lambda t: [existing])
            me._cssRules = [existing]
            del inserted[:]
            new = cb(level, seq, ('NAMESPACE_SYM', '@namespace', 1, 1), tokenizer)
            bound = me._namespaces.get('p')
            if level <= 2:
                if bound != 'u' or not (touched == ['u'] or inserted):
                    problems.append(f'@namespace for a declared prefix at level {level}: the prefix is bound to {bound!r}, replaced {touched}, inserted {len(inserted)}')
            elif touched or inserted or bound != 'old' or new != level:
                problems.append(f'a misplaced @namespace for a declared prefix (level {level}) re-binds it: prefix bound to {bound!r}, existing rule changed to {touched}, inserted {len(inserted)}, level {new} - the refused statement changes the meaning of the selectors in front of it')
            me.namespaces, me._namespaces, me._cssRules = {}, {}, []
        return True, 3

    me = Obj(_checkReadonly=lambda: None, _splitNamespacesOff=lambda t: (t, {}), _tokenize2=lambda t: 'TOKENIZER', _cssRules=[], _namespaces={}, namespaces={},
             _tokenvalue=lambda tok, normalize=False: tok[1].lower() if normalize else tok[1], _tokensupto2=lambda *a, **k: (consumed.append((a, k)), ['tokens'])[1],
             insertRule=lambda r, *a, **k: inserted.append(r), _updateVariables=lambda: None, _cleanNamespaces=lambda: None,
             _log=Record(error=lambda *a, **k: logged.append('error'), warn=lambda *a, **k: None, info=lambda *a, **k: None), _variables=None)
    intr = {'cssutils': Record(css=css), 'xml': Record(dom=Record(HierarchyRequestErr='HierarchyRequestErr')), 'self._parse': driver, 'CSSVariablesDeclaration': lambda *a, **k: 'vars',
            '_Namespaces': lambda *a, **k: {}, 'self._log.error': me._log.error, 'self._log.warn': me._log.warn}
    res = Evaluator(fn, intrinsics=intr, module=m, cls='CSSStyleSheet').run(self=me, cssText='text')
    if isinstance(res, Raised):
        raise AnalysisError(f'CSSStyleSheet._setCssText: evaluation ends in {res!r}')
    if not results or results[0] != ('start', 0):
        chk.ob(rid, SHEET, 'CSSStyleSheet._setCssText', 'parsing starts at level 0', False, f'{results[:1]}')
    else:
        chk.ob(rid, SHEET, 'CSSStyleSheet._setCssText', 'parsing starts at level 0', True)
    n = 0
    for r in results[1:]:
        ttype, val, level, new = r[0], r[1], r[2], r[3]
        if level is None:
            chk.ob(rid, SHEET, 'CSSStyleSheet._setCssText', f'{ttype} has a callback', False, 'statements of this kind fall to the unexpected-token error')
            continue
        kinds = r[4]
        n += 1
        label = f"{ttype}{'' if val == ttype else ' ' + val} at level {level}"
        if ttype in SPEC:
            upto, rank = SPEC[ttype]
            if level <= upto:
                ok = bool(kinds) and new == rank
                why = f'accepted={bool(kinds)}, level becomes {new!r}; prescribed: accepted, level {rank}'
            else:
                ok = not kinds and new == level
                why = f'accepted={bool(kinds)}, level becomes {new!r}; prescribed: rejected, level stays {level} (only the misplaced statement is dropped)'
        else:
            want = max(1, level)
            ok = new == want and (NEUTRAL[ttype] is None or kinds == [NEUTRAL[ttype]])
            why = f'level becomes {new!r}, inserted {kinds}; prescribed: level {want} - a comment, white space, unknown or misplaced at-rule must not move the sheet into another section'
        if not ok or (level == 0 and val == ttype):
            chk.ob(rid, SHEET, 'CSSStyleSheet._setCssText', label + ': ' + ('accepted' if ttype in SPEC and level <= SPEC[ttype][0] else 'rejected' if ttype in SPEC else 'level-neutral'), ok, why)
    chk.ob(rid, SHEET, 'CSSStyleSheet._setCssText', 'every statement callback consumes its statement with one default slice starting at its token, and inserts only a rule that parsed', not problems, ' | '.join(problems[:3]))
    if n < 50:
        raise AnalysisError(f'only {n} callback/level cases evaluated')
    chk.extra['parse_level_cases'] = n


# ---------------------------------------------------------------------------


def _is_insert_of(call, var):
    return (
        isinstance(call.func, ast.Attribute)
        and call.func.attr in ('insert', 'append')
        and text(call.func.value).endswith('_cssRules')
        and any(text(a) == var for a in call.args)
    )


def r09d(chk, rid='R09.d'):
    chk.rule(rid, 'parent links mirror containment: in CSSStyleSheet.insertRule the parent link is set on exactly the paths that put the rule into the list (normal and exceptional exits); deleteRule detaches what it removes; the rule-list setters adopt every rule; _finishInsertRule links before inserting')
    fn = chk.repo.fn(SHEET, 'CSSStyleSheet.insertRule')
    from .effects import Effects

    eff = Effects.get(chk.repo)
    g = cfgmod.CFG(fn, may_raise=lambda n: eff.node_may_raise(SHEET, 'CSSStyleSheet', n))
    ins = [n for n in g.nodes if any(_is_insert_of(c, 'rule') for c in cfgmod.calls_at(n))]
    par = [n for n in g.nodes if n.kind == 'stmt' and isinstance(n.stmt, ast.Assign) and text(n.stmt.targets[0]) == 'rule._parentStyleSheet' and text(n.stmt.value) == 'self']
    if len(ins) < 5 or len(par) < 1:
        raise AnalysisError(f'insertRule: {len(ins)} insert sites / {len(par)} parent assignments (>=5 / >=1 expected)')
    is_ins = lambda n: n in ins  # noqa: E731
    pids = {n.id for n in par}
    is_par = lambda n: n.id in pids  # noqa: E731
    m = chk.repo.mod(SHEET)
    branches, _ = insert_tables(fn)
    ifnode = {id(n.stmt): n for n in g.nodes if n.kind == 'if'}

    def branch_name(k):
        return 'other kinds' if k == 'else' else '/'.join(sorted(k))

    def branch_of(stmt):
        """Hierarchy branch a statement of insertRule belongs to."""
        for k, (test, body) in branches.items():
            for b in body:
                if stmt is b or stmt in ast.walk(b):
                    return branch_name(k)
        return 'prologue'

    # (1) per hierarchy branch: the link is reached only through an insert
    last_if = None
    for k, (test, body) in branches.items():
        if test is not None:
            node = ifnode[id(m.parents[test])]
            starts = [(node.id, 'true')]
            last_if = node
        else:
            starts = [(last_if.id, 'false')]
        first = set()
        for sid, lab in starts:
            for t, l2 in g.succ[sid]:
                if l2 == lab:
                    first.add(t)
        seen = {}
        todo = []
        for t in first:
            if not is_ins(g.nodes[t]):
                seen[t] = None
                todo.append(t)
        while todo:
            n = todo.pop()
            for t, _ in g.succ[n]:
                if t not in seen and not is_ins(g.nodes[t]):
                    seen[t] = n
                    todo.append(t)
        hit = [x for x in pids if x in seen]
        ok = not hit
        detail = ''
        if not ok:
            # last condition on the path
            cur, conds = hit[0], []
            while cur is not None:
                nd = g.nodes[cur]
                if nd.kind == 'if':
                    conds.append(text(nd.stmt.test)[:80])
                cur = seen.get(cur)
            detail = ('rule._parentStyleSheet = self is reached although the rule was not put into the list '
                      '(a rule outside the sheet names the sheet as parent); skipped insertion under: ' + ' <- '.join(conds[:2]))
        chk.ob(rid, SHEET, 'CSSStyleSheet.insertRule', f'{branch_name(k)}: parent link only after insertion', ok, detail)
    # (2) every insert is followed by the link on normal exits; nothing may raise in between
    EXEMPT = {
        'self._updateVariables(...)': 're-sets variables that were already parsed and accepted once; setVariable cannot reject them',
    }
    for i in ins:
        bn = branch_of(i.stmt)
        seen = g.reachable([i.id], avoid=is_par)
        ok = EXIT_RET not in seen
        chk.ob(rid, SHEET, 'CSSStyleSheet.insertRule', f'{bn}: `{g.describe(i.id)}` is followed by the parent link on every return', ok,
               '' if ok else 'returns without link: ' + ' -> '.join(g.path(seen, {i.id}, EXIT_RET)[-5:]))
        raising = []
        for nid in seen:
            nd = g.nodes[nid]
            if nd.stmt is not None and any(t == EXIT_EXC for t, _ in g.succ[nid]):
                for d in eff.site_desc(SHEET, nd.stmt) if nd.kind == 'stmt' else []:
                    raising.append(d)
        if not raising:
            chk.ob(rid, SHEET, 'CSSStyleSheet.insertRule', f'{bn}: nothing can raise between insertion and parent link', True)
        for d in sorted(set(raising)):
            if d in EXEMPT:
                chk.ob(rid, SHEET, 'CSSStyleSheet.insertRule', f'{bn}: {d} between insertion and parent link cannot raise', True, EXEMPT[d], trivial=True)
            else:
                chk.ob(rid, SHEET, 'CSSStyleSheet.insertRule', f'{bn}: {d} between insertion and parent link cannot raise', False,
                       'a DOM exception raised here leaves the rule in the list without a parent link')
    # deleteRule detaches: decided by evaluation (sheet level: shared with R15.b; nested lists: here)
    from .c15 import eval_delete_rule

    eval_delete_rule(chk, rid)
    _eval_nested_list_edits(chk, rid)
    # setters adopt
    for rel, q, attr, val in ((SHEET, 'CSSStyleSheet.cssRules', '_parentStyleSheet', 'self'), (RULE, 'CSSRuleRules._setCssRules', '_parentRule', 'self')):
        m = chk.repo.mod(rel)
        f = m.index()[q][-1]
        ok = any(isinstance(x, ast.For) and any(isinstance(s, ast.Assign) and text(s.targets[0]) == f'rule.{attr}' and text(s.value) == val for s in x.body) for x in ast.walk(f))
        chk.ob(rid, rel, q, f'every rule of a newly set list gets {attr} = {val}', ok, 'adopted rules keep their old parent')


def _paths_without(g, ins, target):
    """Describe the branch conditions under which ``target`` is reached without
    passing an insert: the last rule.type test on the path."""
    out = set()
    # enumerate simple paths backwards but bounded: use DFS forward avoiding inserts
    avoid = {n.id for n in ins}
    stack = [(ENTRY, None)]
    seen = set()
    while stack:
        n, last = stack.pop()
        if (n, last) in seen:
            continue
        seen.add((n, last))
        node = g.nodes[n]
        if n == target:
            out.add(' / '.join(x for x in (last or ('entry', None)) if x))
            continue
        for t, lab in g.succ[n]:
            if t in avoid:
                continue
            nl = last
            if node.kind == 'if':
                tt = text(node.stmt.test)
                if 'rule.type' in tt:
                    nl = (f'{tt[:60]} is {lab}', None)
                elif 'inOrder' in tt or 'rule.prefix' in tt or '_cssRules[0].type' in tt:
                    nl = ((last or (None, None))[0], f'{tt[:70]} is {lab}')
            stack.append((t, nl))
    return sorted(out)


# ---------------------------------------------------------------------------
DOC_KINDS = {'CSSCharsetRule', 'CSSFontFaceRule', 'CSSImportRule', 'CSSNamespaceRule'}


def denied(m, fn):
    out = set()
    for x in ast.walk(fn):
        if isinstance(x, ast.Call) and call_name(x) == 'isinstance' and len(x.args) == 2 and text(x.args[0]) == 'rule':
            kinds = [x.args[1]] if isinstance(x.args[1], ast.Attribute) else resolve_collection(m, fn, x.args[1])
            if kinds is None and isinstance(x.args[1], ast.Name) and x.args[1].id[:1].isupper():
                kinds = [x.args[1]]  # a class name
            if kinds is None:
                raise AnalysisError(f'{fn.name}: class argument of `{text(x)}` not resolved')
            for k in kinds:
                out.add(text(k).split('.')[-1])
    return out


def r09e(chk, rid='R09.e'):
    chk.rule(rid, 'nested rule lists deny the document-level kinds: both insertRule overrides reject charset/import/namespace/font-face; @media also margin rules; @page also media and page; rejection happens before _finishInsertRule; the parse-time dispatch of @media rejects the same at-keywords')
    for rel, q, extra in ((MEDIA, 'CSSMediaRule.insertRule', {'MarginRule'}), (PAGE, 'CSSPageRule.insertRule', {'CSSPageRule', 'CSSMediaRule'})):
        fn = chk.repo.fn(rel, q)
        d = denied(chk.repo.mod(rel), fn)
        want = DOC_KINDS | extra
        chk.ob(rid, rel, q, f'rejects {sorted(want)}', want <= d, f'not rejected: {sorted(want - d)}')
        g = cfgmod.CFG(fn)
        fin = [n for n in g.nodes if any(call_name(c) == 'self._finishInsertRule' for c in cfgmod.calls_at(n))]
        chk.ob(rid, rel, q, 'inserts through _finishInsertRule', len(fin) == 1, f'{len(fin)} calls')
        # the isinstance test must dominate the finishing call with a return on the true branch
        ifs = [n for n in g.nodes if n.kind == 'if' and 'isinstance(rule' in text(n.stmt.test)]
        ok = False
        for i in ifs:
            if any(isinstance(s, ast.Return) for s in i.stmt.body) and fin:
                okp, _ = g.all_paths_pass([ENTRY], lambda n: n is i, targets=[fin[0].id])
                ok = ok or okp
        chk.ob(rid, rel, q, 'the kind test dominates the insertion and returns on rejection', ok, 'a denied kind can reach _finishInsertRule')
        # the object that is tested must be the prepared one: _prepareInsertRule turns rule text into a rule object
        prep = [n for n in g.nodes if any(call_name(c) == 'self._prepareInsertRule' for c in cfgmod.calls_at(n))]
        if len(prep) != 1:
            raise AnalysisError(f'{q}: _prepareInsertRule call not found')
        okp = bool(ifs)
        for i in ifs:
            o, _ = g.all_paths_pass([ENTRY], lambda n: n is prep[0], targets=[i.id])
            okp = okp and o
        chk.ob(rid, rel, q, 'the kind test looks at the rule object _prepareInsertRule returns (rule text is parsed there)', okp,
               'the kind test runs before the argument is prepared: a rule handed over as text is a str at that point and passes every isinstance test, so denied kinds given as text are inserted')
    # parse-time at-keyword deny list in CSSMediaRule._setCssText.atrule
    m = chk.repo.mod(MEDIA)
    f = m.get('CSSMediaRule._setCssText.atrule')
    tup = None
    for x in ast.walk(f):
        if isinstance(x, ast.Compare) and isinstance(x.ops[0], ast.In):
            elts = resolve_collection(m, f, x.comparators[0])
            if elts is None:
                continue
            vals = [const(e) for e in elts]
            if vals and all(isinstance(v, str) for v in vals) and any(v.startswith('@') for v in vals):
                tup = set(vals)
    if tup is None:
        raise AnalysisError('CSSMediaRule atrule: deny tuple not found')
    want = {'@charset ', '@font-face', '@import', '@namespace'}
    chk.ob(rid, MEDIA, 'CSSMediaRule._setCssText.atrule', f'parse-time deny list contains {sorted(want)}', want <= tup, f'missing {sorted(want - tup)}')


# ---------------------------------------------------------------------------
# R09.g - insertRule evaluated as the inductive step of the ordering invariant
KINDS = {'charset': 2, 'import': 3, 'namespace': 10, 'variables': 1008, 'style': 1, 'media': 4, 'comment': 1001, 'unknown': 0}
TYPE_CONSTS = dict(CHARSET_RULE=2, IMPORT_RULE=3, NAMESPACE_RULE=10, VARIABLES_RULE=1008, STYLE_RULE=1, MEDIA_RULE=4, PAGE_RULE=6, FONT_FACE_RULE=5, COMMENT=1001, UNKNOWN_RULE=0, MARGIN_RULE=1006)
_BODYK = ('style', 'media')


def order_ok(kinds):
    """The ordering clause of the property, strengthened to an inductive invariant: @variables
    ranks with the body rules (the code never lets @import/@namespace follow it, and relies on
    that); comments and unknown rules are not ranked."""
    if kinds.count('charset') > 1 or ('charset' in kinds and kinds[0] != 'charset'):
        return False
    rank = {'import': 1, 'namespace': 2, 'variables': 4, 'style': 4, 'media': 4}
    seen = 0
    for k in kinds:
        r = rank.get(k)
        if r is None:
            continue
        if r < seen:
            return False
        seen = max(seen, r)
    return True


def _insert_case(args):
    fnsrc_rel, start, newkind, index, in_order = args
    from sa.absint import Evaluator, Obj, Raised, Record
    from sa.core import Repo

    global _R09G
    repo, m, fn = _R09G

    class RuleList(list):
        @property
        def length(self):
            return len(self)

    class Sheet(Record):
        def __iter__(self):
            return iter(self._cssRules)

    class CSSRuleListM:
        pass

    def mk(kind, n):
        extra = {}
        if kind == 'namespace':
            extra = dict(prefix=f'p{n}', namespaceURI=f'uri{n}')
        if kind == 'charset':
            extra = dict(encoding=f'enc{n}')
        if kind == 'import':
            extra = dict(hrefFound=True, href='x')
        return Obj(type=KINDS[kind], kind=kind, wellformed=True, _parentStyleSheet=None, **TYPE_CONSTS, **extra)

    errors = []
    rules = RuleList(mk(k, i) for i, k in enumerate(start))
    me = Sheet(_cssRules=rules, _checkReadonly=lambda: None, _log=Record(error=lambda *a, **k: errors.append(k.get('error', 'error'))))
    for r in rules:
        r._parentStyleSheet = me
    me.namespaces = {r.prefix: r.namespaceURI for r in rules if r.kind == 'namespace'}
    from sa.absint import Loose

    me._namespaces = Loose()  # change notifications to the namespace view are no-ops here; a read is an analysis error
    new = mk(newkind, 99)
    intr = {'self._cleanNamespaces': lambda: None, 'self._updateVariables': lambda: None, 'self._log.error': lambda *a, **k: errors.append(k.get('error', 'error')),
            'cssutils.css.CSSRuleList': CSSRuleListM, 'xml': Record(dom=Record(HierarchyRequestErr='HierarchyRequestErr', IndexSizeErr='IndexSizeErr'))}
    ev = Evaluator(fn, intrinsics=intr, model_types=(RuleList,), module=m, cls='CSSStyleSheet')
    res = ev.run(self=me, rule=new, index=index, inOrder=in_order)
    after = [r.kind for r in me._cssRules]
    problems = []
    if isinstance(res, Raised):
        if res.kind != 'IndexSizeErr' or list(after) != list(start):
            problems.append(f'raises {res.kind}')
    if not order_ok(after):
        problems.append(f'the list becomes {after}')
    inlist = any(r is new for r in me._cssRules)
    if inlist != (new._parentStyleSheet is me):
        problems.append('the rule is in the list without naming the sheet as parent' if inlist else 'the rule names the sheet as parent but is not in the list')
    if inlist and errors:
        problems.append('an error is reported although the rule was inserted')
    if not inlist and len(after) != len(start):
        problems.append(f'rules were lost: {after}')
    if index is not None and index > len(start):
        if not (isinstance(res, Raised) and res.kind == 'IndexSizeErr') or inlist:
            problems.append('an index beyond the end is not rejected with IndexSizeErr')
    elif not in_order and inlist and index is not None and not isinstance(res, Raised) and me._cssRules[index] is not new:
        problems.append(f'inserted at another index than {index}')
    for r in me._cssRules:
        if r is not new and r._parentStyleSheet is not me:
            problems.append('another rule lost its parent')
    if in_order and inlist:
        pos = [i for i, r in enumerate(me._cssRules) if r is new][0]
        if any(r.kind == newkind for r in list(me._cssRules)[pos + 1:]):
            problems.append(f'an ordered add puts the rule in front of a rule of its own kind: {after} (rules of one kind keep the order in which they were added)')
    return (start, newkind, index, in_order, problems)


_R09G = None


def r09g(chk, rid='R09.g'):
    chk.rule(rid, 'inductive step of the ordering clause, by evaluation: CSSStyleSheet.insertRule is evaluated on its syntax tree (helpers resolved in the class; namespace clean-up, variable update and logging are model stubs in log mode) from every rule list of up to two rules (thorough tier: three) over eight rule kinds that satisfies the order, for every kind of new rule, every index and ordered add: afterwards the list still satisfies the order, the new rule is in the list iff it names the sheet as parent, nothing else was removed or re-parented, an accepted positional insert lands at the requested index, an ordered add lands behind the rules of its own kind, and an error is reported only when nothing was inserted')
    chk.assume('R09.g: insertRule looks at rules only through their kind, prefix/URI and position; lists of up to two (thorough: three) rules over eight kinds exercise every scan (before the index, after the index, last of its kind, first stop); namespace clean-up, variable update and logging are stubs; log mode')
    import itertools
    import multiprocessing as mp

    global _R09G
    m = chk.repo.mod(SHEET)
    _R09G = (chk.repo, m, m.get('CSSStyleSheet.insertRule'))
    maxlen = 3 if chk.tier == 'thorough' else 2
    jobs = []
    for n in range(maxlen + 1):
        for start in itertools.product(sorted(KINDS), repeat=n):
            if not order_ok(list(start)):
                continue
            for newkind in sorted(KINDS):
                for index in list(range(n + 1)) + [None, n + 1]:
                    for in_order in (False, True):
                        jobs.append((SHEET, start, newkind, index, in_order))
    try:
        ctx = mp.get_context('fork')
        with ctx.Pool(min(12, mp.cpu_count())) as pool:
            results = pool.map(_insert_case, jobs, chunksize=max(1, len(jobs) // 96))
    except Exception as e:  # noqa: BLE001 - nested pools / restricted environments: evaluate in this process
        if isinstance(e, AnalysisError):
            raise
        results = [_insert_case(j) for j in jobs]
    bad = [r for r in results if r[4]]
    chk.extra['insertRule_cases_evaluated'] = len(results)
    seen = set()
    for start, newkind, index, in_order, problems in bad:
        key = (newkind, in_order, problems[0].split(' [')[0][:40])
        if key in seen:
            continue
        seen.add(key)
        chk.ob(rid, SHEET, 'CSSStyleSheet.insertRule', f'insert {newkind} ({"ordered add" if in_order else "positional"}): order and parent links preserved', False,
               f'from {list(start)}, index={index}: ' + '; '.join(problems))
    chk.ob(rid, SHEET, 'CSSStyleSheet.insertRule', f'all {len(results)} (rule list, new rule, index, mode) cases preserve the order and the parent links', not bad, f'{len(bad)} cases fail')



def _eval_nested_list_edits(chk, rid):
    """CSSRuleRules.deleteRule and _finishInsertRule evaluated on their syntax trees over a model list."""
    from sa.absint import Evaluator, Obj, Raised, Record

    m = chk.repo.mod(RULE)

    class RuleM(Obj):
        pass

    class Rules(list):
        @property
        def length(self):
            return len(self)

    def build():
        rs = Rules(RuleM(tag=t) for t in ('a', 'b', 'c'))
        me = Record(_cssRules=rs, cssRules=rs, _checkReadonly=lambda: None, __class__=Record(__name__='CSSMediaRule'))
        for r in rs:
            r._parentRule = me
            r._parentStyleSheet = None
        return me, rs

    intr = {'CSSRule': RuleM, 'xml': Record(dom=Record(IndexSizeErr='IndexSizeErr'))}
    fn = m.get('CSSRuleRules.deleteRule')
    bad = []
    n = 0
    for a in list(range(-4, 4)) + ['obj', 'foreign']:
        me, rs = build()
        arg = rs[1] if a == 'obj' else RuleM(tag='x') if a == 'foreign' else a
        idx = 1 if a == 'obj' else None if a == 'foreign' else (a if -3 <= a < 3 else None)
        victim = rs[idx] if idx is not None else None
        res = Evaluator(fn, intrinsics=intr, model_types=(Rules,), module=m, cls='CSSRuleRules').run(self=me, index=arg)
        n += 1
        tags = [r.tag for r in rs]
        if idx is None:
            ok = isinstance(res, Raised) and res.kind == 'IndexSizeErr' and tags == ['a', 'b', 'c'] and all(r._parentRule is me for r in rs)
        else:
            ok = not isinstance(res, Raised) and victim not in rs and len(rs) == 2 and victim._parentRule is None and all(r._parentRule is me for r in rs)
        if not ok:
            bad.append(f'deleteRule({a!r}): {res!r}, list {tags}, parent of the addressed rule: {getattr(victim, "_parentRule", None) is not None}')
    chk.ob(rid, RULE, 'CSSRuleRules.deleteRule', f'all {n} deletions from a nested list: the addressed rule goes and names no parent rule, an invalid index or a foreign rule is refused and changes nothing', not bad, ' | '.join(bad[:2]))
    fi = m.get('CSSRuleRules._finishInsertRule')
    for index in (0, 1, 3):
        me, rs = build()
        new = RuleM(tag='new', _parentRule=None, _parentStyleSheet='some sheet')
        res = Evaluator(fi, model_types=(Rules,), module=m, cls='CSSRuleRules').run(self=me, rule=new, index=index)
        ok = res == index and rs[index] is new and new._parentRule is me and new._parentStyleSheet is None and len(rs) == 4
        chk.ob(rid, RULE, 'CSSRuleRules._finishInsertRule', f'insert at {index}: the rule lands there, names this rule as parent and has no direct sheet link', ok, f'returns {res!r}, list {[r.tag for r in rs]}, parent set: {new._parentRule is me}, sheet link: {new._parentStyleSheet!r}')


def r09h(chk, rid='R09.h'):
    chk.rule(rid, 'the style sheet link of nested rules, decided by evaluation: rules are put into a container rule by CSSRuleRules._finishInsertRule and adopted by CSSRuleRules._setCssRules (both evaluated from the source on model rules: they set the parent rule and clear the private sheet link); CSSRule._getParentStyleSheet, evaluated on a chain sheet > @media > @media > rule built that way, gives the sheet at every depth, and none for a rule whose container chain does not lead to a sheet')
    from sa.absint import Evaluator, Obj, Raised, Record

    rm = chk.repo.mod(RULE)
    getter = rm.get('CSSRule._getParentStyleSheet')
    sheet = Record(_id='SHEET')

    class R(Obj):
        @property
        def parentRule(self):
            return self._parentRule

        @property
        def parentStyleSheet(self):
            res = Evaluator(getter, module=rm, cls='CSSRule').run(self=self)
            if isinstance(res, Raised):
                raise AnalysisError(f'CSSRule._getParentStyleSheet: {res!r}')
            return res

    def mk(name, ps=None):
        return R(name=name, _parentRule=None, _parentStyleSheet=ps, _cssRules=[], _parent=None)

    for how in ('_finishInsertRule', '_setCssRules'):
        f = rm.get(f'CSSRuleRules.{how}')
        outer, inner, leaf = mk('outer', sheet), mk('inner', sheet), mk('leaf', sheet)
        orphan_outer, orphan_leaf = mk('orphan container'), mk('orphan leaf', sheet)
        for cont, child in ((outer, inner), (inner, leaf), (orphan_outer, orphan_leaf)):
            if how == '_finishInsertRule':
                res = Evaluator(f, module=rm, cls='CSSRuleRules').run(self=cont, rule=child, index=0)
            else:
                class L(list):
                    pass
                cont.insertRule = lambda *a: None
                cont.deleteRule = lambda *a: None
                res = Evaluator(f, module=rm, cls='CSSRuleRules', model_types=(L,)).run(self=cont, cssRules=L([child]))
            if isinstance(res, Raised):
                raise AnalysisError(f'CSSRuleRules.{how}: evaluation ends in {res!r}')
            if child._parentRule is not cont:
                chk.ob(rid, RULE, f'CSSRuleRules.{how}', 'the container becomes the parent rule of the rule it takes', False, f'parent rule of {child.name} is {child._parentRule!r}')
        for r, want in ((outer, sheet), (inner, sheet), (leaf, sheet), (orphan_leaf, None)):
            got = r.parentStyleSheet
            chk.ob(rid, RULE, 'CSSRule._getParentStyleSheet', f'{r.name} (contained through {how}): the style sheet is ' + ('the sheet of the outermost container' if want is not None else 'none - the container chain ends without a sheet'),
                   got is want, f'gives {got!r}: a rule two or more levels deep does not find its sheet (namespaces, variables, base URL) although it is reachable from it')
