#!/venv/bin/python
"""Dev / thorough-tier tool: run the checks against every seeded change under
/verif/seeded/<name>/ (patch.diff + meta.json) on a scratch worktree and report
which checks catch which change.
  seeds.py add <name> <srcdir> <property> [base-commit]   import a verified seed
  seeds.py run [name...]                                  run all checks on each seed
"""
import json, os, shutil, subprocess, sys, tempfile
from pathlib import Path

V = Path(__file__).resolve().parent.parent; S = V / 'seeded'
ALL = [f'C{i:02d}' for i in range(1, 21)]

def sh(cmd, **kw):
    return subprocess.run(cmd, shell=True, text=True, capture_output=True, **kw)

def head():
    return sh('git -C /repo rev-parse --short HEAD').stdout.strip()

_DIGEST = None


def rules_digest():
    """Digest of the checking machinery: results on an unchanged base tree are reused while it is the same."""
    global _DIGEST
    if _DIGEST is None:
        import hashlib
        h = hashlib.sha1()
        for f in sorted(list((V / 'rules').glob('*.py')) + list((V / 'sa').glob('*.py')) + [V / 'known_findings.json']):
            h.update(f.read_bytes())
        _DIGEST = h.hexdigest()[:12]
    return _DIGEST


def check_keys(pid, t, w):
    """Run one check on tree t; return (set of failing keys incl. known ones, rc, stdout)."""
    e = dict(os.environ, VERIF_REPO=str(t), VERIF_EVIDENCE_DIR=str(w / 'ev'), VERIF_OUT_DIR=str(w / 'out'))
    (w / 'ev').mkdir(exist_ok=True)
    ev = w / 'ev' / f'{pid}.json'
    if ev.exists():
        ev.unlink()
    r = subprocess.run(['./check', pid], cwd=V, env=e, capture_output=True, text=True)
    keys = set()
    if ev.exists():
        c = json.loads(ev.read_text())['coverage']
        keys = set(c.get('new_violations', [])) | set(c.get('known_findings_matched', []))
    return keys, r.returncode, r.stdout


def run_one(d, checks=None):
    meta = json.loads((d / 'meta.json').read_text())
    base = meta.get('base') or 'HEAD'
    w = Path(tempfile.mkdtemp(prefix='seed.'))
    t = w / 't'
    r = sh(f'git -C /repo worktree add -q --detach {t} {base}')
    if r.returncode:
        shutil.rmtree(w); return {'error': r.stderr}
    try:
        res = {'base': base}
        shutil.copy(d / 'demo.py', w / 'demo.py')
        env = dict(os.environ, PYTHONPATH=str(t))
        r = subprocess.run(['/venv/bin/python', str(w / 'demo.py')], cwd=t, env=env, capture_output=True, text=True, timeout=600)
        res['demo_clean_exit'] = r.returncode
        base_keys, base_rc = {}, {}
        cache = Path('/tmp/seedcache') / f'{base}-{rules_digest()}.json'
        cached = json.loads(cache.read_text()) if cache.exists() else {}
        for pid in (checks or ALL):
            if (V / 'rules' / f'{pid.lower()}.py').exists():
                if pid in cached:
                    base_keys[pid], base_rc[pid] = set(cached[pid][0]), cached[pid][1]
                else:
                    base_keys[pid], base_rc[pid], _ = check_keys(pid, t, w)
                    cached[pid] = [sorted(base_keys[pid]), base_rc[pid]]
        cache.parent.mkdir(exist_ok=True)
        cache.write_text(json.dumps(cached))
        r = sh(f'git -C {t} apply {d / "patch.diff"}')
        if r.returncode:
            res['error'] = 'patch does not apply: ' + r.stderr[:200]; return res
        try:
            r = subprocess.run(['/venv/bin/python', str(w / 'demo.py')], cwd=t, env=env, capture_output=True, text=True, timeout=600)
            res['demo_patched_exit'] = r.returncode
        except subprocess.TimeoutExpired:
            res['demo_patched_exit'] = 'timeout'
        r = sh(f'/verif/tools/baseline.py {t}')
        res['suite'] = r.stdout.strip().splitlines()[0] if r.stdout else r.stderr[:100]
        caught, errors = {}, {}
        for pid in (checks or ALL):
            if not (V / 'rules' / f'{pid.lower()}.py').exists():
                continue
            keys, rc, out = check_keys(pid, t, w)
            bkeys = base_keys.get(pid, set())
            fresh = sorted(keys - bkeys)
            if fresh:
                caught[pid] = [k[:220] for k in fresh[:4]]
            elif rc == 2 and base_rc.get(pid) != 2:
                errors[pid] = ' '.join(l for l in out.splitlines() if 'ANALYSIS-ERROR' in l or 'SHAPE-MISMATCH' in l)[:300]
        res['caught_by'] = caught
        res['analysis_error_only'] = errors
        return res
    finally:
        sh(f'git -C /repo worktree remove --force {t}')
        shutil.rmtree(w, ignore_errors=True)

def main():
    if sys.argv[1] == 'add':
        name, src, prop = sys.argv[2:5]
        base = sys.argv[5] if len(sys.argv) > 5 else head()
        d = S / name; d.mkdir(parents=True, exist_ok=True)
        for f in ('patch.diff', 'demo.py'):
            shutil.copy(Path(src) / f, d / f)
        notes = (Path(src) / 'notes.md')
        if notes.exists():
            shutil.copy(notes, d / 'notes.md')
        meta = {'property': prop, 'base': base, 'origin': 'independent sub-agent given only the property record and a scratch worktree', 'needs': '', 'ran': ''}
        (d / 'meta.json').write_text(json.dumps(meta, indent=1))
        print('added', d)
    elif sys.argv[1] == 'run':
        names = sys.argv[2:] or sorted(p.name for p in S.iterdir() if (p / 'meta.json').exists())
        from concurrent.futures import ThreadPoolExecutor

        fast = os.environ.get('SEED_FAST') == '1'

        def job(n):
            d = S / n
            try:
                checks = None
                if fast:
                    # regression mode: the seed's own property and the checks that reported it last time;
                    # every check again only if none of them reports it any more
                    meta0 = json.loads((d / 'meta.json').read_text())
                    checks = sorted({meta0['property']} | set((meta0.get('last_run') or {}).get('caught_by', {})))
                res = run_one(d, checks)
                if fast and not res.get('caught_by') and 'error' not in res:
                    res = run_one(d)
            except Exception as e:  # keep going
                res = {'error': repr(e)}
            meta = json.loads((d / 'meta.json').read_text())
            meta['last_run'] = res
            (d / 'meta.json').write_text(json.dumps(meta, indent=1))
            c = res.get('caught_by', {})
            return f"{n:14s} prop={meta['property']} demo {res.get('demo_clean_exit')}->{res.get('demo_patched_exit')} suite[{res.get('suite','')[-22:]}] reported_by={sorted(c) or '-'} error_only={sorted(res.get('analysis_error_only', {})) or '-'} {res.get('error','')}"

        with ThreadPoolExecutor(max_workers=int(os.environ.get('SEED_JOBS', '6'))) as ex:
            for line in ex.map(job, names):
                print(line, flush=True)


main()
