"""C16 - selector specificity, structure and list semantics."""
from __future__ import annotations

import ast

from sa import cfg as cfgmod
from sa.cfg import ENTRY, EXIT_RET
from sa.core import AnalysisError, call_name, const, text

from .c01 import returns_state
from .callbacks import new_productions

SEL = 'cssutils/css/selector.py'
SELLIST = 'cssutils/css/selectorlist.py'
SER = 'cssutils/serialize.py'


def run(chk):
    chk.attempt(r16a, chk)
    chk.attempt(r16b, chk)
    chk.attempt(r16c, chk)
    chk.attempt(r16d, chk)
    chk.attempt(r16e, chk)
    chk.attempt(r16f, chk)
    chk.attempt(r16g, chk)
    from .c16b import r16h

    chk.attempt(r16h, chk, thorough=chk.tier == 'thorough')
    from .c16b import r16i

    chk.attempt(r16i, chk)


def eval_append(chk, typ, val, context, prefix, namespaces=None):
    """New.append evaluated on its syntax tree for one item: returns (specificity delta, element,
    appended (value, type) or None, wellformed)."""
    from sa.absint import Evaluator, Raised, Record

    m = chk.repo.mod(SEL)
    fn = chk.repo.fn(SEL, 'New.append')

    class NS(dict):
        def __missing__(self, k):
            return None

    out = []
    ns = NS(namespaces if namespaces is not None else {'': 'default-uri', 'p': 'p-uri'})
    me = Record(context=[context], _PREFIX=prefix, namespaces=ns, specificity=[0, 0, 0, 0], element=None, wellformed=True,
                _log=Record(error=lambda *a, **k: None))
    seq = Record(append=lambda v, t=None, line=None, col=None: out.append((v, t)))
    intr = {'cssutils': Record(_ANYNS='ANY-NS'), 'xml': Record(dom=Record(NamespaceErr='NamespaceErr')), 'self._log.error': lambda *a, **k: None}
    res = Evaluator(fn, intrinsics=intr, module=m, cls='New').run(self=me, seq=seq, val=val, typ=typ, token=('T', val, 1, 1))
    if isinstance(res, Raised):
        return res
    return tuple(me.specificity), me.element, (out[0] if out else None), me.wellformed


def r16a(chk, rid='R16.a'):
    chk.rule(rid, 'specificity and namespace resolution decided by evaluation: New.append (with the helpers and class constants it uses) is evaluated on its syntax tree for every item type the selector handlers produce, in the root context, inside :not(), inside an attribute selector and inside a functional pseudo, with and without a pending namespace prefix: id -> b; class and the attribute-start item -> c; type selector, type selector inside :not() and pseudo-element -> d; nothing else counts and nothing counts outside root/:not(); namespaced names are stored as (namespaceURI, name) with the URI their prefix denotes; the element is the root-context type or universal selector; _pseudo retypes the four CSS2 one-colon pseudo-elements')
    chk.assume("R16.a: New.append looks at an item only through its type string, its value ('[' or a name), the current context and the pending prefix: the enumerated combinations are its whole decision space")
    from sa.absint import Raised

    types = sorted({t for t in produced_types(chk.repo) if not t.startswith('_')} | {
        # types that reach append through a variable (token types, the _names tables, _pseudo)
        'pseudo-class', 'pseudo-element', 'string', 'ident', 'number', 'dimension', 'char', 'child', 'adjacent-sibling', 'following-sibling',
        'includes', 'dash-match', 'prefix-match', 'suffix-match', 'substring-match', 'plus', 'minus'})
    if len(types) < 12:
        raise AnalysisError(f'only {len(types)} item types produced by the selector handlers')
    chk.extra['selector_item_types'] = types
    want_spec = {'id': 1, 'class': 2, 'type-selector': 3, 'negation-type-selector': 3, 'pseudo-element': 3}
    n = 0
    bad = []
    for typ in types:
        for context in ('', 'negation', 'attrib', 'pseudo-nth-child'):
            for prefix in (None, 'p', '', '*', 'unknown'):
                for val in (('x', '[') if typ in ('attribute-start', 'CHAR') or typ.endswith('start') else ('x',)) + (('*', 'p|*') if typ == 'universal' else ()):
                    got = eval_append(chk, typ, val, context, prefix)
                    n += 1
                    if isinstance(got, Raised):
                        bad.append(f'{typ!r} in context {context!r}: {got!r}')
                        continue
                    spec, element, appended, wf = got
                    eff_prefix = prefix
                    name = val
                    if prefix is None and typ == 'universal' and '|' in val:
                        eff_prefix, name = val.split('|')
                    namespaced = typ in NAMESPACED and not (typ == 'attribute-selector' and not eff_prefix)
                    if namespaced and eff_prefix == 'unknown':
                        if wf or appended is not None:
                            bad.append(f'{typ!r} with an undeclared prefix is accepted')
                        continue
                    want = [0, 0, 0, 0]
                    if context in ('', 'negation'):
                        if typ in want_spec:
                            want[want_spec[typ]] = 1
                        elif val == '[':
                            want[2] = 1
                    if list(spec) != want:
                        bad.append(f'{typ!r} (value {val!r}) in context {context!r} counts {list(spec)}, prescribed {want}')
                    if namespaced:
                        uri = {'*': 'ANY-NS', None: 'default-uri', '': '', 'p': 'p-uri'}[eff_prefix]
                        if appended != ((uri, name), typ):
                            bad.append(f'{typ!r} with prefix {eff_prefix!r} is stored as {appended!r}, prescribed {((uri, name), typ)!r}')
                    elif appended != (val, typ):
                        bad.append(f'{typ!r} is stored as {appended!r}, prescribed {(val, typ)!r}')
                    want_el = appended[0] if (context == '' and typ in ('type-selector', 'universal') and appended) else None
                    if element != want_el:
                        bad.append(f'{typ!r} in context {context!r}: element {element!r}, prescribed {want_el!r}')
    chk.extra['append_cases_evaluated'] = n
    seen = set()
    for b_ in bad:
        k = b_.split(' in context')[0].split(' with prefix')[0]
        if k in seen:
            continue
        seen.add(k)
        chk.ob(rid, SEL, 'New.append', 'item handled as prescribed', False, b_)
    chk.ob(rid, SEL, 'New.append', f'all {n} (item type, context, prefix) cases: specificity, namespace and element as prescribed', not bad, f'{len(bad)} cases differ')
    # initial value and tuple conversion
    cls = chk.repo.cls(SEL, 'New')
    init = [text(s) for s in cls.body if isinstance(s, ast.AnnAssign) and text(s.target) == 'specificity']
    chk.ob(rid, SEL, 'New', 'specificity starts at [0, 0, 0, 0]', any('[0] * 4' in s for s in init), str(init), shape=True)
    # CSS2 pseudo-elements written with one colon
    p = chk.repo.fn(SEL, 'New._pseudo')
    lits = set()
    for n in ast.walk(p):
        if isinstance(n, ast.Compare) and isinstance(n.ops[0], ast.In) and isinstance(n.comparators[0], ast.Tuple):
            lits |= {const(e) for e in n.comparators[0].elts}
    chk.ob(rid, SEL, 'New._pseudo', ':first-line :first-letter :before :after count as pseudo-elements', {':first-line', ':first-letter', ':before', ':after'} <= lits, str(sorted(map(str, lits))))
    # the spelling of a pseudo name does not change its type: _pseudo evaluated for several spellings
    import re as _re

    from sa.absint import Evaluator, Raised, Record

    sm = chk.repo.mod(SEL)

    def norm(x):
        return _re.sub(r'\\([^0-9a-fA-F\n\r\f])', r'\1', x).lower() if x else x

    for spelling, want in ((':first-line', 'pseudo-element'), (':FIRST-LINE', 'pseudo-element'), (':f\\irst-line', 'pseudo-element'), (':Before', 'pseudo-element'), (':AFTER', 'pseudo-element'), (':first-LETTER', 'pseudo-element'),
                           (':hover', 'pseudo-class'), (':HOVER', 'pseudo-class'), ('::SELECTION', 'pseudo-element')):
        appended = []
        me = Record(context=[''], selector=Record(_tokenvalue=lambda tok, normalize=False: norm(tok[1]) if normalize else tok[1], _type=lambda tok: tok[0]))
        me.append = lambda seq, val, typ=None, token=None: appended.append((val, typ))
        # the token as Selector._prepare_tokens (evaluated as well) hands it over: ':' [':'] IDENT combined
        colons = '::' if spelling.startswith('::') else ':'
        raw = [('CHAR', ':', 1, 1)] * len(colons) + [('IDENT', spelling[len(colons):], 1, 1 + len(colons))]
        sel = Record(_tokenvalue=lambda tok, normalize=False: norm(tok[1]) if normalize else tok[1], _type=lambda tok: tok[0], _normalize=norm, _prods=Record(IDENT='IDENT'))
        prepared = Evaluator(sm.get('Selector._prepare_tokens'), module=sm, cls='Selector').run(self=sel, tokenizer=iter(raw))
        prepared = list(prepared) if not isinstance(prepared, Raised) else prepared
        if isinstance(prepared, Raised) or len(prepared) != 1:
            raise AnalysisError(f'Selector._prepare_tokens: {prepared!r} for {spelling!r}')
        res = Evaluator(p, module=sm, cls='New').run(self=me, expected='pseudo negation', seq=[], token=prepared[0])
        ok = not isinstance(res, Raised) and len(appended) == 1 and appended[0][1] == want
        chk.ob(rid, SEL, 'New._pseudo', f'{spelling} is a {want} (by evaluation of _prepare_tokens and _pseudo)', ok, f'appended {appended}, {res!r}: the specificity of a selector would depend on how the name is spelled')


def produced_types(repo):
    """Item type strings the selector handlers hand to New.append."""
    m = repo.mod(SEL)
    out = set()
    for q, fn in m.functions():
        if not q.startswith('New.'):
            continue
        for c in ast.walk(fn):
            if isinstance(c, ast.Call) and call_name(c) == 'self.append' and len(c.args) >= 3:
                t = const(c.args[2])
                if isinstance(t, str):
                    out.add(t)
                elif isinstance(c.args[2], ast.Name):
                    # a local that holds the type: every string constant assigned to it in this handler
                    var = c.args[2].id
                    for st in ast.walk(fn):
                        if isinstance(st, ast.Assign):
                            for tg in st.targets:
                                if isinstance(tg, ast.Name) and tg.id == var:
                                    vals = [st.value] + ([st.value.body, st.value.orelse] if isinstance(st.value, ast.IfExp) else [])
                                    out.update(v.value for v in vals if isinstance(v, ast.Constant) and isinstance(v.value, str))
                                elif isinstance(tg, ast.Tuple) and isinstance(st.value, ast.Tuple) and len(tg.elts) == len(st.value.elts):
                                    for a_, b_ in zip(tg.elts, st.value.elts):
                                        if isinstance(a_, ast.Name) and a_.id == var and isinstance(b_, ast.Constant) and isinstance(b_.value, str):
                                            out.add(b_.value)
    return out


def eval_type_test(expr, var, value):
    """Three-valued evaluation of a condition on the item type for one concrete
    type string: True / False / None (depends on other things)."""
    if isinstance(expr, ast.BoolOp):
        vals = [eval_type_test(v, var, value) for v in expr.values]
        if isinstance(expr.op, ast.And):
            if any(v is False for v in vals):
                return False
            return True if all(v is True for v in vals) else None
        if any(v is True for v in vals):
            return True
        return False if all(v is False for v in vals) else None
    if isinstance(expr, ast.UnaryOp) and isinstance(expr.op, ast.Not):
        v = eval_type_test(expr.operand, var, value)
        return None if v is None else (not v)
    if isinstance(expr, ast.Call) and isinstance(expr.func, ast.Attribute) and text(expr.func.value) == var and expr.func.attr in ('endswith', 'startswith') and expr.args and isinstance(const(expr.args[0]), str):
        return getattr(value, expr.func.attr)(expr.args[0].value)
    if isinstance(expr, ast.Compare) and len(expr.ops) == 1:
        l, r, op = expr.left, expr.comparators[0], expr.ops[0]
        if text(l) == var and isinstance(const(r), str):
            return (value == r.value) if isinstance(op, ast.Eq) else (value != r.value) if isinstance(op, ast.NotEq) else None
        if text(r) == var and isinstance(const(l), str):
            return (value == l.value) if isinstance(op, ast.Eq) else (value != l.value) if isinstance(op, ast.NotEq) else None
        if text(l) == var and isinstance(r, (ast.Tuple, ast.List, ast.Set)) and all(isinstance(const(e), str) for e in r.elts):
            inn = value in {e.value for e in r.elts}
            return inn if isinstance(op, ast.In) else (not inn) if isinstance(op, ast.NotIn) else None
    return None


NAMESPACED = {'type-selector', 'attribute-selector', 'negation-type-selector', 'universal'}


def r16b(chk, rid='R16.b'):
    chk.rule(rid, 'item-type vocabulary agreement: every type string a selector handler produces for a namespaced name (…-selector, universal) is accepted by each consumer that decides on the type - the namespace resolution in New.append and the used-URI scan Selector._getUsedUris (conditions evaluated for each produced type)')
    types = produced_types(chk.repo)
    if not NAMESPACED <= types:
        raise AnalysisError(f'selector handlers no longer produce {sorted(NAMESPACED - types)}')
    chk.extra['selector_item_types'] = sorted(types)
    m = chk.repo.mod(SEL)
    from sa.absint import Evaluator, Raised, Record

    # New.append: every namespaced type is stored as a (namespaceURI, name) value (by evaluation)
    for t in sorted(NAMESPACED):
        got = eval_append(chk, t, 'x', '', 'p')
        ok = not isinstance(got, Raised) and got[2] == (('p-uri', 'x'), t)
        chk.ob(rid, SEL, 'New.append', f'{t!r} gets a (namespaceURI, name) value', ok,
               f'a prefixed name of this type is stored as {got!r}: its prefix is dropped and the name is stored without namespace')
    for t in sorted(types - NAMESPACED):
        if t.startswith('_'):
            continue
        got = eval_append(chk, t, 'x', '', None)
        ok = not isinstance(got, Raised) and got[2] == ('x', t)
        chk.ob(rid, SEL, 'New.append', f'{t!r} is not treated as a namespaced name', ok, f'stored as {got!r}', trivial=True)
    # _getUsedUris evaluated on a sequence holding one namespaced item of every type
    fn = m.get('Selector._getUsedUris')
    for t in sorted(NAMESPACED):
        seq = [Record(type='class', value='.c'), Record(type=t, value=(f'uri-of-{t}', 'x')), Record(type='descendant', value=' ')]
        got = Evaluator(fn, module=m, cls='Selector').run(self=Record(seq=seq))
        ok = not isinstance(got, Raised) and f'uri-of-{t}' in set(got)
        chk.ob(rid, SEL, 'Selector._getUsedUris', f'{t!r} items are scanned for their namespace URI', ok,
               f'the used URIs of a selector with such an item are {got!r}: a namespace used only there counts as unused (its @namespace rule can be deleted or is dropped by keepUsedNamespaceRulesOnly)')
    for uri in (None, '*'):
        got = Evaluator(fn, module=m, cls='Selector').run(self=Record(seq=[Record(type='universal', value=(uri, '*'))]))
        chk.ob(rid, SEL, 'Selector._getUsedUris', f'a universal selector in namespace {uri!r} uses no declared namespace', not isinstance(got, Raised) and uri not in set(got), f'{got!r}', trivial=True)
    # the serializer decides on the value shape, not on the type
    sm = chk.repo.mod(SER)
    fn = sm.get('CSSSerializer.do_css_Selector')
    chk.ob(rid, SER, 'CSSSerializer.do_css_Selector', 'namespaced names are recognised by their tuple value', 'isinstance(val, tuple)' in ast.unparse(fn), 'serialisation would depend on a type list', shape=True)


def r16c(chk, rid='R16.c'):
    chk.rule(rid, 'commit only when well-formed: Selector._setSelectorText stores seq/specificity/element/namespaces only under `if wellformed`, after the last check; SelectorList._setSelectorText replaces its list only under `if wellformed` after the loop; every state-machine handler returns a state on all paths (R01.b instances for the 20 handlers)')
    for rel, q, stores in ((SEL, 'Selector._setSelectorText', ('self._specificity', 'self._element')), (SELLIST, 'SelectorList._setSelectorText', ('self.seq',))):
        fn = chk.repo.fn(rel, q)
        m = chk.repo.mod(rel)
        for target in stores:
            st = [n for n in ast.walk(fn) if isinstance(n, ast.Assign) and any(text(t) == target for t in n.targets)]
            if not st:
                raise AnalysisError(f'{q}: store to {target} not found')
            for s in st:
                par = m.parents.get(s)
                ok = isinstance(par, ast.If) and text(par.test) == 'wellformed' and s in par.body and m.parents.get(par) is fn and fn.body[-1] is par
                chk.ob(rid, rel, q, f'`{text(s)[:50]}` is committed in the final `if wellformed:` block', ok, 'state is replaced although the new text was not accepted (or before the last check)')
        setseq = [c for c in ast.walk(fn) if isinstance(c, ast.Call) and call_name(c) == 'self._setSeq']
        for c in setseq:
            st = m.enclosing_stmt(c)
            par = m.parents.get(st)
            ok = isinstance(par, ast.If) and text(par.test) == 'wellformed'
            chk.ob(rid, rel, q, '`self._setSeq(newseq)` only if wellformed', ok, '')
    for cb in new_productions(chk.repo):
        ok, why = returns_state(cb.target)
        chk.ob(rid, SEL, cb.qual, f"handler for '{cb.key}' returns a state on every path", ok, why, trivial=True)


def r16d(chk, rid='R16.d'):
    chk.rule(rid, 'list semantics: appendSelector de-duplicates by serialised text before appending (move to the end); the all-or-nothing parse marks the list ill-formed when any member is; a selector with an undeclared prefix is reported as NamespaceErr and stops the append')
    from sa.absint import Evaluator, Obj, Raised, Record

    lm = chk.repo.mod(SELLIST)
    fn = lm.get('SelectorList.appendSelector')

    class SelM(Record):
        pass

    n = 0
    bad = []
    for start, new in ((['a', 'b'], 'c'), (['a', 'b', 'c'], 'a'), (['a', 'b', 'a', 'c'], 'a'), ([], 'x'), (['a'], 'a'), (['a', 'b'], None), (['a', 'b', 'c'], 0), (['a', 'b', 'a'], 0), (['a', 'b'], 1)):
        seq = [SelM(selectorText=t, tag=i) for i, t in enumerate(start)]
        me = Obj(seq=seq, _checkReadonly=lambda: None, _splitNamespacesOff=lambda t: (t, {}), parentRule=Obj(parentStyleSheet=Obj(namespaces={})), _namespaces={})
        if isinstance(new, int):
            prepared = seq[new]  # a Selector object that is a member of the list already (sl.append(sl[0])): it moves to the end
            new = prepared.selectorText
        else:
            prepared = SelM(selectorText=new, tag='new') if new is not None else None
        setattr(me, '__prepareset', lambda sel, ns=None, prepared=prepared: prepared)
        res = Evaluator(fn, module=lm, cls='SelectorList').run(self=me, newSelector=new or 'invalid')
        n += 1
        got = [x.selectorText for x in me.seq]
        want = [t for t in start if t != new] + ([new] if new is not None else [])
        if new is None:
            want = start
        if isinstance(res, Raised) or got != want or (new is not None and (res is not prepared or me.seq[-1] is not prepared)):
            bad.append(f'{start} + {new!r}: {got}, prescribed {want}' + (f' ({res!r})' if isinstance(res, Raised) else ''))
    chk.ob(rid, SELLIST, 'SelectorList.appendSelector', f'all {n} cases: every selector with the same text is removed and the new one is appended at the end; a selector that cannot be prepared changes nothing (by evaluation)', not bad, ' | '.join(bad[:2]))
    fn2 = chk.repo.fn(SELLIST, 'SelectorList._setSelectorText')
    bad = [n for n in ast.walk(fn2) if isinstance(n, ast.If) and 'selector.wellformed' in text(n.test)]
    ok = bool(bad) and any(isinstance(x, ast.Assign) and text(x.targets[0]) == 'wellformed' and const(x.value) is False for b in bad for x in ast.walk(ast.Module(body=b.orelse, type_ignores=[])))
    chk.ob(rid, SELLIST, 'SelectorList._setSelectorText', 'one invalid member invalidates the whole list', ok, 'an invalid member is skipped silently')
    na = chk.repo.fn(SEL, 'New.append')
    errs = [c for c in ast.walk(na) if isinstance(c, ast.Call) and call_name(c) == 'self._log.error' and any(k.arg == 'error' and 'NamespaceErr' in text(k.value) for k in c.keywords)]
    chk.ob(rid, SEL, 'New.append', 'an undeclared prefix is reported as NamespaceErr', len(errs) == 1, f'{len(errs)} reports')
    if errs:
        st = chk.repo.mod(SEL).enclosing_stmt(errs[0])
        blk = chk.repo.mod(SEL).parents[st].body
        i = blk.index(st)
        ok = i + 1 < len(blk) and isinstance(blk[i + 1], ast.Return) and any(isinstance(x, ast.Assign) and text(x.targets[0]) == 'self.wellformed' and const(x.value) is False for x in blk[:i])
        chk.ob(rid, SEL, 'New.append', 'the item is not appended and the selector becomes ill-formed', ok, 'the unresolved name would be stored')


def r16e(chk, rid='R16.e'):
    chk.rule(rid, 'append before push: New.append counts an item according to the context on top of the stack, so a handler that appends a counted item (a pseudo-element, or the "[" of an attribute selector) and opens a nested context for it must append first and push afterwards')
    m = chk.repo.mod(SEL)
    n = 0
    for q, fn in m.functions():
        if not q.startswith('New._'):
            continue
        for blk_owner in ast.walk(fn):
            for field in ('body', 'orelse'):
                blk = getattr(blk_owner, field, None)
                if not isinstance(blk, list):
                    continue
                pushes = [i for i, s in enumerate(blk) if isinstance(s, ast.Expr) and isinstance(s.value, ast.Call) and text(s.value.func) == 'self.context.append']
                if not pushes:
                    # the push may be nested one level deeper (if val.endswith('('): push)
                    pushes = [i for i, s in enumerate(blk) if isinstance(s, ast.If) and any(isinstance(x, ast.Call) and text(x.func) == 'self.context.append' for x in ast.walk(s))]
                apps = [i for i, s in enumerate(blk) if isinstance(s, ast.Expr) and isinstance(s.value, ast.Call) and text(s.value.func) == 'self.append' and len(s.value.args) >= 3]
                if not pushes or not apps:
                    continue
                for ai in apps:
                    call = blk[ai].value
                    typ = call.args[2]
                    counted = not isinstance(typ, ast.Constant) or typ.value in ('id', 'class', 'type-selector', 'negation-type-selector', 'pseudo-element', 'attribute-start')
                    if not counted:
                        continue
                    n += 1
                    ok = ai < min(pushes)
                    chk.ob(rid, SEL, q, f'`{text(call)[:60]}` precedes the context push', ok,
                           'the item is appended when its own nested context is already on top of the stack: it is not counted in the specificity (a::part(x) reports one type selector too few)')
    if n < 2:
        raise AnalysisError(f'only {n} append+push handlers found (2 confirmed by hand: _pseudo, _char "[")')


def r16f(chk, rid='R16.f'):
    chk.rule(rid, 'an id or class selector is written as it was read, decided by evaluation across three modules: the handler New.productions registers for HASH / class tokens is evaluated to see which item type it appends; that item is then written by CSSSerializer.do_css_Selector through the source\'s own Out.append and CSSSerializer._hash, under minimizeColorHash on and off: the text is unchanged - the colour shortening of the serializer, which goes by item type, must not reach names that merely look like colours (#aabbcc)')
    from sa.absint import Evaluator, Raised, Record

    from .c06 import out_model
    from .callbacks import new_productions

    sm = chk.repo.mod(SEL)
    serm = chk.repo.mod(SER)
    handlers = {cb.key: cb.target for cb in new_productions(chk.repo)}
    for key, val in (('HASH', '#aabbcc'), ('HASH', '#AABBCC'), ('HASH', '#abc'), ('class', '.aabbcc')):
        h = handlers.get(key)
        if h is None or isinstance(h, ast.Lambda):
            raise AnalysisError(f'New.productions: no handler for {key}')
        appended = []
        me = Record(context=[''], selector=Record(_tokenvalue=lambda tok, normalize=False: tok[1], _type=lambda tok: tok[0]), wellformed=True, _log=Record(error=lambda *a, **k: None))
        me.append = lambda seq, v, typ=None, token=None: appended.append((v, typ))
        res = Evaluator(h, intrinsics={'self._log.error': me._log.error}, module=sm, cls='New').run(self=me, expected='type_selector universal HASH class attrib pseudo negation ', seq=[], token=(key if key == 'HASH' else 'class', val, 1, 1))
        if isinstance(res, Raised) or len(appended) != 1:
            chk.ob(rid, SEL, f'New.{h.name}', f'{val} is appended as one item', False, f'{res!r}, appended {appended}')
            continue
        v, typ = appended[0]
        for mini in (True, False):
            prefs = Record(spacer=' ', selectorCombinatorSpacer=' ', keepComments=True, indentClosingBrace=False, listItemSpacer=' ', propertyNameSpacer=' ', paranthesisSpacer=' ', lineSeparator='\n', minimizeColorHash=mini)
            ser = Record(prefs=prefs, _level=0)
            hashfn = serm.get('CSSSerializer._hash')
            ser._hash = lambda x, ser=ser: Evaluator(hashfn, module=serm, cls='CSSSerializer').run(self=ser, val=x, type_='HASH') if 'type_' in [a.arg for a in hashfn.args.args] else Evaluator(hashfn, module=serm, cls='CSSSerializer').run(**{'self': ser, [a.arg for a in hashfn.args.args][1]: x})
            selector = Record(wellformed=True, seq=[Record(type=typ, value=v)], _namespaces=Record(get=lambda k, d=None: None, prefixForNamespaceURI=lambda u: 'p'))
            got = Evaluator(serm.get('CSSSerializer.do_css_Selector'), intrinsics={'Out': lambda s: out_model(chk, s), 'cssutils': Record(_ANYNS='ANY')}, module=serm, cls='CSSSerializer').run(self=ser, selector=selector)
            chk.ob(rid, SEL, f'New.{h.name}', f'{val} (item type {typ!r}) is written unchanged with minimizeColorHash={mini}', got == val, f'written as {got!r}: the selector no longer reparses to itself, and list de-duplication by text confuses it with another selector')


def r16g(chk, rid='R16.g'):
    chk.rule(rid, 'a reported selector error makes the selector ill-formed: in every method of the selector state machine (the handlers New.productions registers, New.append and any helper they share), every path from the entry to a return that passes an error report (self._log.error) also passes `self.wellformed = False` - a selector that logged a syntax error in logging mode is dropped together with its list and rule, it is not kept in a repaired form')
    from .callbacks import new_productions

    m = chk.repo.mod(SEL)
    fns = {}
    for cb in new_productions(chk.repo):
        if isinstance(cb.target, ast.FunctionDef):
            fns[cb.target.name] = cb.target
    # ... and every other method of the helper class (append, shared error helpers)
    for st in m.get('New', ast.ClassDef).body:
        if isinstance(st, ast.FunctionDef) and not any(text(d) == 'property' for d in st.decorator_list):
            fns.setdefault(st.name, st)
    n = 0
    for name, fn in sorted(fns.items()):
        g = cfgmod.CFG(fn)
        is_wf = lambda nd: nd.kind == 'stmt' and isinstance(nd.stmt, ast.Assign) and any(text(t) == 'self.wellformed' for t in nd.stmt.targets) and const(nd.stmt.value) is False  # noqa: E731
        errs = [nd for nd in g.nodes if nd.stmt is not None and nd.kind in ('stmt', 'return') and any(call_name(c) == 'self._log.error' for c in cfgmod.calls_at(nd))]
        before = g.reachable([ENTRY], avoid=is_wf)
        for e in errs:
            n += 1
            ok = True
            if e.id in before:
                after = g.reachable([e.id], avoid=is_wf)
                ok = EXIT_RET not in after
            chk.ob(rid, SEL, f'New.{name}', f'`{text(e.stmt)[:60]}` comes with wellformed = False on every path', ok,
                   'a path reports the error and returns with the selector still well-formed: in logging mode the damaged selector is kept (its text differs from the source) instead of being dropped with its rule', trivial=True)
    if n < 4:
        raise AnalysisError(f'only {n} error reports found in the selector handlers (18 on the pinned tree; a shared helper may hold most of them)')
    chk.extra['selector_error_reports'] = n
