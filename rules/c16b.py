"""C16 - the selector pipeline by evaluation: tokenizer -> token preparation -> state machine ->
committed sequence / specificity / element -> serializer, every stage evaluated from the source."""
from __future__ import annotations

from sa.core import pool_repo as core_pool_repo, pmap as core_pmap  # noqa: E402

import ast
import itertools

from sa.core import AnalysisError

SEL = 'cssutils/css/selector.py'
UTIL = 'cssutils/util.py'
SER = 'cssutils/serialize.py'


def seq_model(repo, readonly=False):
    """util.Seq with its methods and container protocol evaluated from the source (state: a list)."""
    from sa.absint import Record, SourceBacked

    class ItemM(Record):
        def __init__(self, value, type, line=None, col=None):  # noqa: A002
            Record.__init__(self, value=value, type=type, line=line, col=col)

    return SourceBacked(repo.mod(UTIL), 'Seq', intrinsics={'Item': ItemM, 'tokenize2': Record(CSSProductions=Record(S='S'))}, _seq=[], _readonly=readonly)


class Suppress:
    def __init__(self, *kinds):
        self.kinds = kinds

    def __enter__(self):
        return None

    def __exit__(self, kind, *a):
        return kind is not None and any(kind == k or k in ('Exception', 'BaseException') for k in self.kinds)


def dataclass_fields(m, clsname, ev):
    """Default values of the fields of a dataclass, by evaluating the class body."""
    out = {}
    for st in m.get(clsname, ast.ClassDef).body:
        if isinstance(st, ast.AnnAssign) and isinstance(st.target, ast.Name) and st.value is not None:
            v = st.value
            if isinstance(v, ast.Call) and ast.unparse(v.func).endswith('field'):
                fac = [k.value for k in v.keywords if k.arg == 'default_factory']
                dfl = [k.value for k in v.keywords if k.arg == 'default']
                if fac:
                    out[st.target.id] = ('factory', fac[0])
                elif dfl:
                    out[st.target.id] = ('value', dfl[0])
            else:
                out[st.target.id] = ('value', v)
    return out


def eval_selector(chk, text_, namespaces=None, log_errors=None, sheet_namespaces=None):
    """Selector._setSelectorText evaluated on `text_`. Returns a dict: wellformed (committed), seq
    [(type, value)], specificity, element, text (what do_css_Selector writes for the committed
    sequence), errors."""
    from sa.absint import Evaluator, Obj, Raised, Record, SourceBacked

    from .c04 import bound_method
    from .c05 import tokenize_text
    from .c06 import out_model

    repo = chk.repo
    sm = repo.mod(SEL)
    serm = repo.mod(SER)
    errors = [] if log_errors is None else log_errors
    log = Record(error=lambda *a, **k: errors.append(a[0] if a else ''), warn=lambda *a, **k: None, info=lambda *a, **k: None, debug=lambda *a, **k: None)
    toks = tokenize_text(repo, text_, fullsheet=False)
    if isinstance(toks, Raised):
        raise AnalysisError(f'tokenizer: {toks!r}')
    toks = [t[:4] for t in toks]
    nsmap = dict(namespaces or {})

    class NS(dict):
        def __getitem__(self, k):  # _SimpleNamespaces: an unknown prefix is reported by the caller
            return dict.get(self, k)

    class Me(Obj):
        @property
        def seq(self):
            return self._seq

        @property
        def _namespaces(self):
            return self.own_namespaces

    me = Me(_seq=seq_model(repo), _specificity=(0, 0, 0, 0), _element=None, parent=None, _parent=None, own_namespaces=NS(nsmap), _log=log, _readonly=False,
            _prods=Record(IDENT='IDENT', STRING='STRING', FUNCTION='FUNCTION', HASH='HASH'))
    intr_util = {'Base': Record(_prods=Record(FUNCTION='FUNCTION'), _normalize=None), 'chain': itertools.chain, 'cssutils': Record(css=Record(CSSUnknownRule=lambda *a, **k: Obj(wellformed=False, cssText=None), CSSComment=lambda *a, **k: Record(cssText='/**/')))}
    for name, qual in (('_tokenvalue', 'Base._tokenvalue'), ('_type', 'Base._type'), ('_stringtokenvalue', 'Base._stringtokenvalue'), ('_valuestr', '_BaseClass._valuestr'),
                       ('_parse', 'Base._parse'), ('_adddefaultproductions', 'Base._adddefaultproductions'), ('_checkReadonly', '_BaseClass._checkReadonly')):
        setattr(me, name, bound_method(repo, UTIL, qual, me, intr_util))
    normfn = repo.mod('cssutils/helper.py').get('normalize')
    norm = lambda x: Evaluator(normfn, module=repo.mod('cssutils/helper.py')).run(**{normfn.args.args[0].arg: x})  # noqa: E731
    me._normalize = norm
    intr_util['Base'] = Record(_prods=Record(FUNCTION='FUNCTION'), _normalize=norm)
    me._splitNamespacesOff = lambda t: (t[0], NS(t[1])) if isinstance(t, tuple) else (t, NS())
    if sheet_namespaces is not None:
        # attached: the list the selector belongs to sits in a rule of a sheet; the sheet's mapping has a length
        # like _Namespaces (an empty one is falsy) and answers None for an unknown prefix
        sheet = Record(namespaces=NS(sheet_namespaces))
        me.parent = me._parent = Record(parentRule=Record(parentStyleSheet=sheet, _parentStyleSheet=sheet), _parentRule=None)
        me._parent._parentRule = me._parent.parentRule
        me.own_namespaces = sheet.namespaces
    me._tokenize2 = lambda t: iter(toks) if toks else None
    me._tempSeq = lambda readonly=False: seq_model(repo, readonly)

    me._setSeq = bound_method(repo, UTIL, '_NewBase._setSeq', me, intr_util)

    class CommentM(Record):
        def __init__(self, tokens=None, **k):
            Record.__init__(self, cssText=''.join(t[1] for t in (tokens or [])))

    new_ev = Evaluator(sm.get('New.append'), module=sm, cls='New')
    fields = dataclass_fields(sm, 'New', new_ev)

    class NewM(Obj):
        @property
        def productions(self):
            f = sm.get('New.productions')
            return Evaluator(f, intrinsics=intr_new, module=sm, cls='New').call_function(f, [], {}, bound_self=self)

    def make_new(selector=None, namespaces=None):
        init = {}
        for k, (how, node) in fields.items():
            if how == 'factory':
                init[k] = new_ev.call_function(node, [], {}) if isinstance(node, ast.Lambda) else new_ev.expr(node, {})()
            else:
                init[k] = new_ev.expr(node, {})
        init.update(selector=selector, namespaces=namespaces, _log=log)
        return NewM(**init)

    intr_new = {'xml': Record(dom=Record(NamespaceErr='NamespaceErr', InvalidModificationErr='InvalidModificationErr', SyntaxErr='SyntaxErr')), 'cssutils': Record(_ANYNS='*ANY*', css=Record(CSSComment=CommentM)),
                'self._log.error': log.error}
    intr = {'New': make_new, 'contextlib': Record(suppress=lambda *k: Suppress(*[x if isinstance(x, str) else getattr(x, '__name__', str(x)) for x in k])), 'AttributeError': 'AttributeError',
            '_SimpleNamespaces': lambda log=None, *a, **k: NS(), 'self._log.error': log.error, **intr_new}
    fn = sm.get('Selector._setSelectorText')
    ev = Evaluator(fn, intrinsics=intr, module=sm, cls='Selector', model_types=(SourceBacked, NS))
    before = me._seq
    res = ev.run(self=me, selectorText=(text_, nsmap) if namespaces is not None else text_)
    out = {'raised': res if isinstance(res, Raised) else None, 'committed': me._seq is not before, 'errors': errors,
           'seq': [(it.type, getattr(it.value, 'cssText', it.value)) for it in me._seq], 'specificity': tuple(me._specificity), 'element': me._element}
    if out['committed']:
        prefs = Record(spacer=' ', selectorCombinatorSpacer=' ', keepComments=True, indentClosingBrace=False, listItemSpacer=' ', propertyNameSpacer=' ', paranthesisSpacer=' ', lineSeparator='\n', minimizeColorHash=True)
        ser = Record(prefs=prefs, _level=0)
        hashfn = serm.get('CSSSerializer._hash')
        ser._hash = lambda *a, **k: Evaluator(hashfn, module=serm, cls='CSSSerializer').call_function(hashfn, a, k, bound_self=ser)
        rev = {v: k for k, v in nsmap.items()}
        nsobj = Record(get=lambda k, d=None: nsmap.get(k, d), prefixForNamespaceURI=lambda u: rev[u] if u in rev else (_ for _ in ()).throw(IndexError()))
        selector = Record(wellformed=True, seq=list(me._seq), _namespaces=nsobj)
        got = Evaluator(serm.get('CSSSerializer.do_css_Selector'), intrinsics={'Out': lambda s: out_model(chk, s), 'cssutils': Record(_ANYNS='*ANY*')}, module=serm, cls='CSSSerializer').run(self=ser, selector=selector)
        out['text'] = got
    return out


# ---------------------------------------------------------------------------
# generated selectors with counts known by construction: (text, ids, classes+attributes, types+pseudo-elements)
TYPES = [('', 0), ('a', 1), ('*', 0), ('p|a', 1), ('*|b', 1), ('|c', 1), ('p|*', 0), ('H1', 1)]
SUFFIX = [('#i', (1, 0, 0)), ('.c', (0, 1, 0)), ('[x]', (0, 1, 0)), ('[x=y]', (0, 1, 0)), ('[x~="y z"]', (0, 1, 0)), ('[x|=y]', (0, 1, 0)), ('[x^=y]', (0, 1, 0)), ('[x$=y]', (0, 1, 0)), ('[x*=y]', (0, 1, 0)),
          ('[p|x=y]', (0, 1, 0)), (':hover', (0, 0, 0)), (':HOVER', (0, 0, 0)), (':lang(fr)', (0, 0, 0)), (':nth-child(2n+1)', (0, 0, 0)), (':nth-of-type(odd)', (0, 0, 0)), (':nth-child(-n+3)', (0, 0, 0)),
          ('::before', (0, 0, 1)), (':after', (0, 0, 1)), (':first-line', (0, 0, 1)), (':First-Letter', (0, 0, 1)), ('::BEFORE', (0, 0, 1)),
          (':not(.d)', (0, 1, 0)), (':n\\ot(.d)', (0, 1, 0)), (':N\\OT(e)', (0, 0, 1)), (':not(#j)', (1, 0, 0)), (':not(e)', (0, 0, 1)), (':NOT([x])', (0, 1, 0)), (':not(:hover)', (0, 0, 0)), (':not(*)', (0, 0, 0)), (':not(p|e)', (0, 0, 1))]
COMBINATORS = [' ', '>', '+', '~', ' > ', '  +  ', ' /*c*/ ', '\n~\t']
NS = {'p': 'http://p', '': None}


def compounds(max_suffix):
    out = []
    for t, d in TYPES:
        for k in range(0, max_suffix + 1):
            for combo in itertools.product(SUFFIX, repeat=k):
                if not t and not combo:
                    continue
                txt = t + ''.join(c[0] for c in combo)
                # a pseudo-element ends its compound; nothing may follow it
                pe = [i for i, c in enumerate(combo) if c[1] == (0, 0, 1) and not c[0].lower().replace('\\', '').startswith(':not')]
                if pe and pe[0] != len(combo) - 1:
                    continue
                b = sum(c[1][0] for c in combo)
                c_ = sum(c[1][1] for c in combo)
                dd = d + sum(c[1][2] for c in combo)
                out.append((txt, (0, b, c_, dd)))
    return out


def _h_job(args):
    root, cases = args
    from sa.core import Repo

    class C:
        pass

    chk = C()
    chk.repo = core_pool_repo(root)
    res = []
    ns = {'p': 'http://p'}
    for text_, want in cases:
        try:
            r1 = eval_selector(chk, text_, ns)
        except AnalysisError as e:
            res.append((text_, f'cannot be evaluated: {e}'))
            continue
        if r1['raised'] is not None or not r1['committed']:
            res.append((text_, f'is not accepted ({r1["raised"] or r1["errors"][:1]})'))
            continue
        if r1['specificity'] != want:
            res.append((text_, f'specificity {r1["specificity"]}, by construction {want}'))
            continue
        t2 = r1.get('text')
        if not isinstance(t2, str) or not t2:
            res.append((text_, f'is written as {t2!r}'))
            continue
        r2 = eval_selector(chk, t2, ns)
        if r2['raised'] is not None or not r2['committed'] or r2['seq'] != r1['seq'] or r2['specificity'] != r1['specificity'] or r2.get('text') != t2:
            res.append((text_, f'is written as {t2!r}, which reparses to {r2["seq"] if r2["committed"] else r2["errors"][:1]} / {r2["specificity"]} instead of {r1["seq"]} / {r1["specificity"]}'))
    return res


def r16h(chk, rid='R16.h', thorough=False):
    chk.rule(rid, 'specificity and round trip of generated selectors, decided by evaluation of the whole selector pipeline - Tokenizer.tokenize, Selector._prepare_tokens, the parse loop Base._parse, the state machine of New (append and every handler), the commit in Selector._setSelectorText, and the writer CSSSerializer.do_css_Selector with Out and helper.string - each on its own syntax tree: for compounds of type / universal selectors with and without namespace prefix, ids, classes, attribute selectors with every operator, pseudo-classes (plain, functional with an+b arguments), pseudo-elements in one- and two-colon form, :not() with every kind of argument, in lower, upper and mixed case and with an escape in the name, joined by the four combinators written with and without white space and comments: the selector is accepted, its specificity is the count known by construction, and the written text reparses to the same sequence with the same specificity and is a fixpoint')
    chk.assume('R16.h: the selector is detached (its own namespace map with one prefix); logging is a stub; compounds with up to one (thorough: two) simple selectors behind the type part, complex selectors of two compounds for every combinator spelling over a reduced compound set, three compounds for the plain spellings')
    import multiprocessing as mp

    singles = compounds(2 if thorough else 1)
    base = [c for c in compounds(1) if c[0] in ('a', '*', '.c', '#i', 'a.c', 'p|a', 'a:hover', 'a::before', 'a:not(.d)', '[x=y]', 'H1', 'a:nth-child(2n+1)')]
    if len(base) < 10:
        raise AnalysisError('R16.h: reduced compound set not found')
    cases = list(singles)

    def add(a, b):
        return tuple(x + y for x, y in zip(a, b))

    for comb in COMBINATORS:
        for (t1, s1), (t2, s2) in itertools.product(base, repeat=2):
            if '::' in t1 or t1.endswith(('before', 'after')):
                continue  # nothing follows a pseudo-element
            cases.append((t1 + comb + t2, add(s1, s2)))
    small = [c for c in base if c[0] in ('a', '.c', '#i', 'a:not(.d)')]
    for c1, c2 in itertools.product(('>', ' ', '+', '~'), repeat=2):
        for (t1, s1), (t2, s2), (t3, s3) in itertools.product(small, repeat=3):
            cases.append((t1 + c1 + t2 + c2 + t3, add(add(s1, s2), s3)))
    cases = sorted(set(cases))
    if len(cases) < 1500:
        raise AnalysisError(f'only {len(cases)} selectors generated')
    jobs = 12
    ctx = mp.get_context('fork')
    parts = core_pmap(chk.repo, _h_job, [(chk.repo.root, cases[i::jobs * 4]) for i in range(jobs * 4)], jobs)
    bad = [x for p_ in parts for x in p_]
    chk.extra['generated_selectors'] = len(cases)
    groups = {}
    for t, why in bad:
        kind = 'accepted' if 'not accepted' in why else 'specificity' if why.startswith('specificity') else 'round trip' if 'written' in why else 'evaluation'
        groups.setdefault(kind, []).append((t, why))
    for kind, label in (('accepted', 'every generated selector is accepted'), ('specificity', 'the specificity is the count known by construction'), ('round trip', 'the written selector reparses to the same sequence and is a fixpoint'), ('evaluation', 'every generated selector can be evaluated')):
        b = groups.get(kind, [])
        chk.ob(rid, SEL, 'Selector._setSelectorText', f'{label} ({len(cases)} selectors)', not b, '; '.join(f'{t!r} {w}' for t, w in b[:3]) + f' ({len(b)} selectors)', shape=(kind == 'evaluation'))


MALFORMED = ['*|*|*', 'svg|*|*', 'p|*|*', 'a|b|c', 'p|a|b', '*|a|b', '||a', 'a||b', '|', '*|', 'a|', 'p|', '|*|a', '*|*|', '[a|b|c]', '[*|*|a]', '[p|x', '[', '[=]', '[x=]', '[x=y', '[x y]',
             ':', '::', ':::a', ':not(', ':not()', ':not(a', ':not(:not(a))', ':not(a b)', ':not(p|)', ':lang(', 'a,,b', ',a', 'a,', 'a > > b', '> a', 'a >', 'a +', '~', '#', '.', '..a', 'a..b', '#.a',
             'a{', 'a}', ')', '(', 'a)', 'a(b)', '"a"', "'", '"', '1a', '-', '--', '@a', 'a@b', '!', 'a!b', '$', 'a$=b', '*|*|*, b', 'e, *|*|*', '*|*|*:hover', 'a *|*|*', '\\', 'a\\']


def _malformed_job(args):
    root, texts = args
    repo = core_pool_repo(root)

    class _C:  # the slice of the check interface eval_selector uses
        pass

    c = _C()
    c.repo = repo
    out = []
    for t in texts:
        for ns in (None, {'p': 'U', 'svg': 'S'}):
            try:
                r = eval_selector(c, t, namespaces=ns, log_errors=[])
            except AnalysisError as e:
                out.append((t, ns is not None, 'evaluation', str(e)[:120]))
                continue
            kind = getattr(r['raised'], 'kind', None)
            name = kind if isinstance(kind, str) else getattr(kind, '__name__', None) or type(kind).__name__
            if r['raised'] is not None and name not in ('SyntaxErr', 'NamespaceErr', 'InvalidModificationErr'):
                out.append((t, ns is not None, 'raised', repr(r['raised'])[:120]))
            elif r['raised'] is None and r['committed'] and t in ('*|*|*', 'svg|*|*', 'a|b|c', '[a|b|c]', '||a', 'a||b'):
                out.append((t, ns is not None, 'accepted', str(r['seq'])[:120]))
    return out


def r16i(chk, rid='R16.i'):
    chk.rule(rid, 'a malformed selector is refused, never a crash, decided by evaluation: Selector._setSelectorText - with the token pre-pass, the real parse loop and the New '
                  'productions, all evaluated from the source - is run for malformed selector texts (chains of namespace bars such as `*|*|*`, `svg|*|*`, `a|b|c`, `||a`; '
                  'unclosed and empty attribute selectors, pseudo-classes and negations; stray combinators, commas, brackets, quotes, numbers and delimiters), detached and '
                  'with a namespace map: the only exceptions that leave it are the DOM errors it reports through the log (SyntaxErr, NamespaceErr, InvalidModificationErr) - '
                  'a ValueError or IndexError from unpacking or indexing a token would escape parseString and lose the whole sheet instead of one rule')
    import os

    jobs = min(8, os.cpu_count() or 2)
    parts = core_pmap(chk.repo, _malformed_job, [(chk.repo.root, MALFORMED[i::jobs]) for i in range(jobs)], jobs)
    bad = [x for p_ in parts for x in p_]
    for kind, label in (('raised', 'no malformed selector makes the selector parser raise a non-DOM exception'), ('accepted', 'a chain of namespace bars is not accepted as a selector'),
                        ('evaluation', 'every malformed selector can be evaluated')):
        b = [x for x in bad if x[2] == kind]
        chk.ob(rid, SEL, 'Selector._setSelectorText', f'{label} ({len(MALFORMED)} texts, detached and with a namespace map)', not b,
               '; '.join(f'{t!r}{" (with namespaces)" if ns else ""}: {w}' for t, ns, _, w in b[:3]) + f' ({len(b)} cases)', shape=(kind == 'evaluation'))
