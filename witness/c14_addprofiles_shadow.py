"""Witness for C14 / R14.h: the same registry content gives different verdicts depending on
whether the shadowing profile was registered with addProfile or addProfiles."""
import cssutils
from cssutils.profiles import Profiles

def registry(bulk):
    p = Profiles(log=cssutils.log)
    p.addProfile('A', {'pa': '{ma}'}, {'ma': 'aaa'})
    if bulk:
        p.addProfiles([('B', {'pb': 'x'}, {'ma': 'bbb'})])
    else:
        p.addProfile('B', {'pb': 'x'}, {'ma': 'bbb'})
    return p

one, bulk = registry(False), registry(True)
v1 = [one.validate('pa', v) for v in ('aaa', 'bbb')]
v2 = [bulk.validate('pa', v) for v in ('aaa', 'bbb')]
print('addProfile :', v1)
print('addProfiles:', v2)
raise SystemExit(0 if v1 == v2 else 1)
