#!/bin/bash
# Dev tool: verify a seeded change and run all checks against it on a scratch worktree.
# usage: verify_seed.sh <dir with patch.diff demo.py> [checks...]
set -u
D="$1"; shift
W=$(mktemp -d /tmp/sv.XXXXXX)
git -C /repo worktree add -q --detach "$W/t" ${BASE:-HEAD} || exit 3
cp "$D/demo.py" "$W/demo.py"
run_demo() { (cd "$W/t" && PYTHONPATH="$W/t" timeout 300 /venv/bin/python "$W/demo.py" >"$W/demo.out" 2>&1; echo $?); }
echo "== demo on clean tree: exit $(run_demo) (want 0)"; tail -2 "$W/demo.out"
if ! git -C "$W/t" apply "$D/patch.diff" 2>"$W/apply.err"; then
  if ! git -C "$W/t" apply -3 "$D/patch.diff" 2>>"$W/apply.err"; then echo "PATCH DOES NOT APPLY"; cat "$W/apply.err"; git -C /repo worktree remove --force "$W/t"; rm -rf "$W"; exit 4; fi
fi
echo "== demo on patched tree: exit $(run_demo) (want 1)"; tail -3 "$W/demo.out"
echo "== test suite on patched tree:"; /verif/tools/baseline.py "$W/t" | head -5
echo "== checks on patched tree:"
mkdir -p "$W/ev" "$W/out"
for id in ${@:-C01 C02 C03 C04 C05 C06 C07 C08 C09 C10 C11 C12 C13 C14 C15 C16 C17 C18 C19 C20}; do
  [ -f /verif/rules/$(echo $id | tr A-Z a-z).py ] || continue
  out=$(cd /verif && VERIF_REPO="$W/t" VERIF_EVIDENCE_DIR="$W/ev" VERIF_OUT_DIR="$W/out" ./check $id 2>&1); rc=$?
  echo "$id rc=$rc $(echo "$out" | grep -c '^VIOLATION') violation(s)"
  echo "$out" | grep -E '^(FINDING|ANALYSIS-ERROR)' | head -5
done
git -C /repo worktree remove --force "$W/t"; rm -rf "$W"
