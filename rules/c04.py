"""C04 - syntax errors are contained: only the malformed construct is dropped."""
from __future__ import annotations

import ast

from sa import cfg as cfgmod
from sa.cfg import ENTRY, EXIT_RET
from sa.core import AnalysisError, call_name, const, kw, text

from .c05 import r04c
from .callbacks import callbacks

UTIL = 'cssutils/util.py'
SHEET = 'cssutils/css/cssstylesheet.py'
MEDIA = 'cssutils/css/cssmediarule.py'


def run(chk):
    r04a(chk)
    r04b(chk)
    r04c(chk, 'R04.c')
    r04d(chk)
    from .c09 import r09c

    r09c(chk, 'R04.e')
    r04f(chk)


def _skip_calls(fn):
    return [n for n in ast.walk(fn) if isinstance(n, ast.Call) and call_name(n) == 'self._tokensupto2' and n.args and text(n.args[0]) == 'tokenizer']


def _starttoken(call):
    if len(call.args) >= 2:
        return call.args[1]
    return kw(call, 'starttoken')


def trace_skips(m, owner, fn, tok='token', tkz='tokenizer', registered=(), depth=0, chain=()):
    """Every `self._tokensupto2(...)` call that the callback `fn` makes itself or through local helper
    functions (defs nested in `owner` that are not registered callbacks) to which it hands its token.
    Yields (call, name of the token in that function, name of the tokenizer, helper chain, function)."""
    for c in ast.walk(fn):
        if isinstance(c, ast.Call) and m.enclosing_def(c) is fn:
            if call_name(c) == 'self._tokensupto2':
                yield c, tok, tkz, chain, fn
            elif isinstance(c.func, ast.Name) and depth < 4 and owner is not None:
                helper = next((d for d in ast.walk(owner) if isinstance(d, ast.FunctionDef) and d.name == c.func.id and m.enclosing_def(d) is owner and d is not fn and id(d) not in registered), None)
                if helper is None:
                    continue
                params = [a.arg for a in helper.args.args]
                bind = {params[i]: text(a) for i, a in enumerate(c.args) if i < len(params)}
                bind.update({k.arg: text(k.value) for k in c.keywords if k.arg})
                inv = {v: k for k, v in bind.items()}
                if tok not in inv:
                    continue
                yield from trace_skips(m, owner, helper, inv[tok], inv.get(tkz, tkz), registered, depth + 1, chain + (helper.name,))


def consumes_on_all_paths(m, owner, fn, tok='token', tkz='tokenizer', registered=(), depth=0):
    """Does every path of `fn` to a return pass a statement that consumes the construct - a
    `_tokensupto2` call or a call of a local helper that is handed the token and consumes on all its
    paths?  Returns (ok, offending path or [])."""
    g = cfgmod.CFG(fn)
    nodes = []
    for n in g.nodes:
        for c in cfgmod.calls_at(n):
            if call_name(c) == 'self._tokensupto2':
                nodes.append(n)
            elif isinstance(c.func, ast.Name) and depth < 4 and owner is not None:
                helper = next((d for d in ast.walk(owner) if isinstance(d, ast.FunctionDef) and d.name == c.func.id and m.enclosing_def(d) is owner and d is not fn and id(d) not in registered), None)
                if helper is None:
                    continue
                params = [a.arg for a in helper.args.args]
                bind = {params[i]: text(a) for i, a in enumerate(c.args) if i < len(params)}
                bind.update({k.arg: text(k.value) for k in c.keywords if k.arg})
                inv = {v: k for k, v in bind.items()}
                if tok in inv and consumes_on_all_paths(m, owner, helper, inv[tok], inv.get(tkz, tkz), registered, depth + 1)[0]:
                    nodes.append(n)
    if not nodes:
        return False, []
    ok, path = g.all_paths_pass([ENTRY], lambda n: n in nodes, targets=[EXIT_RET])
    return ok, path or []


def r04a(chk, rid='R04.a'):
    chk.rule(rid, 'the token that triggers "skip the bad construct" is counted: every production callback that can be entered with a bracket-opening token (registered as default=, under CHAR or FUNCTION, or called from such a callback with its token) and discards input with _tokensupto2(tokenizer, ...) passes that token as starttoken')
    sites, cbs = callbacks(chk.repo)
    # callbacks that may receive an opening bracket
    open_keys = {'default', 'CHAR', 'FUNCTION'}
    by_target = {}
    for cb in cbs:
        if isinstance(cb.target, ast.Lambda):
            continue
        by_target.setdefault(id(cb.target), (cb, set()))[1].add(cb.key)
    # helper callbacks invoked with the token from an open-key callback
    extra = set()
    for tid, (cb, keys) in by_target.items():
        if keys & open_keys:
            for c in ast.walk(cb.target):
                if isinstance(c, ast.Call) and isinstance(c.func, ast.Name) and any(text(a) == 'token' for a in c.args):
                    for tid2, (cb2, _) in by_target.items():
                        if cb2.target.name == c.func.id and cb2.rel == cb.rel and cb2.owner == cb.owner:
                            extra.add(tid2)
    n = 0
    for tid, (cb, keys) in by_target.items():
        if not (keys & open_keys or tid in extra):
            continue
        m = chk.repo.mod(cb.rel)
        owner = m.enclosing_def(cb.target)
        registered = {id(c2.target) for c2 in cbs}
        for call, tokname, tkzname, chain, where in trace_skips(m, owner, cb.target, registered=registered):
            if not (call.args and text(call.args[0]) == tkzname):
                continue
            n += 1
            st = _starttoken(call)
            ok = st is not None and text(st) == tokname
            via = f' in helper {" -> ".join(chain)} (called with the token)' if chain else ''
            chk.ob(rid, cb.rel, cb.qual, text(call) + via, ok,
                   'the offending token is not handed to the bracket counter: if it is "(", "[", "{" or a FUNCTION, its closing bracket drives the counter negative and the skip runs past the end of the construct')
    if n < 3:
        raise AnalysisError(f'only {n} skipping callbacks found (3 confirmed by hand: two rule-set defaults and the declaration error handler)')


# statement callbacks: name -> the DOM class they must build
SHEET_CBS = ['charsetrule', 'importrule', 'namespacerule', 'variablesrule', 'fontfacerule', 'mediarule', 'pagerule', 'unknownrule', 'ruleset']
MEDIA_CBS = ['ruleset', 'atrule']


def r04b(chk, rid='R04.b'):
    chk.rule(rid, 'consume always, insert only if well-formed: in every statement callback of CSSStyleSheet._setCssText and CSSMediaRule._setCssText the slice `_tokensupto2(tokenizer, token)` with the default terminators lies on every path to the return, and every insertRule of the parsed rule is control-dependent on rule.wellformed')
    for rel, owner, names in ((SHEET, 'CSSStyleSheet._setCssText', SHEET_CBS), (MEDIA, 'CSSMediaRule._setCssText', MEDIA_CBS)):
        m = chk.repo.mod(rel)
        for name in names:
            q = f'{owner}.{name}'
            fn = m.get(q)
            ownerfn = m.get(owner)
            skips = list(trace_skips(m, ownerfn, fn))
            if not skips:
                chk.ob(rid, rel, q, 'consumes the statement', False, 'no _tokensupto2(tokenizer, token) call: the tokens of the statement stay in the stream and are parsed as further statements')
                continue
            ok, path = consumes_on_all_paths(m, ownerfn, fn)
            chk.ob(rid, rel, q, 'the statement is consumed on every path (directly or through a local helper that is handed the token)', ok, '' if ok else 'path that returns without consuming: ' + ' -> '.join(path[-4:]))
            for c, tokname, tkzname, chain, where in skips:
                plain = len(c.args) == 2 and text(c.args[0]) == tkzname and text(c.args[1]) == tokname and not c.keywords
                via = f' (in helper {" -> ".join(chain)})' if chain else ''
                chk.ob(rid, rel, q, f'`{text(c)}`{via} uses the default statement end (semicolon or the matching closing brace)', plain,
                       'another terminator lets a malformed statement with a block run on to the next ";" of the sheet')
            # insertRule of the parsed rule only under <rule>.wellformed - in the callback and in the helpers it uses
            scopes = {id(fn): fn}
            for c, tokname, tkzname, chain, where in skips:
                scopes[id(where)] = where
            for d in ast.walk(ownerfn):
                if isinstance(d, ast.FunctionDef) and m.enclosing_def(d) is ownerfn and any(isinstance(c, ast.Call) and isinstance(c.func, ast.Name) and c.func.id == d.name for c in ast.walk(fn)):
                    scopes[id(d)] = d
            for sc in scopes.values():
                for c in ast.walk(sc):
                    if isinstance(c, ast.Call) and call_name(c) == 'self.insertRule' and c.args and isinstance(c.args[0], ast.Name) and m.enclosing_def(c) is sc:
                        var = c.args[0].id
                        guarded = _under_wellformed(m, sc, m.enclosing_stmt(c), var)
                        chk.ob(rid, rel, q, f'`{text(c)}`' + (f' (in helper {sc.name})' if sc is not fn else '') + f' only if {var}.wellformed', guarded, 'a rule that failed to parse is inserted')
    chk.require(rid, 25, 'statement callback obligations')


def _under_wellformed(m, fn, stmt, var='rule'):
    child, n = stmt, m.parents.get(stmt)
    while n is not None and n is not fn:
        if isinstance(n, ast.If) and child in n.body and f'{var}.wellformed' in text(n.test):
            return True
        if isinstance(n, ast.If) and child in n.orelse:
            # elif rule.wellformed: ... is represented as orelse=[If]
            pass
        child, n = n, m.parents.get(n)
    return False


def r04d(chk, rid='R04.d'):
    chk.rule(rid, 'bracket counting of Base._tokensupto2: the loop counts exactly the six bracket characters by equality on the token value plus FUNCTION tokens by type; the start token is counted by the same conditions (sibling agreement); the slice ends only when all three counters are zero; EOF always ends it')
    fn = chk.repo.fn(UTIL, 'Base._tokensupto2')
    m = chk.repo.mod(UTIL)
    loops = [n for n in ast.walk(fn) if isinstance(n, ast.For) and text(n.iter) == 'tokenizer']
    if len(loops) != 1:
        raise AnalysisError('_tokensupto2: token loop not found')
    loop = loops[0]

    def counting(stmts, valname, typnames=('typ', 'starttoken[0]')):
        """{(char or 'FUNCTION'): (counter, +1/-1)} from an if/elif chain"""
        out = {}
        bad = []
        for st in stmts:
            cur = st if isinstance(st, ast.If) else None
            while cur is not None:
                augs = [x for x in cur.body if isinstance(x, ast.AugAssign) and isinstance(x.target, ast.Name) and const(x.value) == 1 and isinstance(x.op, (ast.Add, ast.Sub))]
                if augs:
                    a = augs[0]
                    sign = 1 if isinstance(a.op, ast.Add) else -1
                    conds = cur.test.values if isinstance(cur.test, ast.BoolOp) and isinstance(cur.test.op, ast.Or) else [cur.test]
                    for c in conds:
                        key = None
                        if isinstance(c, ast.Compare) and len(c.ops) == 1 and isinstance(c.ops[0], ast.Eq):
                            l, r = c.left, c.comparators[0]
                            for x, y in ((l, r), (r, l)):
                                if isinstance(x, ast.Constant) and isinstance(x.value, str) and text(y) == valname:
                                    key = x.value
                                if text(x).endswith('_prods.FUNCTION') and text(y) in typnames:
                                    key = 'FUNCTION'
                        if key is None:
                            bad.append(text(c))
                        else:
                            out[key] = (text(a.target), sign)
                cur = cur.orelse[0] if len(cur.orelse) == 1 and isinstance(cur.orelse[0], ast.If) else None
        return out, bad

    # names of the token's type and value inside the loop: the unpacking of `token`
    unp = [st for st in loop.body if isinstance(st, ast.Assign) and isinstance(st.targets[0], ast.Tuple) and text(st.value) == text(loop.target) and len(st.targets[0].elts) == 4]
    typname, valname = (text(unp[0].targets[0].elts[0]), text(unp[0].targets[0].elts[1])) if unp else ('typ', 'val')
    table, bad = counting(loop.body, valname, (typname, 'starttoken[0]'))
    # the counters are whatever names the chain increments; what is prescribed is the pairing
    groups = (('{', '}', None), ('[', ']', None), ('(', ')', 'FUNCTION'))
    names = {}
    for o, c, f in groups:
        if o not in table or table[o][1] != 1:
            chk.ob(rid, UTIL, 'Base._tokensupto2', f'loop: {o!r} increments a bracket counter', False, f'found {table.get(o)}')
            continue
        names[o] = table[o][0]
    if len(set(names.values())) != len(names):
        chk.ob(rid, UTIL, 'Base._tokensupto2', 'braces, brackets and parentheses have separate counters', False, str(names))
    want = {}
    for o, c, f in groups:
        ctr = names.get(o, '?')
        want[o] = (ctr, 1)
        want[c] = (ctr, -1)
        if f:
            want[f] = (ctr, 1)
    chk.ob(rid, UTIL, 'Base._tokensupto2', 'brackets are recognised by equality of the token value (or the FUNCTION type) only', not bad,
           f'other predicates: {bad} - a token that merely contains a bracket (an escaped "\\(" at the end of an identifier) is counted')
    for k, v in want.items():
        chk.ob(rid, UTIL, 'Base._tokensupto2', f'loop: {k!r} changes the counter of {[g[0] for g in groups if k in g][0]!r} by {v[1]:+d}', table.get(k) == v, f'found {table.get(k)}')
    extra = set(table) - set(want)
    chk.ob(rid, UTIL, 'Base._tokensupto2', 'no other token changes a counter', not extra, str(sorted(extra)))
    # start token block
    starts = [n for n in ast.walk(fn) if isinstance(n, ast.If) and text(n.test) == 'starttoken' and any(isinstance(x, ast.Call) and isinstance(x.func, ast.Attribute) and x.func.attr == 'append' and x.args and text(x.args[0]) == 'starttoken' for x in ast.walk(n))]
    if len(starts) != 1:
        raise AnalysisError('_tokensupto2: start token block not found')
    sval = [text(st.targets[0]) for st in starts[0].body if isinstance(st, ast.Assign) and text(st.value) == 'starttoken[1]']
    stable_, sbad = counting(starts[0].body, sval[0] if sval else 'val')
    for k in ('{', '[', '(', 'FUNCTION'):
        chk.ob(rid, UTIL, 'Base._tokensupto2', f'start token: {k!r} is counted like in the loop', stable_.get(k) == want[k],
               f'found {stable_.get(k)}: a statement that starts with this token never sees its counter return to zero')
    # end condition
    ctrs = sorted(set(names.values()))

    def all_zero(test):
        """Does (a conjunct of) the test require every counter to be zero?"""
        for c in ast.walk(test):
            if isinstance(c, ast.Compare) and all(isinstance(o, ast.Eq) for o in c.ops):
                terms = [text(x) for x in [c.left] + c.comparators]
                if '0' in terms and set(ctrs) <= set(terms):
                    return True
        conj = [text(x) for x in ast.walk(test) if isinstance(x, ast.Compare) and len(x.ops) == 1 and isinstance(x.ops[0], ast.Eq) and const(x.comparators[0]) == 0]
        return all(any(t.startswith(c + ' ') for t in conj) for c in ctrs)

    ends = [n for n in ast.walk(loop) if isinstance(n, ast.If) and len(ctrs) == 3 and all_zero(n.test) and any(isinstance(x, ast.Break) for x in n.body)]
    chk.ob(rid, UTIL, 'Base._tokensupto2', 'the slice ends only with all counters at zero', len(ends) == 1, f'{len(ends)} end tests')
    eof = [n for n in loop.body if isinstance(n, ast.If) and ("'EOF' == typ" in text(n.test) or "typ == 'EOF'" in text(n.test)) and any(isinstance(x, ast.Break) for x in n.body)]
    ok = bool(eof) and loop.body.index(eof[0]) <= 1
    chk.ob(rid, UTIL, 'Base._tokensupto2', 'EOF ends the slice before anything else is looked at', ok, 'an EOF token inside a skipped construct would be consumed')


def r04f(chk, rid='R04.f'):
    chk.rule(rid, 'end of input inside @media: when the token that ends the block of CSSMediaRule._setCssText is EOF, that EOF token itself is handed on with the tokens of the contained rules (unconditionally, before the variable is re-bound to the synthetic "}"), so that every construct that is still open - at any nesting depth - completes itself the way it does at the end of a sheet')
    m = chk.repo.mod(MEDIA)
    fn = m.get('CSSMediaRule._setCssText')
    branches = []
    for n in ast.walk(fn):
        if isinstance(n, ast.If) and "'EOF'" in text(n.test) and m.enclosing_def(n) is fn:
            calls = [c for c in ast.walk(n.test) if isinstance(c, ast.Call) and call_name(c) == 'self._type' and c.args and isinstance(c.args[0], ast.Name)]
            if calls:
                branches.append((n, calls[0].args[0].id))
    if len(branches) != 1:
        raise AnalysisError(f'CSSMediaRule._setCssText: {len(branches)} end-of-input branches found (1 expected)')
    node, var = branches[0]
    handed = None
    rebound = None
    for i, st in enumerate(node.body):
        if rebound is None and isinstance(st, ast.Assign) and any(isinstance(t, ast.Name) and t.id == var for t in st.targets):
            rebound = i
        if handed is None and isinstance(st, ast.Expr) and isinstance(st.value, ast.Call) and isinstance(st.value.func, ast.Attribute) and st.value.func.attr == 'append' \
                and st.value.args and isinstance(st.value.args[0], ast.Name) and st.value.args[0].id == var:
            handed = i
    ok = handed is not None and (rebound is None or handed < rebound)
    chk.ob(rid, MEDIA, 'CSSMediaRule._setCssText', f'the EOF token `{var}` is appended to the contained tokens, unconditionally and before `{var}` is re-bound', ok,
           'the contained rules do not see the end of input (or only a synthetic "}"): a rule nested two or more blocks deep is cut short and dropped with its complete declarations')
