#!/venv/bin/python
"""Run the repository's pinned test suite (guard off) and compare with
/root/.vp/BASELINE.json: exit 0 iff every stable test still passes.
usage: baseline.py [repo_dir]"""
import json, os, subprocess, sys, tempfile
import xml.etree.ElementTree as ET

repo = sys.argv[1] if len(sys.argv) > 1 else '/repo'
base = json.load(open('/root/.vp/BASELINE.json'))
fd, out = tempfile.mkstemp(suffix='.xml'); os.close(fd)
env = dict(os.environ); env.pop('CSSUTILS_VERIF', None)
subprocess.run(['/venv/bin/python', '-m', 'pytest', '-q', '-p', 'no:cacheprovider', '--timeout=900',
                '--continue-on-collection-errors', f'--junitxml={out}'], cwd=repo, env=env,
               stdout=subprocess.DEVNULL, stderr=subprocess.DEVNULL)
passed = set()
for tc in ET.parse(out).getroot().iter('testcase'):
    if not any(c.tag in ('failure', 'error', 'skipped') for c in tc):
        passed.add(f"{tc.get('classname')}::{tc.get('name')}")
os.unlink(out)
missing = [t for t in base['stable_pass'] if t not in passed]
print(f'stable={len(base["stable_pass"])} passing_now={len(passed)} stable_now_failing={len(missing)}')
for t in missing[:20]:
    print('  FAIL', t)
sys.exit(1 if missing else 0)
