"""E6 - extraction of the literal tables the rules reason about.  Every extractor
fails closed (AnalysisError) when the shape it reads has changed."""
from __future__ import annotations

import ast
import re

from sa import rx
from sa.core import AnalysisError, call_name, const, literal, text, walk_local


# ---------------------------------------------------------------------------
# tokenizer


def _re_calls(fn, name):
    out = []
    for n in ast.walk(fn):
        if isinstance(n, ast.Call) and call_name(n) == name:
            out.append(n)
    return out


def _bound_value(m, fn, name):
    """The single expression a name is bound to, in `fn` or at module level."""
    binds = [st.value for st in ast.walk(fn) if isinstance(st, ast.Assign) and any(isinstance(t, ast.Name) and t.id == name for t in st.targets)]
    if not binds and m is not None:
        binds = [st.value for st in m.tree.body if isinstance(st, ast.Assign) and any(isinstance(t, ast.Name) and t.id == name for t in st.targets)]
    return binds[0] if len(binds) == 1 else None


def pattern_literal(m, fn, expr, depth=0):
    """The literal pattern behind an expression: a string, a name bound once to one, or
    re.compile(<such>) (flags are not accepted here)."""
    if depth > 3 or expr is None:
        return None
    if isinstance(const(expr), str):
        return expr.value
    if isinstance(expr, ast.Call) and call_name(expr) == 're.compile' and len(expr.args) == 1 and not expr.keywords:
        return pattern_literal(m, fn, expr.args[0], depth + 1)
    if isinstance(expr, ast.Name):
        return pattern_literal(m, fn, _bound_value(m, fn, expr.id), depth + 1)
    return None


def expansion_regexes(fn, what, m=None):
    """(search regex, sub regex, wrapper) used by an ``_expand_macros`` function.  The two
    patterns may be literals, names bound once to literals, or precompiled (also at module level)."""
    found = {'search': [], 'sub': []}
    for n in ast.walk(fn):
        if isinstance(n, ast.Call) and isinstance(n.func, ast.Attribute) and n.func.attr in found:
            if text(n.func.value) == 're':
                found[n.func.attr].append(pattern_literal(m, fn, n.args[0]) if n.args else None)
            elif isinstance(n.func.value, ast.Name):
                pl = pattern_literal(m, fn, n.func.value)
                if pl is not None or isinstance(_bound_value(m, fn, n.func.value.id), ast.Call):
                    found[n.func.attr].append(pl)
    if len(found['search']) != 1 or len(found['sub']) != 1:
        raise AnalysisError(f'{what}: expected one regex search and one regex sub')
    search_re, sub_re = found['search'][0], found['sub'][0]
    if not isinstance(search_re, str) or not isinstance(sub_re, str):
        raise AnalysisError(f'{what}: expansion regexes are not literals')
    wrap = None
    for n in ast.walk(fn):
        if isinstance(n, ast.BinOp) and isinstance(n.op, ast.Mod) and isinstance(const(n.left), str):
            if '%s' in n.left.value and 'macro' in text(n.right):
                wrap = n.left.value
    if wrap is None:
        raise AnalysisError(f'{what}: macro wrapper not found')
    return search_re, sub_re, wrap


class TokTables:
    def __init__(self, repo):
        pm = repo.mod('cssutils/cssproductions.py')
        self.macros = literal(pm.global_assign('MACROS'), 'MACROS')
        self.productions = literal(pm.global_assign('PRODUCTIONS'), 'PRODUCTIONS')
        if not isinstance(self.macros, dict) or not isinstance(self.productions, list):
            raise AnalysisError('MACROS/PRODUCTIONS have an unexpected type')
        self.dximage = literal(pm.global_assign('_DXImageTransform'), '_DXImageTransform')
        # the expansion and compilation steps are evaluated from the source (whatever their shape): the compiled
        # matchers give the full pattern, the flags and the way a production is applied
        from sa.absint import Evaluator, Raised, Record

        tm = repo.mod('cssutils/tokenize2.py')
        self._tm = tm
        self._me = Record()
        self._exp = tm.get('Tokenizer._expand_macros')
        self._comp = tm.get('Tokenizer._compile_productions')
        probe = self._compile([('X', 'a{nl}b')], {'nl': 'N'})
        pat = probe[0][1]
        if not pat.endswith('a(?:N)b') and 'a(?:N)b' not in pat:
            raise AnalysisError(f'Tokenizer._expand_macros: a macro is not expanded to (?:...) ({pat!r})')
        self.compile_wrap = pat.replace('a(?:N)b', '%s')
        self.wrap = '(?:%s)'
        self.flags = probe[0][2]
        self._nfa = {}

    def _compile(self, productions, macros=None):
        """[(name, full pattern, flags)] of productions, through the source's own expansion and compilation."""
        from sa.absint import Evaluator, Raised

        macros = self.macros if macros is None else macros
        exp_params = [a.arg for a in self._exp.args.args][1:]
        try:
            expanded = Evaluator(self._exp, module=self._tm, cls='Tokenizer').run(self=self._me, **dict(zip(exp_params, (macros, list(productions)))))
        except KeyError as e:
            raise AnalysisError(f'macro {e} is undefined')
        if isinstance(expanded, Raised):
            if expanded.kind == 'KeyError':
                raise AnalysisError('a macro that a production uses is undefined')
            raise AnalysisError(f'Tokenizer._expand_macros: {expanded!r}')
        comp_params = [a.arg for a in self._comp.args.args][1:]
        compiled = Evaluator(self._comp, module=self._tm, cls='Tokenizer').run(self=self._me, **{comp_params[0]: expanded})
        if isinstance(compiled, Raised):
            raise AnalysisError(f'Tokenizer._compile_productions: {compiled!r}')
        out = []
        for name, matcher in compiled:
            pat = getattr(matcher, '__self__', None)
            if not isinstance(pat, re.Pattern) or getattr(matcher, '__name__', '') != 'match':
                raise AnalysisError('Tokenizer._compile_productions: productions are no longer applied with .match of a compiled pattern')
            out.append((name, pat.pattern, int(pat.flags) & ~int(re.UNICODE) | (int(re.UNICODE) if isinstance(pat.pattern, str) else 0)))
        return out

    def expand(self, pattern):
        full = self._compile([('X', pattern)])[0][1]
        pre, post = self.compile_wrap.split('%s')
        if not (full.startswith(pre) and full.endswith(post)):
            raise AnalysisError('Tokenizer._compile_productions: wrapper changed between calls')
        return full[len(pre):len(full) - len(post)]

    def full(self, name):
        for n, p in self.productions:
            if n == name:
                return self._compile([(n, p)])[0][1]
        raise AnalysisError(f'production {name} vanished')

    def nfa(self, name):
        if name not in self._nfa:
            self._nfa[name] = rx.compile_nfa(self.full(name), self.flags)
        return self._nfa[name]

    def macro_nfa(self, macro):
        key = '{' + macro + '}'
        if key not in self._nfa:
            if macro not in self.macros:
                raise AnalysisError(f'macro {macro} vanished')
            self._nfa[key] = rx.compile_nfa('(?:%s)' % self.expand(self.macros[macro]), self.flags)
        return self._nfa[key]

    def names(self):
        return [n for n, _ in self.productions]


def _flags(node):
    val = 0
    for n in ast.walk(node):
        if isinstance(n, ast.Attribute) and isinstance(n.value, ast.Name) and n.value.id == 're':
            f = getattr(re, n.attr, None)
            if f is None:
                raise AnalysisError(f'unknown re flag {n.attr}')
            val |= int(f)
    return val


def class_regex(mod, cls, name):
    """(pattern, flags, method) of ``name = re.compile(PATTERN[, FLAGS]).method``
    in a class body or at module level (cls=None)."""
    node = mod.class_assign(cls, name) if cls else mod.global_assign(name)
    method = None
    if isinstance(node, ast.Attribute):
        method = node.attr
        node = node.value
    if not (isinstance(node, ast.Call) and call_name(node) == 're.compile'):
        raise AnalysisError(f'{mod.rel}: {cls}.{name} is not re.compile(...)')
    pat = const(node.args[0])
    if not isinstance(pat, str):
        raise AnalysisError(f'{mod.rel}: {cls}.{name}: pattern is not a literal')
    flags = _flags(node.args[1]) if len(node.args) > 1 else 0
    return pat, flags, method


# ---------------------------------------------------------------------------
# profiles


class ProfileTables:
    """The validation tables of profiles.py: token macros, general macros, and
    per profile the macros / properties dict literals, keyed by the profile
    constant's *attribute name* (CSS_LEVEL_2 ...)."""

    def __init__(self, repo):
        m = repo.mod('cssutils/profiles.py')
        self.mod = m
        self.token_macros = literal(m.class_assign('Profiles', '_TOKEN_MACROS'))
        self.general_macros = literal(m.class_assign('Profiles', '_MACROS'))
        self.const_names = {}
        c = m.get('Profiles', ast.ClassDef)
        for st in c.body:
            if isinstance(st, ast.Assign) and isinstance(const(st.value), str):
                for t in st.targets:
                    if isinstance(t, ast.Name) and t.id.isupper():
                        self.const_names[t.id] = st.value.value
        self.macros = {}
        self.properties = {}
        for st in m.tree.body:
            if isinstance(st, ast.Assign) and len(st.targets) == 1:
                t = st.targets[0]
                if (
                    isinstance(t, ast.Subscript)
                    and isinstance(t.value, ast.Name)
                    and t.value.id in ('macros', 'properties')
                ):
                    key = t.slice
                    if not (isinstance(key, ast.Attribute) and text(key.value) == 'Profiles'):
                        raise AnalysisError(f'profiles.py: unexpected table key {text(key)}')
                    if isinstance(st.value, ast.Dict):
                        d = {}
                        for k, v in zip(st.value.keys, st.value.values):
                            ks = const(k)
                            if not isinstance(ks, str):
                                raise AnalysisError('profiles.py: non-literal key')
                            if isinstance(const(v), str):
                                d[ks] = v.value
                            elif (
                                isinstance(v, ast.Subscript)
                                and isinstance(v.value, ast.Subscript)
                                and isinstance(v.value.value, ast.Name)
                                and v.value.value.id in ('macros', 'properties')
                                and isinstance(v.value.slice, ast.Attribute)
                                and isinstance(const(v.slice), str)
                            ):
                                # reference to an entry of a table defined above
                                src = (self.macros if v.value.value.id == 'macros' else self.properties).get(v.value.slice.attr)
                                if src is None or v.slice.value not in src:
                                    raise AnalysisError(f'profiles.py: {text(v)} refers to an unknown table entry')
                                d[ks] = src[v.slice.value]
                            elif isinstance(v, (ast.Lambda, ast.Name)):
                                d[ks] = None  # a callable validator
                            else:
                                raise AnalysisError(f'profiles.py: value of {ks!r} is neither a pattern nor a callable: {text(v)}')
                        val = d
                    else:
                        raise AnalysisError(f'profiles.py: table {text(t)} is not a dict literal')
                    (self.macros if t.value.id == 'macros' else self.properties)[key.attr] = val
        if len(self.properties) < 9:
            raise AnalysisError('profiles.py: fewer than 9 property tables found')
        # expansion and compilation are evaluated from the source, whatever their shape (as for the tokenizer tables)
        self._exp = m.get('Profiles._expand_macros')
        self._comp = m.get('Profiles._compile_regexes')
        probe = self._compile({'x': 'a{nl}b'}, {'nl': 'N'})
        pat, flags = probe['x']
        if 'a(?:N)b' not in pat:
            raise AnalysisError(f'Profiles._expand_macros: a macro is not expanded to (?:...) ({pat!r})')
        self.compile_wrap = pat.replace('a(?:N)b', '%s')
        self.wrap = '(?:%s)'
        self.flags = flags
        # which macro table each profile is registered with (Profiles.__init__)
        init = m.get('Profiles.__init__')
        self.registration = []  # (profile const, properties const, macros const)
        for n in ast.walk(init):
            if isinstance(n, ast.Tuple) and len(n.elts) == 3:
                a, b, c3 = n.elts
                if (
                    isinstance(a, ast.Attribute)
                    and isinstance(b, ast.Subscript)
                    and isinstance(c3, ast.Subscript)
                    and text(b.value) == 'properties'
                    and text(c3.value) == 'macros'
                ):
                    self.registration.append((a.attr, b.slice.attr, c3.slice.attr))
        if len(self.registration) < 9:
            raise AnalysisError('Profiles.__init__: profile registration list not recognised')

    def bulk_macros(self):
        """Macro environment after the bulk ``addProfiles`` of ``__init__``:
        token macros, general macros, then every profile's macros in order."""
        env = dict(self.token_macros)
        env.update(self.general_macros)
        for prof, props, mac in self.registration:
            env.update(self.macros[mac])
        return env

    def _fresh(self):
        """A registry object as Profiles.__init__ leaves it before any profile is registered (so that
        attributes the expansion keeps on the registry exist), without its own registration."""
        import copy

        from sa.absint import Evaluator, Raised, Record

        init = copy.deepcopy(self.mod.get('Profiles.__init__'))
        init.body = [st for st in init.body if not (isinstance(st, ast.Expr) and isinstance(st.value, ast.Call) and call_name(st.value) in ('self.addProfiles', 'self.addProfile'))]
        me = Record()
        r = Evaluator(init, module=self.mod, cls='Profiles').run(self=me, log=None)
        if isinstance(r, Raised):
            raise AnalysisError(f'Profiles.__init__: {r!r}')
        return me

    def _compile(self, dictionary, env):
        """{name: (full pattern, flags)} through the source's own _expand_macros and _compile_regexes."""
        from sa.absint import Evaluator, Raised, Record

        class Lazy(Record):
            def __init__(self, pattern, flags=0):
                Record.__init__(self, pattern=pattern, flags=int(flags))

        me = self._fresh()
        ep = [a.arg for a in self._exp.args.args][1:]
        try:
            expanded = Evaluator(self._exp, module=self.mod, cls='Profiles').run(self=me, **dict(zip(ep, (dict(dictionary), dict(env)))))
        except KeyError as e:
            raise AnalysisError(f'macro {e} is undefined')
        if isinstance(expanded, Raised):
            raise AnalysisError(f'Profiles._expand_macros: {expanded!r}' + (' (a macro is undefined)' if expanded.kind == 'KeyError' else ''))
        cp = [a.arg for a in self._comp.args.args][1:]
        compiled = Evaluator(self._comp, intrinsics={'util': Record(LazyRegex=Lazy), 'util.LazyRegex': Lazy, 'LazyRegex': Lazy}, module=self.mod, cls='Profiles', model_types=(Lazy, re.Pattern)).run(self=me, **{cp[0]: expanded})
        if isinstance(compiled, Raised):
            raise AnalysisError(f'Profiles._compile_regexes: {compiled!r}')
        out = {}
        for k, v in compiled.items():
            if isinstance(v, (Lazy, re.Pattern)):
                out[k] = (v.pattern, int(v.flags) & ~int(re.UNICODE))
            else:
                raise AnalysisError(f'Profiles._compile_regexes: {k!r} is compiled to {type(v).__name__}')
        return out

    def expand(self, pattern, env):
        full = self._compile({'x': pattern}, env)['x'][0]
        pre, post = self.compile_wrap.split('%s')
        if not (full.startswith(pre) and full.endswith(post)):
            raise AnalysisError('Profiles._compile_regexes: wrapper changed between calls')
        return full[len(pre):len(full) - len(post)]
