"""C03 - serialise then parse is lossless; serialisation is a fixpoint
(reader/writer table agreement)."""
from __future__ import annotations

import ast

from sa import rx
from sa.core import resolve_collection, AnalysisError, call_name, const, text

from .tables import TokTables, class_regex

HELPER = 'cssutils/helper.py'
TOK = 'cssutils/tokenize2.py'
SER = 'cssutils/serialize.py'


def run(chk):
    chk.attempt(r03a, chk)
    chk.attempt(r03b, chk)
    chk.attempt(r03c, chk)
    chk.attempt(r03d, chk)
    from .c16 import r16b

    chk.attempt(r16b, chk, 'R03.e')
    chk.attempt(r03f, chk)
    chk.attempt(r03g, chk)
    chk.attempt(r03h, chk)
    from .c18 import r18i

    chk.attempt(r18i, chk, 'R03.i')


def raw_allowed(nfa_node):
    """Union of the single-character alternatives inside the first repeated
    group of a token pattern = characters the reader accepts unescaped."""
    def find_rep(n):
        if n[0] == 'rep':
            return n
        if n[0] in ('cat', 'alt'):
            for x in n[1]:
                r = find_rep(x)
                if r is not None:
                    return r
        return None

    rep = find_rep(nfa_node)
    if rep is None:
        raise AnalysisError('token pattern has no repeated body')
    body = rep[1]
    alts = body[1] if body[0] == 'alt' else [body]
    cs = rx.EMPTY
    for a in alts:
        if a[0] == 'cs':
            cs = cs | a[1]
    if not cs:
        raise AnalysisError('no raw character class found in the token body')
    return cs


def writer_escapes(m, fn, chars):
    """{char: replacement} of helper.string, read off its syntax tree by evaluating it on
    x<char>x for every candidate character (the function only replaces substrings, so the
    image of a character between two neutral ones is its replacement)."""
    from sa.absint import Evaluator, Raised

    out = {}
    for ch in chars:
        got = Evaluator(fn, module=m).run(value='x' + ch + 'x')
        if isinstance(got, Raised) or not isinstance(got, str) or len(got) < 4 or not (got[1] == 'x' and got[-2] == 'x'):
            raise AnalysisError(f'helper.string: unexpected result {got!r} for {ch!r}')
        if got[2:-2] != ch:
            out[ch] = got[2:-2]
    return out


def r03a(chk, rid='R03.a'):
    chk.rule(rid, 'strings: every character the STRING production refuses unescaped inside "..." (read from the macro string1 as an exact character set) is escaped by the writer helper.string (read from its chain of replace calls), and every escape the writer emits is accepted by the reader\'s escape grammar')
    tt = TokTables(chk.repo)
    node = rx.parse('(?:%s)' % tt.expand(tt.macros['string1']), tt.flags)
    allowed = raw_allowed(node)
    forbidden = allowed.negate()
    m = chk.repo.mod(HELPER)
    fn = m.get('string')
    from sa.absint import Evaluator

    esc = writer_escapes(m, fn, forbidden.chars(limit=40) + ["'"])
    # a value never ends in a way that escapes the closing quote: a parsed value that ends with n
    # escaped backslashes is stored with 2n-1 of them
    for k in (1, 3, 5):
        got = Evaluator(fn, module=m).run(value='dir' + '\\' * k)
        body = got[1:-1] if isinstance(got, str) and len(got) >= 2 else ''
        trail = len(body) - len(body.rstrip('\\'))
        chk.ob(rid, HELPER, 'string', f'a value ending in {k} backslash(es) is written with an even number of them before the closing quote', isinstance(got, str) and got.endswith('"') and trail % 2 == 0,
               f'written as {got!r}: the last backslash escapes the closing quote and the string swallows what follows')
    plain = Evaluator(fn, module=m).run(value='x')
    chk.ob(rid, HELPER, 'string', 'the writer always uses double quotes (the reader side is string1)', plain == '"x"', f"string('x') gives {plain!r}")
    names = {'\n': 'line feed', '\r': 'carriage return', '\f': 'form feed', '\\': 'backslash', '"': 'double quote'}
    for ch in forbidden.chars(limit=40):
        ok = ch in esc
        chk.ob(rid, HELPER, 'string', f'{names.get(ch, repr(ch))} (refused raw by the reader) is escaped by the writer', ok,
               'written raw inside "...": the reparse reads something else (a decoded backslash followed by hex digits becomes an escape, e.g. content:"\\5c 62" -> "\\62" -> "b")')
    chk.ob(rid, 'cssutils/cssproductions.py', 'MACROS', f'reader refuses exactly {forbidden!r} raw in a double-quoted string', forbidden.size() == 5, f'{forbidden.size()} characters')
    # what the writer emits must be readable
    escape = tt.macro_nfa('escape')
    nl = rx.compile_nfa(r'\\(?:%s)' % tt.expand(tt.macros['nl']), tt.flags)
    for ch, rep in sorted(esc.items()):
        ok = rx.accepts(escape, rep) or rx.accepts(nl, rep)
        chk.ob(rid, HELPER, 'string', f'escape {rep!r} written for {ch!r} is an escape the reader accepts', ok, 'the reader cannot decode what the writer emits')
        if rep.startswith('\\') and len(rep) > 2 and rep[1:].strip().isalnum():
            code = int(rep[1:].strip(), 16)
            chk.ob(rid, HELPER, 'string', f'escape {rep!r} denotes {ch!r}', code == ord(ch) and rep.endswith(' '), f'denotes U+{code:04X}; or lacks the terminating space')


def r03b(chk, rid='R03.b'):
    chk.rule(rid, 'url(): every character the URI production refuses in an unquoted url(...) (exact set from the macro url) makes helper.uri switch to the quoted form (set from the class in _match_forbidden_in_uri); the quoted form is written by helper.string')
    tt = TokTables(chk.repo)
    node = rx.parse('(?:%s)' % tt.expand(tt.macros['url']), tt.flags)
    alts = node[1] if node[0] == 'alt' else [node]
    allowed = rx.EMPTY
    for a in alts:
        if a[0] == 'cs':
            allowed = allowed | a[1]
    refused = allowed.negate()
    m = chk.repo.mod(HELPER)
    from sa.absint import Evaluator, Raised

    ufn = m.get('uri')
    if refused.size() > 200:
        raise AnalysisError(f'the URI token refuses {refused.size()} characters unquoted (an ASCII subset was expected)')
    unquoted = []
    for ch in refused.chars(limit=200):
        if ch == '\\':
            continue  # allowed raw by the url class itself (it overlaps with {escape}); reported under R03.a
        for value in ('a' + ch + 'b', ch + 'b', 'a' + ch, 'a\nb' + ch):
            got = Evaluator(ufn, module=m).run(value=value)
            if isinstance(got, Raised) or not (isinstance(got, str) and got.startswith('url("') and got.endswith('")')):
                unquoted.append((ch, value, got))
                break
    chk.ob(rid, HELPER, 'uri', f'each of the {refused.size()} characters the reader refuses in an unquoted url(...) triggers quoting, wherever it stands (by evaluation of helper.uri)', not unquoted,
           f'{[(repr(c), repr(g)) for c, v, g in unquoted[:4]]} written unquoted although url(...) cannot contain it: the value is lost on reparse')
    fn = m.get('uri')
    from sa.absint import Evaluator, Raised

    for v, quoted in (('img.png', False), ('a b.png', True), ('a)b', True), ('q"x', True), ("q'x", True), ('t\tab', True), ('x\x01y', True), ('', False), ('caf\xe9.png', False)):
        got = Evaluator(fn, module=m).run(value=v)
        want = 'url(' + (Evaluator(m.get('string'), module=m).run(value=v) if quoted else v) + ')'
        chk.ob(rid, HELPER, 'uri', f'{v!r} is written ' + ('in the quoted form helper.string produces' if quoted else 'unquoted') + ' (by evaluation)', got == want, f'{got!r}, prescribed {want!r}')


DECODED_NEEDED_REASON = 'the serializer encodes the whole sheet text with the escapecss handler, so any token that may contain a non-ASCII character can come back as \\HEX and has to be decoded by the tokenizer'


def r03c(chk, rid='R03.c'):
    chk.rule(rid, 'decode/encode symmetry by token kind: ' + DECODED_NEEDED_REASON + '; kinds whose production can match a non-ASCII character (decided on the automata) must be decoded by the tokenizer (which kinds are is read off by evaluating Tokenizer.tokenize on a token of each kind that holds an escape); the serializer re-escapes exactly STRING and URI values, the remaining decoded kinds are the known "identifier escapes are not re-encoded" finding, which must not grow')
    tt = TokTables(chk.repo)
    # which kinds the tokenizer decodes is read off by evaluating Tokenizer.tokenize itself (see R05.i) on one
    # token of each kind that holds the escape \e9
    from sa.absint import Raised as _Raised

    from .c05 import tokenize_text

    samples = {'IDENT': 'a\\e9 b', 'ATKEYWORD': '@a\\e9 b', 'STRING': '"a\\e9 b"', 'INVALID': '"a\\e9 b', 'HASH': '#a\\e9 b', 'DIMENSION': '1a\\e9 b', 'URI': 'url(a\\e9 b)',
               'FUNCTION': 'a\\e9 b(', 'COMMENT': '/*a\\e9 b*/'}
    decoded = set()
    for kind, sample in samples.items():
        toks = tokenize_text(chk.repo, sample, fullsheet=False)
        if isinstance(toks, _Raised) or not toks or toks[0][0] != kind:
            raise AnalysisError(f'R03.c: the sample {sample!r} is not tokenised as one {kind} token ({toks!r})')
        if '\xe9' in toks[0][1] and '\\' not in toks[0][1]:
            decoded.add(kind)
    chk.extra['decoded_kinds'] = sorted(decoded)
    nonascii = rx.CS([(0x80, rx.MAXCP)])
    can = set()
    for name in tt.names():
        nfa = tt.nfa(name)
        if any(cs & nonascii for cs in nfa.cs):
            can.add(name)
    for k in sorted(can - {'BOM', 'CHAR'}):
        chk.ob(rid, TOK, 'Tokenizer.tokenize', f'{k} tokens (can contain non-ASCII text) are decoded', k in decoded,
               'an escaped non-ASCII character written for a non-Unicode target encoding is not decoded on reparse: the value changes and the second serialisation differs')
    chk.extra['token_kinds_with_nonascii'] = sorted(can)
    # writer side
    sm = chk.repo.mod(SER)
    ap = sm.get('Out.append')
    re_esc = set()
    for n in ast.walk(ap):
        if isinstance(n, ast.If) and isinstance(n.test, ast.Compare) and text(n.test.comparators[0]) == 'type_' and isinstance(const(n.test.left), str):
            if any('helper.' in text(s) for s in n.body):
                re_esc.add(n.test.left.value)
    chk.ob(rid, SER, 'Out.append', 'STRING and URI values are re-escaped when written', {'STRING', 'URI'} <= re_esc, str(sorted(re_esc)))
    gap = decoded - re_esc - {'COMMENT', 'INVALID'}
    allowed_gap = {'DIMENSION', 'IDENT', 'HASH', 'FUNCTION', 'UNICODE-RANGE'}
    chk.ob(rid, TOK, 'Tokenizer.tokenize', 'identifier-like kinds are decoded but never re-encoded (a name such as \\31 a is written as 1a)', not (gap & allowed_gap),
           f'kinds {sorted(gap & allowed_gap)}: hex escapes that are needed to keep an identifier valid are lost')
    chk.ob(rid, TOK, 'Tokenizer.tokenize', 'the decode-only set has not grown', gap <= allowed_gap, f'new kinds: {sorted(gap - allowed_gap)}')


def r03d(chk, rid='R03.d'):
    chk.rule(rid, 'one serializer method per DOM class: every cssutils.ser.do_X a DOM getter refers to exists on CSSSerializer')
    sm = chk.repo.mod(SER)
    have = {q.split('.')[1] for q, f in sm.functions() if q.startswith('CSSSerializer.do_') and q.count('.') == 1}
    used = {}
    for rel, m in chk.repo.modules.items():
        if rel in ('cssutils/sac.py', 'cssutils/css/cssvalue.py'):
            continue
        for n in ast.walk(m.tree):
            if isinstance(n, ast.Attribute) and n.attr.startswith('do_') and (text(n.value) in ('cssutils.ser', 'self', 'self.ser', 'ser')):
                used.setdefault(n.attr, set()).add(rel)
    if len(used) < 20:
        raise AnalysisError(f'only {len(used)} serializer entry points found')
    for name in sorted(used):
        chk.ob(rid, SER, 'CSSSerializer', f'{name} exists (used in {sorted(used[name])[0]})', name in have, 'a DOM class serialises through a method that does not exist: AttributeError at cssText')
    # unused do_* methods are dead code, not a violation of the property: recorded only
    chk.extra['unused_serializer_methods'] = sorted(have - set(used))


STRING_TOKENS = ('"plain"', "'plain'", '"say \\"hi\\""', "'it\\'s'", '"it\'s"', "'a\"b'", '""')


def _ref_string_decode(t):
    """CSS 2.1 4.3.7: the value of a string token is what stands between the quotes, an escaped
    quote character standing for itself (other escapes are kept as they are by this library)."""
    q = t[0]
    return t[1:-1].replace('\\' + q, q)


def string_callbacks(chk):
    """(rel, owner, callback target, kind) of every production callback registered for STRING tokens."""
    from .callbacks import callbacks

    return [cb for cb in callbacks(chk.repo)[1] if cb.key == 'STRING' and isinstance(cb.target, ast.FunctionDef)]


def r03f(chk, rid='R03.f'):
    chk.rule(rid, 'STRING tokens are decoded where they are stored and re-encoded where they are written, decided by evaluation: (1) Base._stringtokenvalue is evaluated on quoted tokens with escaped quotes of both kinds and gives the text between the quotes with the escaped quote resolved; (2) every production callback registered for STRING tokens (found in the dispatch tables of the _parse sites and of New.productions) is evaluated, inside its enclosing function, on those tokens for every expectation it accepts: the value it appends to the sequence is the decoded value; (3) for the selector handler the stored item is written by CSSSerializer.do_css_Selector through the source\'s own Out.append and helper.string: the text is one STRING token of the reader (automaton of the STRING production) and decodes to the same value')
    chk.assume('R03.f: the tokenizer, logging and the parse loop are stubs; a callback is run with each expectation string that occurs as a literal in its enclosing function')
    from sa.absint import Evaluator, Obj, Raised, Record

    from .c06 import out_model
    from .tables import TokTables

    um = chk.repo.mod('cssutils/util.py')
    dec = um.get('Base._stringtokenvalue')

    def decode(tok):
        return Evaluator(dec, module=um, cls='Base').run(self=Record(), token=tok)

    for t in STRING_TOKENS:
        got = decode(('STRING', t, 1, 1))
        chk.ob(rid, 'cssutils/util.py', 'Base._stringtokenvalue', f'{t} decodes to the text between the quotes, escaped quote resolved', got == _ref_string_decode(t), f'gives {got!r}, expected {_ref_string_decode(t)!r}')

    tt = TokTables(chk.repo)
    string_nfa = tt.nfa('STRING')
    serm = chk.repo.mod(SER)
    hm = chk.repo.mod(HELPER)
    cbs = string_callbacks(chk)
    if len(cbs) < 4:
        raise AnalysisError(f'only {len(cbs)} STRING callbacks found (4 confirmed by hand)')
    n = 0
    for cb in cbs:
        m = chk.repo.mod(cb.rel)
        cls = cb.owner.split('.')[0]
        outer = m.get(cb.owner)
        appended = []

        class Seq(list):
            def append(self, val, typ=None, line=None, col=None, **k):  # noqa: A003
                appended.append((val, typ))

        log = Record(error=lambda *a, **k: None, warn=lambda *a, **k: None, info=lambda *a, **k: None, debug=lambda *a, **k: None)
        if cb.owner == 'New.productions':
            # a method of the selector's helper class: run it directly in the contexts that accept a string
            sel = Record(_type=lambda tok: tok[0], _tokenvalue=lambda tok, normalize=False: tok[1], _stringtokenvalue=decode)
            cases = []
            for ctx, exp in (('attrib', 'value'), ('pseudo-class', 'expression')):
                for t in STRING_TOKENS:
                    del appended[:]
                    me = Record(context=[ctx], selector=sel, wellformed=True, _log=log)
                    me.append = lambda seq, v, typ=None, token=None: appended.append((v, typ))
                    res = Evaluator(cb.target, intrinsics={'self._log.error': log.error}, module=m, cls='New').run(self=me, expected=exp, seq=[], token=('STRING', t, 1, 1))
                    cases.append((f'{ctx}', t, res, list(appended)))
        else:
            exps = sorted({c.value for c in ast.walk(outer) if isinstance(c, ast.Constant) and isinstance(c.value, str) and 0 < len(c.value) < 30 and not c.value[0].isupper()} | {'EOF'})
            cases = []

            def driver(expected, seq, tokenizer, productions, default=None, **kw):
                fn = dict(productions).get('STRING')
                if fn is None:
                    return True, expected
                for exp in exps:
                    for t in STRING_TOKENS:
                        del appended[:]
                        res = fn(exp, Seq(), ('STRING', t, 1, 1), tokenizer)
                        cases.append((exp, t, res, list(appended)))
                return True, expected

            me = Obj(_tokenize2=lambda t: 'TOKENIZER', _nexttoken=lambda *a, **k: ('AT', '@x', 1, 1), _type=lambda tok: 'AT', _tokenvalue=lambda tok, normalize=False: tok[1],
                     _stringtokenvalue=decode, _uritokenvalue=lambda tok: tok[1], _valuestr=lambda t: t, _log=log, _tempSeq=lambda: Seq(), _setSeq=lambda s: None,
                     _prods=Record(IMPORT_SYM='AT', NAMESPACE_SYM='AT', ATKEYWORD='AT', STRING='STRING', URI='URI', IDENT='IDENT'), _checkReadonly=lambda: None,
                     _parentStyleSheet=None, parentStyleSheet=None, parentRule=None, _namespaceURI=None, _prefix=None, atkeyword=None)
            intr = {'super': lambda *a: Record(_setCssText=lambda t: None), 'self._parse': driver, 'self._log.error': log.error, 'self._log.warn': log.warn, 'self._log.info': log.info,
                    'xml': Record(dom=Record(InvalidModificationErr='InvalidModificationErr', SyntaxErr='SyntaxErr', NamespaceErr='NamespaceErr', HierarchyRequestErr='HierarchyRequestErr', NoModificationAllowedErr='NoModificationAllowedErr'))}
            try:
                Evaluator(outer, intrinsics=intr, module=m, cls=cls, attr_ok=lambda *a: True).run(self=me, cssText='text')
            except Exception as e:  # the prologue/epilogue models are loose; only the callback runs count
                if not cases:
                    raise AnalysisError(f'{cb.rel}:{cb.owner}: evaluation up to _parse failed: {e!r}')
        stored = [(exp, t, ap) for exp, t, res, ap in cases if ap and not isinstance(res, Raised)]
        if not stored:
            raise AnalysisError(f'{cb.rel}:{cb.qual}: the STRING callback stored nothing in any of {len(cases)} evaluated cases')
        bad = [(exp, t, ap) for exp, t, ap in stored if [v for v, typ in ap] != [_ref_string_decode(t)] * len(ap)]
        n += len(stored)
        chk.ob(rid, cb.rel, cb.qual, f'the value stored for a STRING token is the decoded string ({len(stored)} cases)', not bad,
               '; '.join(f'{t} (expected {exp!r}) is stored as {[v for v, _ in ap]!r}' for exp, t, ap in bad[:2]) + ': the writer quotes and escapes the stored value again, so the text written differs from the text read')
        if cb.owner == 'New.productions':
            for ctx, t, res, ap in cases:
                if not ap or isinstance(res, Raised):
                    continue
                v, typ = ap[0]
                prefs = Record(spacer=' ', selectorCombinatorSpacer=' ', keepComments=True, indentClosingBrace=False, listItemSpacer=' ', propertyNameSpacer=' ', paranthesisSpacer=' ', lineSeparator='\n', minimizeColorHash=True)
                ser = Record(prefs=prefs, _level=0)
                selector = Record(wellformed=True, seq=[Record(type=typ, value=v)], _namespaces=Record(get=lambda k, d=None: None, prefixForNamespaceURI=lambda u: 'p'))
                got = Evaluator(serm.get('CSSSerializer.do_css_Selector'), intrinsics={'Out': lambda s: out_model(chk, s), 'cssutils': Record(_ANYNS='ANY')}, module=serm, cls='CSSSerializer').run(self=ser, selector=selector)
                ok = isinstance(got, str) and rx.accepts(string_nfa, got) and decode(('STRING', got, 1, 1)) == _ref_string_decode(t)
                chk.ob(rid, cb.rel, cb.qual, f'{t} in context {ctx} is written as one STRING token with the same value', ok, f'written as {got!r}')
    chk.extra['string_callback_cases'] = n


def r03g(chk, rid='R03.g'):
    chk.rule(rid, 'the item list of an @import rule keeps the order of the grammar under edits, decided by evaluation: CSSImportRule._setMedia is evaluated on its syntax tree (the item list is util.Seq evaluated from the source) for rules whose list holds comments in front of, behind and on both sides of the href, with and without a media and a name item: afterwards the list holds exactly one media item - the new one -, it stands behind the href and in front of the name, and every other item is where it was; so the text written for the edited rule is `@import href media name` and reparses')
    from sa.absint import Evaluator, Obj, Raised, Record

    from .c16b import seq_model

    rel = 'cssutils/css/cssimportrule.py'
    m = chk.repo.mod(rel)
    fn = m.get('CSSImportRule._setMedia')
    shapes = ['H', 'CH', 'HC', 'CHC', 'CCH', 'HN', 'CHN', 'HM', 'CHMN', 'HCN', 'CHCMCN', 'HMC']
    bad = []
    for shape in shapes:
        sq = seq_model(chk.repo)
        for i, k in enumerate(shape):
            sq.append({'C': f'/*{i}*/', 'H': 'a.css', 'M': 'OLDMEDIA', 'N': 'nm'}[k], {'C': 'COMMENT', 'H': 'href', 'M': 'media', 'N': 'name'}[k])
        me = Obj(_checkReadonly=lambda: None, _seq=sq, seq=sq, _media='OLDMEDIA', _log=Record(error=lambda *a, **k: None))
        new = Record(_parentRule=None, tag='NEWMEDIA')
        res = Evaluator(fn, intrinsics={'cssutils': Record(stylesheets=Record(MediaList=lambda **k: new))}, module=m, cls='CSSImportRule', model_types=(type(sq),)).run(self=me, media=new)
        after = [(it.type, it.value) for it in sq]
        want = []
        done = False
        for i, k in enumerate(shape):
            if k == 'M':
                want.append(('media', new))
                done = True
            else:
                want.append(({'C': 'COMMENT', 'H': 'href', 'N': 'name'}[k], {'C': f'/*{i}*/', 'H': 'a.css', 'N': 'nm'}[k]))
                if k == 'H' and 'M' not in shape:
                    want.append(('media', new))
        if isinstance(res, Raised) or after != want or me._media is not new:
            bad.append(f'{shape}: {[t for t, _ in after]}' + (f' ({res!r})' if isinstance(res, Raised) else ''))
    chk.ob(rid, rel, 'CSSImportRule._setMedia', f'the media item replaces the old one or goes directly behind the href ({len(shapes)} item lists)', not bad,
           '; '.join(bad[:3]) + ': the rule is written with the media list in front of its target (or twice), text that does not reparse to the rule')


def r03h(chk, rid='R03.h'):
    chk.rule(rid, 'the writer trims white-space *items*, never the text of an item, decided by evaluation: Out.append / Out.value (evaluated from the source) and '
                  'CSSSerializer.do_css_Selector writing through them are run for item texts that end in an escaped blank (`.a\\ `, `x\\ `), an escaped tab or a '
                  'non-ASCII space (U+00A0, part of an identifier), alone and followed by the single S the writer adds itself: the text returned ends with the '
                  'whole item - a trimmed `\\ ` leaves a backslash that escapes whatever the caller writes next (`,` `;` `{`), so the reparsed sheet differs')
    from sa.absint import Evaluator, Raised, Record

    from .c06 import out_model

    serm = chk.repo.mod(SER)
    prefs = Record(spacer=' ', selectorCombinatorSpacer=' ', keepComments=True, indentClosingBrace=False, listItemSpacer=' ', propertyNameSpacer=' ', paranthesisSpacer=' ', lineSeparator='\n', minimizeColorHash=True)
    ser = Record(prefs=prefs, _level=0)
    n = 0
    for item in ('.a\\ ', 'x\\ ', 'x\\\t', 'a ', '.b\\  '):
        for typ in ('class', 'IDENT', 'type-selector'):
            for keepS in (False, True):
                out = out_model(chk, ser)
                out.append(item, typ)
                got = out.value(keepS=keepS)
                n += 1
                ok = isinstance(got, str) and (got == item or (keepS and got.startswith(item) and not got[len(item):].strip(' ')))
                if not ok or n <= 1:
                    chk.ob(rid, SER, 'Out.value', f'an item {item!r} ({typ}) is returned whole (keepS={keepS})', ok, f'returned {got!r}: the item lost its last character')
        # the same item followed by another one: joined text keeps both
        out = out_model(chk, ser)
        out.append(item, 'IDENT')
        out.append('y', 'IDENT')
        got = out.value()
        n += 1
        ok = isinstance(got, str) and got.startswith(item) and got.endswith('y')
        if not ok:
            chk.ob(rid, SER, 'Out.value', f'an item {item!r} in front of another item is written whole', ok, f'returned {got!r}')
        selector = Record(wellformed=True, seq=[Record(type='class', value=item)], _namespaces=Record(get=lambda k, d=None: None, prefixForNamespaceURI=lambda u: 'p'))
        got = Evaluator(serm.get('CSSSerializer.do_css_Selector'), intrinsics={'Out': lambda s: out_model(chk, s), 'cssutils': Record(_ANYNS='ANY')}, module=serm, cls='CSSSerializer').run(self=ser, selector=selector)
        n += 1
        chk.ob(rid, SER, 'CSSSerializer.do_css_Selector', f'a selector whose last item is {item!r} is written whole', got == item, f'written as {got!r}')
    # and white-space items at the end are removed unless kept
    out = out_model(chk, ser)
    out.append('a', 'IDENT')
    got = out.value()
    chk.ob(rid, SER, 'Out.value', 'the single S the writer adds after an item is removed at the end', got == 'a', f'returned {got!r}')
    chk.ob(rid, SER, 'Out.value', f'all {n} trailing-item cases evaluated', True)
