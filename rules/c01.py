"""C01 - parsing never raises, never hangs (structural necessary conditions)."""
from __future__ import annotations

import ast

from sa import rx  # noqa: E402
import re

from sa import cfg as cfgmod
from sa.cfg import ENTRY, EXIT_RET, walk_expr
from sa.core import AnalysisError, call_name, const, kw, text

from . import tokrules
from .callbacks import callbacks

PARSE = 'cssutils/parse.py'
SER = 'cssutils/serialize.py'


def run(chk):
    chk.attempt(r01a, chk)
    chk.attempt(r01b, chk)
    chk.attempt(tokrules.r01c, chk)
    chk.attempt(tokrules.r01d, chk, thorough=chk.tier == 'thorough')
    if chk.tier == 'thorough':
        from .c13 import profile_eda

        chk.attempt(profile_eda, chk, 'R01.d')
    chk.attempt(r01e, chk)
    chk.attempt(r01f, chk)
    from .c08 import r08c

    chk.attempt(r08c, chk, 'R01.g')
    chk.attempt(r01h, chk)
    chk.attempt(r01i, chk)
    chk.attempt(r01j, chk)
    chk.attempt(r01k, chk)
    from .c10 import r10h

    chk.attempt(r10h, chk, 'R01.l')
    chk.attempt(r01m, chk)
    chk.attempt(r01n, chk)
    from .c01b import r01o

    chk.attempt(r01o, chk, thorough=chk.tier == 'thorough')
    from .c01b import r01p

    chk.attempt(r01p, chk)


# ---------------------------------------------------------------------------
DOM_CTOR = re.compile(r'^(cssutils\.)?(css|stylesheets)\.[A-Z]\w+$')


def dom_nodes(g):
    """CFG nodes that construct or drive DOM objects."""
    bound = set()
    for n in g.nodes:
        if n.kind == 'stmt' and isinstance(n.stmt, ast.Assign):
            for c in walk_expr(n.stmt.value):
                if isinstance(c, ast.Call) and DOM_CTOR.match(call_name(c)):
                    for t in n.stmt.targets:
                        if isinstance(t, ast.Name):
                            bound.add(t.id)
    out = []
    for n in g.nodes:
        for c in cfgmod.calls_at(n):
            cn = call_name(c)
            if DOM_CTOR.match(cn) or cn.split('.')[0] in bound:
                out.append(n)
                break
    return out


def r01a(chk, rid='R01.a'):
    chk.rule(rid, 'log-mode window: in CSSParser.parseString/parseStyle every path from entry to a statement that constructs or drives a DOM object passes __parseSetting(True); parseFile/parseUrl touch the DOM only through parseString')
    from .c12 import FLAG, context_switches, switch_effect, switch_methods, with_switch

    switches = switch_methods(chk.repo.mod(PARSE))
    ctx = context_switches(chk.repo.mod(PARSE), switches)
    for name in ('parseString', 'parseStyle'):
        fn = chk.repo.fn(PARSE, f'CSSParser.{name}')
        g = cfgmod.CFG(fn)
        targets = dom_nodes(g)
        if not targets:
            raise AnalysisError(f'CSSParser.{name}: no DOM construction found')
        on = lambda n: with_switch(ctx, n) or any(switch_effect(switches, c) == 'on' for c in cfgmod.calls_at(n)) or (  # noqa: E731
            n.kind == 'stmt' and isinstance(n.stmt, ast.Assign) and text(n.stmt.targets[0]) == FLAG and '__parseRaising' in text(n.stmt.value))
        if not any(on(n) for n in g.nodes):
            chk.ob(rid, PARSE, f'CSSParser.{name}', 'switches to the parse error mode', False, '__parseSetting(True) is never called')
            continue
        for t in targets:
            seen = g.reachable([ENTRY], avoid=on)
            ok = t.id not in seen
            chk.ob(rid, PARSE, f'CSSParser.{name}', f'`{g.describe(t.id)}` runs in parse error mode', ok,
                   '' if ok else 'reachable without the switch: ' + ' -> '.join(g.path(seen, {ENTRY}, t.id)[-5:]))
    for name in ('parseFile', 'parseUrl'):
        fn = chk.repo.fn(PARSE, f'CSSParser.{name}')
        g = cfgmod.CFG(fn)
        direct = [n for n in dom_nodes(g)]
        chk.ob(rid, PARSE, f'CSSParser.{name}', 'reaches the DOM only through parseString', not direct,
               'constructs DOM objects itself: ' + '; '.join(g.describe(n.id) for n in direct))
        calls = [c for n in g.nodes for c in cfgmod.calls_at(n) if call_name(c) == 'self.parseString']
        chk.ob(rid, PARSE, f'CSSParser.{name}', 'delegates to self.parseString', bool(calls), 'no call of parseString')
    # the switch itself
    ons = [(nm, st) for nm, (f, summ) in switches.items() for st in ast.walk(f) if isinstance(st, ast.Assign) and text(st.targets[0]) == FLAG and '__parseRaising' in text(st.value)]
    if not ons:
        raise AnalysisError('CSSParser: no store of the parse mode found')
    for nm, st in ons:
        chk.ob(rid, PARSE, f'CSSParser.{nm}', "switching on selects the parser's own raising flag", text(st.value) == 'self.__parseRaising', text(st))
    # the default parse mode, by evaluation of the constructor
    from sa.absint import Evaluator, Obj, Raised, Record

    pm = chk.repo.mod(PARSE)
    init = pm.get('CSSParser.__init__')
    for given, want in ((None, False), (False, False), (True, True)):
        me = Obj()
        intr = {'cssutils': Record(log=Record(raiseExceptions='GLOBAL', setLog=lambda l: None, setLevel=lambda l: None), stylesheets=Record(MediaList=lambda *a, **k: Record())),
                'tokenize2': Record(Tokenizer=lambda **k: Record())}
        r = Evaluator(init, intrinsics=intr, module=pm, cls='CSSParser').run(self=me, raiseExceptions=given)
        if isinstance(r, Raised):
            raise AnalysisError(f'CSSParser.__init__: {r!r}')
        got = getattr(me, '__parseRaising', 'unset')
        chk.ob(rid, PARSE, 'CSSParser.__init__', f'CSSParser(raiseExceptions={given}) parses in ' + ('raising' if want else 'logging') + ' mode', bool(got) == want and got != 'unset', f'the parse mode is {got!r}')


# ---------------------------------------------------------------------------


def _local_helper(m, target, call):
    """The def a `return helper(...)` hands the result of: a function nested in the same owner
    (or at module level) as the callback; None for anything else (methods, library calls)."""
    if m is None or not isinstance(call, ast.Call) or not isinstance(call.func, ast.Name):
        return None
    owner = m.enclosing_def(target)
    scopes = [owner] if owner is not None else []
    scopes.append(m.tree)
    for sc in scopes:
        for d in ast.walk(sc):
            if isinstance(d, ast.FunctionDef) and d.name == call.func.id and d is not target and (m.enclosing_def(d) is sc or (sc is m.tree and m.enclosing_def(d) is None)):
                return d
    return None


def returns_state(target, m=None, _depth=0):
    """(ok, reason) - every path of a production callback returns a value that
    is not None; `return helper(...)` is followed into a local helper."""
    if isinstance(target, ast.Lambda):
        b = target.body
        if isinstance(b, ast.Constant) and b.value is None:
            return False, 'lambda returns None'
        return True, ''
    g = cfgmod.CFG(target)
    reach = g.reachable([ENTRY])
    for a, lst in g.succ.items():
        if a != ENTRY and a not in reach:
            continue
        for b, lab in lst:
            if b == EXIT_RET and 'falloff' in lab:
                return False, f'path falls off the end after `{g.describe(a)}` (returns None)'
    for n in g.nodes:
        if n.kind == 'return' and n.id in reach:
            v = n.stmt.value
            if v is None or (isinstance(v, ast.Constant) and v.value is None):
                return False, f'`{text(n.stmt)}` returns None'
            h = _local_helper(m, target, v) if _depth < 3 else None
            if h is not None:
                ok, why = returns_state(h, m, _depth + 1)
                if not ok:
                    return False, f'`{text(n.stmt)}` hands on the result of {h.name}, and there ' + why
    return True, ''


def r01b(chk, rid='R01.b'):
    chk.rule(rid, 'every production callback handed to Base._parse (dict values, default=, default productions, New.productions) returns the next parser state on every CFG path: no fall-off, no bare return, no None')
    sites, cbs = callbacks(chk.repo)
    seen = set()
    for cb in cbs:
        key = (cb.rel, cb.qual, cb.key if isinstance(cb.target, ast.Lambda) else '')
        ok, why = returns_state(cb.target, chk.repo.mod(cb.rel))
        label = f"{cb.owner}: '{cb.key}' -> {text(cb.expr) if not isinstance(cb.target, ast.Lambda) else text(cb.target)}"
        chk.ob(rid, cb.rel, cb.owner, label, ok,
               why + ' - Base._parse rebinds `expected` to the result; the next callback compares or concatenates it',
               trivial=key in seen)
        seen.add(key)
    chk.require(rid, 70, 'production callbacks')
    if len(sites) < 13:
        raise AnalysisError(f'only {len(sites)} Base._parse call sites found (13 confirmed by hand)')
    chk.extra['parse_sites'] = len(sites)


# ---------------------------------------------------------------------------
RECURSIVE_TEXT = ('cssText', 'mediaText', 'selectorText')


def ser_cycle_functions(repo):
    """Serializer functions on the recursive value cycle: the do_* methods the
    value classes' cssText getters call, plus Out.append."""
    vm = repo.mod('cssutils/css/value.py')
    names = set()
    for n in ast.walk(vm.tree):
        if isinstance(n, ast.Attribute) and text(n.value) == 'cssutils.ser' and n.attr.startswith('do_'):
            names.add(n.attr)
    if len(names) < 5:
        raise AnalysisError('value.py: serializer entry points of the value classes not found')
    sm = repo.mod(SER)
    fns = [('Out.append', sm.get('Out.append'))]
    for nme in sorted(names):
        q = f'CSSSerializer.{nme}'
        if not sm.has(q):
            raise AnalysisError(f'serialize.py: {q} referenced from value.py is missing')
        fns.append((q, sm.get(q)))
    return fns


def _evals(node_exprs_list, var):
    """Number of evaluations of var.<recursive text> at a CFG node."""
    k = 0
    attrs = set()
    for e in node_exprs_list:
        for n in walk_expr(e):
            if isinstance(n, ast.Attribute) and isinstance(n.ctx, ast.Load) and n.attr in RECURSIVE_TEXT and text(n.value) == var:
                k += 1
                attrs.add(n.attr)
            elif isinstance(n, ast.Call) and call_name(n) in ('hasattr', 'getattr') and len(n.args) >= 2:
                if text(n.args[0]) == var and const(n.args[1]) in RECURSIVE_TEXT:
                    k += 1
                    attrs.add(const(n.args[1]))
    return k, attrs


def max_evals(fn):
    """For each variable, the maximal number of evaluations of its computed
    text along one CFG path without the variable being rebound (capped at 2).
    Returns {(var, attr): witness description} for counts >= 2."""
    g = cfgmod.CFG(fn)
    vars_ = set()
    for n in ast.walk(fn):
        if isinstance(n, ast.Attribute) and n.attr in RECURSIVE_TEXT and isinstance(n.value, ast.Name):
            vars_.add(n.value.id)
        if isinstance(n, ast.Call) and call_name(n) in ('hasattr', 'getattr') and len(n.args) >= 2 and const(n.args[1]) in RECURSIVE_TEXT and isinstance(n.args[0], ast.Name):
            vars_.add(n.args[0].id)
    bad = {}
    for var in sorted(vars_):
        for attr in RECURSIVE_TEXT:
            # per node: evaluations of var.attr, and whether var is rebound
            ev, kill = {}, {}
            for n in g.nodes:
                exprs = cfgmod.node_exprs(n)
                k = 0
                for e in exprs:
                    for x in walk_expr(e):
                        if isinstance(x, ast.Attribute) and isinstance(x.ctx, ast.Load) and x.attr == attr and text(x.value) == var:
                            k += 1
                        elif isinstance(x, ast.Call) and call_name(x) in ('hasattr', 'getattr') and len(x.args) >= 2 and text(x.args[0]) == var and const(x.args[1]) == attr:
                            k += 1
                ev[n.id] = k
                kill[n.id] = any(isinstance(x, ast.Name) and x.id == var and isinstance(x.ctx, ast.Store) for e in exprs for x in walk_expr(e))
            # forward max-count dataflow, saturating at 2
            cnt = {n.id: -1 for n in g.nodes}
            cnt[ENTRY] = 0
            work = [ENTRY]
            first = {}
            while work:
                a = work.pop()
                out = min(2, cnt[a] + ev[a])
                if ev[a] and cnt[a] + ev[a] >= 2 and (var, attr) not in bad:
                    bad[(var, attr)] = g.describe(a)
                if kill[a]:
                    out = 0
                for b, _ in g.succ[a]:
                    if out > cnt[b]:
                        cnt[b] = out
                        work.append(b)
    return bad


def r01e(chk, rid='R01.e'):
    chk.rule(rid, 'on the recursive serializer cycle (do_* methods called by the value classes + Out.append) the computed text of an item is evaluated at most once per CFG path; hasattr(x, "cssText") counts because cssText is a property on every DOM class')
    fns = ser_cycle_functions(chk.repo)
    for q, fn in fns:
        bad = max_evals(fn)
        if not bad:
            chk.ob(rid, SER, q, 'each item text evaluated at most once per path', True)
        for (var, attr), where in sorted(bad.items()):
            chk.ob(rid, SER, q, f'{var}.{attr} evaluated at most once per path', False,
                   f'second evaluation at `{where}`: every nesting level doubles the work (2^depth serialisation time)')
    chk.require(rid, 6, 'serializer functions on the value cycle')


# ---------------------------------------------------------------------------
HELPERS = {'_stringtokenvalue': 'STRING', '_uritokenvalue': 'URI'}


def r01f(chk, rid='R01.f'):
    chk.rule(rid, 'token-value helpers are applied only to tokens of the matching type: each call of _stringtokenvalue/_uritokenvalue lies in a callback registered under STRING/URI, in a helper called only from such callbacks, or under a condition that tests the token type')
    sites, cbs = callbacks(chk.repo)
    registered = {}
    for cb in cbs:
        if not isinstance(cb.target, ast.Lambda):
            registered.setdefault(id(cb.target), set()).add(cb.key)
    n_sites = 0
    for rel, m in chk.repo.modules.items():
        if rel in ('cssutils/sac.py', 'cssutils/css/cssvalue.py', 'cssutils/util.py'):
            continue
        for n in ast.walk(m.tree):
            if not (isinstance(n, ast.Call) and isinstance(n.func, ast.Attribute) and n.func.attr in HELPERS):
                continue
            want = HELPERS[n.func.attr]
            n_sites += 1
            fn = m.enclosing_def(n)
            ok, how = False, ''
            if fn is not None and want in registered.get(id(fn), ()):
                ok, how = True, f'callback registered under {want}'
            if not ok and _guarded_by_type(m, n, want):
                ok, how = True, 'under a condition that tests the token type'
            if not ok and fn is not None and isinstance(fn, ast.FunctionDef):
                # helper called only from typed places
                outer = m.enclosing_def(fn)
                if outer is not None:
                    callers = [c for c in ast.walk(outer) if isinstance(c, ast.Call) and isinstance(c.func, ast.Name) and c.func.id == fn.name]
                    if callers and all(_typed_caller(m, c, want, registered) for c in callers):
                        ok, how = True, f'helper {fn.name} called only with {want} tokens'
            chk.ob(rid, rel, m.qualname_of(n), text(m.enclosing_stmt(n)), ok,
                   how or f'{n.func.attr} indexes value[0] / slices the token text: applied before the token type is known it raises IndexError/TypeError on None, EOF or empty tokens')
    if n_sites < 8:
        raise AnalysisError(f'only {n_sites} token-value helper sites found (10 confirmed by hand, floor 8)')


def _mentions_type(test, want):
    t = text(test)
    return bool(re.search(r"(_prods\.%s\b|'%s'|\"%s\")" % (want, want, want), t)) and ('_type(' in t or 'typ' in t.lower())


def _guarded_by_type(m, node, want):
    child = m.enclosing_stmt(node)
    n = m.parents.get(child)
    while n is not None and not isinstance(n, (ast.FunctionDef, ast.Lambda, ast.ClassDef)):
        if isinstance(n, ast.If) and child in n.body and _mentions_type(n.test, want):
            # positive test only: `==`/`in`, not `!=`
            if not any(isinstance(o, (ast.NotEq, ast.NotIn)) for c in ast.walk(n.test) if isinstance(c, ast.Compare) for o in c.ops):
                return True
        child = n
        n = m.parents.get(n)
    return False


def _typed_caller(m, call, want, registered):
    fn = m.enclosing_def(call)
    if fn is not None and want in registered.get(id(fn), ()):
        # the token passed must be the callback's own token
        return True if any(text(a) == 'token' for a in call.args) else _guarded_by_type(m, call, want)
    return _guarded_by_type(m, call, want)


def r01h(chk, rid='R01.h'):
    chk.rule(rid, 'internal parser exceptions never escape ProdParser.parse: every call of a nextProd method (whose implementations raise the ParseError family: NoMatch, Exhausted, Missing, Done) lies inside try blocks whose handlers together cover the whole family; what the handlers do is log (turning the mismatch into a reported error) or stop')
    m = chk.repo.mod('cssutils/prodparser.py')
    family = {}
    for q, c in m.classes():
        bases = [text(b) for b in c.bases]
        if q == 'ParseError' or any(b in family or b == 'ParseError' for b in bases):
            family[q] = bases
    # second pass for subclasses declared before/after
    for q, c in m.classes():
        if any(text(b) in family for b in c.bases):
            family[q] = [text(b) for b in c.bases]
    if not {'ParseError', 'NoMatch', 'Exhausted', 'Missing', 'Done'} <= set(family):
        raise AnalysisError(f'prodparser exception family not recognised: {sorted(family)}')
    raised = set()
    for q, fn in m.functions():
        if q.endswith('.nextProd'):
            for r in ast.walk(fn):
                if isinstance(r, ast.Raise) and r.exc is not None:
                    raised.add(call_name(r.exc) if isinstance(r.exc, ast.Call) else text(r.exc))
    raised &= set(family)
    if len(raised) < 3:
        raise AnalysisError(f'nextProd implementations raise only {sorted(raised)}')
    # ProdParser.parse and the private methods it calls (transitively)
    todo, fns = ['parse'], []
    while todo:
        nm = todo.pop()
        if not m.has(f'ProdParser.{nm}') or any(f.name == nm for f in fns):
            continue
        f = m.get(f'ProdParser.{nm}')
        fns.append(f)
        for c in ast.walk(f):
            if isinstance(c, ast.Call) and isinstance(c.func, ast.Attribute) and isinstance(c.func.value, ast.Name) and c.func.value.id == 'self':
                todo.append(c.func.attr)
    n = 0
    for fn, c in [(f, c) for f in fns for c in ast.walk(f)]:
        if isinstance(c, ast.Call) and isinstance(c.func, ast.Attribute) and c.func.attr == 'nextProd':
            n += 1
            covered = set()
            child, p = c, m.parents.get(c)
            while p is not None and p is not fn:
                if isinstance(p, ast.Try) and child in p.body:
                    for h in p.handlers:
                        names = [text(h.type)] if h.type is not None and not isinstance(h.type, ast.Tuple) else ([text(e) for e in h.type.elts] if h.type is not None else ['BaseException'])
                        for nm in names:
                            if nm in ('ParseError', 'Exception', 'BaseException'):
                                covered |= set(family)
                            covered.add(nm)
                child, p = p, m.parents.get(p)
            missing = sorted(raised - covered)
            chk.ob(rid, 'cssutils/prodparser.py', f'ProdParser.{fn.name}', f'`{text(c)}`: {sorted(raised)} are all handled', not missing,
                   f'{missing} can propagate out of parse(): a value or media query that does not match raises an internal exception instead of being reported')
    if n < 2:
        raise AnalysisError('ProdParser.parse: nextProd calls not found')


def _derefs_new(fn):
    """Subscripts of the free variable ``new`` in a default production: (node, guarded_by_EOF)."""
    out = []
    for n in ast.walk(fn):
        if isinstance(n, ast.Subscript) and isinstance(n.value, ast.Name) and n.value.id == 'new':
            out.append(n)
    return out


def _may_return_eof(target):
    if isinstance(target, ast.Lambda):
        return any(const(x) == 'EOF' for x in ast.walk(target.body))
    for r in ast.walk(target):
        if isinstance(r, ast.Return) and r.value is not None and any(const(x) == 'EOF' for x in ast.walk(r.value)):
            return True
    return False


def r01i(chk, rid='R01.i'):
    chk.rule(rid, "default productions and their state: the default productions of Base/Base2._adddefaultproductions store into `new[...]` once the state is 'EOF'; a self._parse(...) call that does not pass new= leaves new=None, so at every such site either the productions it passes override each default production that subscripts `new`, or no callback of the site (other than the one for the EOF token, which is last) can return the state 'EOF' and the initial state is not 'EOF'")
    from .effects import Effects

    eff = Effects.get(chk.repo)
    sites, cbs = callbacks(chk.repo)
    um = chk.repo.mod('cssutils/util.py')
    deref = {}
    for base in ('Base', 'Base2'):
        f = um.get(f'{base}._adddefaultproductions')
        d = {}
        for cb in cbs:
            if cb.owner == f'{base}._adddefaultproductions' and not isinstance(cb.target, ast.Lambda):
                subs = _derefs_new(cb.target)
                if subs:
                    d[cb.key] = cb.target
        deref[base] = d
    if not deref['Base'] or not deref['Base2']:
        raise AnalysisError('util.py: no default production subscripts `new` (ATKEYWORD confirmed by hand)')
    n = 0
    for m, fn, q, cls, call in sites:
        n += 1
        newarg = None
        for k in call.keywords:
            if k.arg == 'new':
                newarg = k.value
        if newarg is None and len(call.args) >= 6:
            newarg = call.args[5]
        if newarg is not None and const(newarg) is not None or (newarg is not None and not isinstance(newarg, ast.Constant)):
            chk.ob(rid, m.rel, q, f'`self._parse(...)` line-independent: passes new={text(newarg)}', True, '', trivial=True)
            continue
        ci = next((c for c in eff.classes.get(cls, []) if c.rel == m.rel), None)
        impl = eff.mro_lookup(ci, '_adddefaultproductions') if ci is not None else None
        if impl is None:
            raise AnalysisError(f'{m.rel}:{q}: _adddefaultproductions not resolved for class {cls}')
        owner = None
        for base in ('Base', 'Base2'):
            if impl is um.get(f'{base}._adddefaultproductions'):
                owner = base
        if owner is None:
            raise AnalysisError(f'{m.rel}:{q}: {cls} overrides _adddefaultproductions')
        mine = [cb for cb in cbs if cb.owner == q and cb.rel == m.rel and _site_of(m, cb, call)]
        keys = {cb.key for cb in mine}
        open_ = sorted(k for k in deref[owner] if k not in keys)
        if not open_:
            chk.ob(rid, m.rel, q, 'new-dereferencing default productions are all overridden', True, '')
            continue
        prods = kw(call, 'productions') if kw(call, 'productions') is not None else (call.args[3] if len(call.args) >= 4 else None)
        if prods is not None and text(prods) == 'new.productions':
            mine = [cb for cb in cbs if cb.owner == 'New.productions']
            open_ = sorted(k for k in deref[owner] if k not in {cb.key for cb in mine})
        init = kw(call, 'expected') if kw(call, 'expected') is not None else (call.args[0] if call.args else None)
        bad = []
        if init is not None and const(init) == 'EOF':
            bad.append('the initial state')
        for cb in mine:
            if cb.key != 'EOF' and _may_return_eof(cb.target):
                bad.append(f'the {cb.key} production `{text(cb.expr)[:40]}`')
        chk.ob(rid, m.rel, q, f"_parse without new=: the default {'/'.join(open_)} production never runs in state 'EOF'", not bad,
               f"{', '.join(bad)} can yield the state 'EOF'; a following {'/'.join(open_)} token then executes new['wellformed'] = False with new=None: TypeError out of the parser")
    if n < 12:
        raise AnalysisError(f'only {n} _parse call sites found (13 confirmed by hand)')


def _site_of(m, cb, call):
    """Is the callback expression part of this call (a function may hold two _parse calls)?"""
    return cb.call is call


# ---------------------------------------------------------------------------
# Consumers of ProdParser.parse results.  At the end of input ProdParser closes what is open
# and reports ok, so "ok" does not imply that every production of the sequence has matched.
def _prodparser_consumers(repo):
    out = []
    for rel, m in repo.modules.items():
        if not rel.startswith(('cssutils/css/', 'cssutils/stylesheets/')) or rel.endswith('cssvalue.py'):
            continue
        for q, fn in m.functions():
            for st in ast.walk(fn):
                if isinstance(st, ast.Assign) and isinstance(st.value, ast.Call) and text(st.value.func).endswith('ProdParser().parse') \
                        and isinstance(st.targets[0], ast.Tuple) and len(st.targets[0].elts) == 4 and m.enclosing_def(st) is fn:
                    names = [e.id if isinstance(e, ast.Name) else None for e in st.targets[0].elts]
                    out.append((rel, m, q, fn, st, names))
    return out


def r01j(chk, rid='R01.j'):
    chk.rule(rid, "store keys after ProdParser.parse: `ok` does not imply that a production with toStore='k' has matched (the parser closes open constructs at the end of input), so every read `store['k']` is protected: inside a try that catches KeyError, under a condition `'k' in store`, or under a flag that an earlier `'k' not in store` test has cleared")
    cons = _prodparser_consumers(chk.repo)
    if len(cons) < 8:
        raise AnalysisError(f'only {len(cons)} consumers of ProdParser().parse found')
    n = 0
    for rel, m, q, fn, st, names in cons:
        store = names[2]
        if store is None:
            continue
        for sub in ast.walk(fn):
            if not (isinstance(sub, ast.Subscript) and isinstance(sub.ctx, ast.Load) and isinstance(sub.value, ast.Name)
                    and sub.value.id == store and isinstance(const(sub.slice), str)):
                continue
            n += 1
            key = sub.slice.value
            how = _key_guard(m, fn, sub, store, key)
            if how == 'shape':
                chk.ob(rid, rel, q, f"`{text(sub)}` is protected", False, f"a membership test for {key!r} exists but not in a recognised guarding position", shape=True)
            else:
                chk.ob(rid, rel, q, f"`{text(sub)}` is protected ({how or 'unprotected'})", bool(how),
                       f"input that ends before the production storing {key!r} has matched is reported ok by ProdParser and this read raises KeyError out of the parser")
    if n < 5:
        raise AnalysisError(f'only {n} store[...] reads found (6 confirmed by hand)')


def _membership(test, store, key, negated):
    """Does `test` (or one conjunct) state that key is (not) in store?"""
    conj = test.values if isinstance(test, ast.BoolOp) and isinstance(test.op, ast.And) else [test]
    for c in conj:
        if isinstance(c, ast.Compare) and len(c.ops) == 1 and const(c.left) == key and isinstance(c.comparators[0], ast.Name) and c.comparators[0].id == store:
            if isinstance(c.ops[0], ast.NotIn if negated else ast.In):
                return True
    return False


def _key_guard(m, fn, sub, store, key):
    child, p = sub, m.parents.get(sub)
    flags = []
    while p is not None and p is not fn:
        if isinstance(p, ast.Try) and child in p.body:
            for h in p.handlers:
                names = [] if h.type is None else ([text(e) for e in h.type.elts] if isinstance(h.type, ast.Tuple) else [text(h.type)])
                if h.type is None or {'KeyError', 'LookupError', 'Exception'} & set(names):
                    return 'try/except KeyError'
        if isinstance(p, ast.If) and child in p.body:
            if _membership(p.test, store, key, negated=False):
                return f"under `{text(p.test)}`"
            conj = p.test.values if isinstance(p.test, ast.BoolOp) and isinstance(p.test.op, ast.And) else [p.test]
            flags += [(x.id, p) for x in conj if isinstance(x, ast.Name)]
        if isinstance(p, ast.If) and child in p.orelse and _membership(p.test, store, key, negated=True):
            return f"in the else of `{text(p.test)}`"
        child, p = p, m.parents.get(p)
    # flag idiom: `if ... 'k' not in store: flag = False` earlier in the same block as `if flag:`
    for flag, ifnode in flags:
        holder = m.parents.get(ifnode)
        for field in ('body', 'orelse', 'finalbody'):
            blk = getattr(holder, field, None)
            if isinstance(blk, list) and ifnode in blk:
                idx = blk.index(ifnode)
                cleared = None
                for i, s in enumerate(blk[:idx]):
                    if isinstance(s, ast.If) and _membership(s.test, store, key, negated=True):
                        for a in ast.walk(s):
                            if isinstance(a, ast.Assign) and const(a.value) is False and any(isinstance(t, ast.Name) and t.id == flag for t in a.targets):
                                cleared = i
                if cleared is not None:
                    # the flag must not be set again between the test and its use
                    reset = any(isinstance(a, ast.Assign) and any(isinstance(t, ast.Name) and t.id == flag for t in a.targets)
                                for s in blk[cleared + 1:idx] for a in ast.walk(s))
                    if not reset:
                        return f"under `{flag}`, cleared when {key!r} is not in {store}"
    src = ast.unparse(fn)
    if f"{key!r} in {store}" in src or f"{key!r} not in {store}" in src:
        return 'shape'
    return ''


def r01k(chk, rid='R01.k'):
    chk.rule(rid, "colour function components: in ColorValue._setCssText the list of components collected from the parsed sequence has as many entries as the input had before it ended; every use that needs three or four of them (raw[i], the four-way unpacking of rgba) is unreachable from the collection once the edges that establish the count are removed (the false edge of `check not in checks[...]` / of `len(check) != n`, the true edge of their positive forms)")
    rel = 'cssutils/css/value.py'
    m = chk.repo.mod(rel)
    fn = m.get('ColorValue._setCssText')
    g = cfgmod.CFG(fn)
    init = [n for n in g.nodes if n.kind == 'stmt' and isinstance(n.stmt, ast.Assign) and isinstance(n.stmt.targets[0], ast.Tuple)
            and {'raw', 'check'} <= {e.id for e in n.stmt.targets[0].elts if isinstance(e, ast.Name)}]
    if len(init) != 1:
        raise AnalysisError('ColorValue._setCssText: initialisation of raw/check not found')
    good = {}  # test node id -> label of the validating edge
    for n in g.nodes:
        if n.kind != 'if':
            continue
        t = n.stmt.test
        src = text(t)
        relevant = 'len(check)' in src or 'len(raw)' in src or (isinstance(t, ast.Compare) and isinstance(t.left, ast.Name) and t.left.id == 'check' and isinstance(t.ops[0], (ast.In, ast.NotIn)))
        if not relevant:
            continue
        lab = None
        if isinstance(t, ast.Compare) and len(t.ops) == 1:
            op = t.ops[0]
            if isinstance(t.left, ast.Name) and t.left.id == 'check' and isinstance(op, (ast.In, ast.NotIn)):
                lab = 'false' if isinstance(op, ast.NotIn) else 'true' if isinstance(op, ast.In) else None
            elif text(t.left) in ('len(check)', 'len(raw)'):
                k = const(t.comparators[0])
                opn = type(op).__name__
                if isinstance(k, int):
                    # the edge on which at least three entries are established
                    lab = {'Gt': 'true' if k >= 2 else None, 'GtE': 'true' if k >= 3 else None, 'Lt': 'false' if k >= 3 else None,
                           'LtE': 'false' if k >= 2 else None, 'Eq': 'true' if k >= 3 else None, 'NotEq': 'false' if k >= 3 else None}.get(opn)
                    if lab is None and opn in ('Gt', 'GtE', 'Lt', 'LtE', 'Eq', 'NotEq'):
                        continue  # a test that establishes nothing
                elif isinstance(t.comparators[0], ast.Call) and call_name(t.comparators[0]) == 'len':
                    # compared with the length of an entry of the parameter table
                    lab = {'NotEq': 'false', 'Eq': 'true'}.get(opn)
        if lab is None:
            raise AnalysisError(f'ColorValue._setCssText: count test `{src}` not in a recognised form')
        good[n.id] = lab
    uses = []
    for n in g.nodes:
        for e in cfgmod.node_exprs(n):
            for x in walk_expr(e):
                if isinstance(x, ast.Subscript) and isinstance(x.ctx, ast.Load) and isinstance(x.value, ast.Name) and x.value.id == 'raw' and isinstance(const(x.slice), int):
                    uses.append((n, text(x)))
                elif isinstance(x, ast.Call) and isinstance(x.func, ast.Name) and m.has(x.func.id) and isinstance(m.get(x.func.id), ast.FunctionDef):
                    # a module-level helper that is handed the components and indexes them: the call is the use
                    h = m.get(x.func.id)
                    for i, a in enumerate(x.args):
                        if isinstance(a, ast.Name) and a.id == 'raw' and i < len(h.args.args):
                            pn = h.args.args[i].arg
                            for y in ast.walk(h):
                                if isinstance(y, ast.Subscript) and isinstance(y.ctx, ast.Load) and isinstance(y.value, ast.Name) and y.value.id == pn and isinstance(const(y.slice), int):
                                    uses.append((n, f'{x.func.id}(raw): {pn}[{const(y.slice)}]'))
        if n.kind == 'stmt' and isinstance(n.stmt, ast.Assign) and isinstance(n.stmt.targets[0], ast.Tuple) and len(n.stmt.targets[0].elts) == 4 and 'rgba' in text(n.stmt.value):
            uses.append((n, text(n.stmt)[:70]))
    if len(uses) < 4:
        raise AnalysisError(f'ColorValue._setCssText: only {len(uses)} component uses found')
    seen = g.reachable([init[0].id], labels=lambda s, t, lab: not (s in good and good[s] in lab.split('|')))
    done = set()
    for n, what in uses:
        if (n.id, what) in done:
            continue
        done.add((n.id, what))
        ok = n.id not in seen
        chk.ob(rid, rel, 'ColorValue._setCssText', f'`{what}` runs only with a validated component count', ok,
               "reachable with any number of components: `rgb(`, `rgb(1` or `hsl(` at the end of input raise IndexError/ValueError out of parseString")


def r01m(chk, rid='R01.m'):
    chk.rule(rid, 'no iterator wraps itself inside a loop: an assignment `x = g(x, ...)` in a loop body, where g is a generator function of the package, stacks one generator frame per iteration - the nesting depth then grows with the length of the input and a long enough input ends in RecursionError')
    eff_gen = {}
    for rel, m in chk.repo.modules.items():
        if not rel.startswith('cssutils/') or '/tests/' in rel:
            continue
        for q, fn in m.functions():
            body_nodes = [x for x in ast.walk(fn) if m.enclosing_def(x) is fn]
            if any(isinstance(x, (ast.Yield, ast.YieldFrom)) for x in body_nodes):
                eff_gen[(rel, q)] = fn
    gen_names = {q.split('.')[-1] for _, q in eff_gen}
    n = 0
    for rel, m in chk.repo.modules.items():
        if not rel.startswith('cssutils/') or '/tests/' in rel or rel.endswith(('sac.py', 'cssvalue.py')):
            continue
        for q, fn in m.functions():
            for loop in ast.walk(fn):
                if not isinstance(loop, (ast.While, ast.For)):
                    continue
                for st in ast.walk(loop):
                    if isinstance(st, ast.Assign) and len(st.targets) == 1 and isinstance(st.targets[0], ast.Name) and isinstance(st.value, ast.Call) and m.enclosing_def(st) is fn:
                        x = st.targets[0].id
                        callee = call_name(st.value).split('.')[-1]
                        if any(isinstance(a, ast.Name) and a.id == x for a in st.value.args) and callee in gen_names:
                            n += 1
                            chk.ob(rid, rel, q, f'`{text(st)}` inside a loop', False, f'{callee} is a generator function: every iteration adds a frame around `{x}`')
    chk.ob(rid, '<package>', 'R01.m', f'{len(eff_gen)} generator functions; {n} self-wrapping assignments in loops', True, trivial=True)
    # the expected count is zero: exercise the matcher on a positive example on every run
    from sa.core import Module

    ex = Module('<example>', None, src='def gen(t):\n    yield from t\n\ndef parse(tokens):\n    while True:\n        tokens = gen(tokens)\n')
    hit = [st for st in ast.walk(ex.tree) if isinstance(st, ast.Assign) and isinstance(st.value, ast.Call) and any(isinstance(a, ast.Name) and a.id == st.targets[0].id for a in st.value.args)]
    if len(hit) != 1:
        raise AnalysisError('R01.m: positive example not recognised')


TOKEN_SAMPLES = {
    'URI': ['url()', 'url( )', 'url(\t\n)', 'url("")', "url('')", 'url( "" )', 'url(x)', 'url( x )', 'url("x")', "url('x')", 'url("\\"")', "url('\\'')", 'url(")")', "url(\"'\")", 'url(\\))', 'URL()', 'url(\\22 )', 'url(")', "url(')", 'url("'],
    'STRING': ['""', "''", '"x"', "'x'", '"\\""', "'\\''", '"\'"', '\'"\'', '"\\\n"', '"a\\"b\\"c"'],
}


def r01n(chk, rid='R01.n'):
    chk.rule(rid, 'the token-value helpers are total on their token kind, decided by evaluation: Base._stringtokenvalue and Base._uritokenvalue (and helper.stringvalue / helper.urivalue, which the value productions use) are evaluated on their syntax trees on boundary members of the STRING and URI token languages - empty and blank content, each quote kind, escaped quotes, a lone quote character as the whole content - membership being decided on the automaton of the production: none of them raises, a missing token gives None, and a quoted form gives the text between its quotes')
    chk.assume('R01.n: the helpers look at the first and last character of the content and replace the escaped quote; the samples contain every combination of empty / one character / quote at either end')
    from sa.absint import Evaluator, Raised, Record

    from .tables import TokTables

    tt = TokTables(chk.repo)
    um = chk.repo.mod('cssutils/util.py')
    hm = chk.repo.mod('cssutils/helper.py')
    n = 0
    for kind, meth, hfn in (('STRING', 'Base._stringtokenvalue', 'stringvalue'), ('URI', 'Base._uritokenvalue', 'urivalue')):
        nfa = tt.nfa(kind)
        samples = [s for s in TOKEN_SAMPLES[kind] if rx.accepts(nfa, s)]
        if len(samples) < 8:
            raise AnalysisError(f'R01.n: only {len(samples)} of the {kind} samples are {kind} tokens')
        fn = um.get(meth)
        hf = hm.get(hfn)
        for s in samples:
            for label, run in ((meth, lambda s=s: Evaluator(fn, module=um, cls='Base').run(self=Record(), token=(kind, s, 1, 1))),
                               (f'helper.{hfn}', lambda s=s: Evaluator(hf, module=hm).run(**{hf.args.args[0].arg: s}))):
                got = run()
                n += 1
                ok = isinstance(got, str)
                chk.ob(rid, 'cssutils/util.py' if label == meth else 'cssutils/helper.py', label.split('Base.')[-1], f'{kind} token {s!r} has a value', ok,
                       f'{got!r}: the exception leaves parseString (the callbacks call the helper outside any handler)', trivial=True)
        got = Evaluator(fn, module=um, cls='Base').run(self=Record(), token=None)
        chk.ob(rid, 'cssutils/util.py', meth.split('.')[-1], 'no token gives None', got is None, f'{got!r}')
    chk.extra['token_value_cases'] = n
