"""Resolution of the production callbacks handed to ``Base._parse`` and of
``New.productions`` (E1 idioms)."""
from __future__ import annotations

import ast

from sa.core import AnalysisError, call_name, kw, text


class Callback:
    call = None  # the _parse call this callback is handed to (None for default productions)

    def __init__(self, rel, owner_qual, key, expr, target, target_qual):
        self.rel = rel
        self.owner = owner_qual  # function containing the _parse call
        self.key = key  # token type, or 'default'
        self.expr = expr
        self.target = target  # FunctionDef | Lambda
        self.qual = target_qual


def _nested_def(fn, name):
    found = None
    for n in ast.walk(fn):
        if isinstance(n, (ast.FunctionDef,)) and n is not fn and n.name == name:
            found = n
    return found


def _mangled(name, cls):
    return name


def resolve(repo, m, fn, expr, clsname):
    """Resolve a callback expression to its def/lambda."""
    if isinstance(expr, ast.Lambda):
        return expr, m.qualname_of(expr)
    if isinstance(expr, ast.Name):
        d = _nested_def(fn, expr.id)
        if d is None:
            # private nested names (``__doname``) are not mangled inside functions
            for q, f in m.functions():
                if q == expr.id:
                    d = f
        if d is None:
            raise AnalysisError(f'{m.rel}:{m.qualname_of(expr)}: callback {expr.id} not resolved')
        return d, m.qualname_of(d.body[0]) if d.body else expr.id
    if isinstance(expr, ast.Attribute) and isinstance(expr.value, ast.Name) and expr.value.id == 'self':
        q = f'{clsname}.{expr.attr}'
        if m.has(q):
            d = m.get(q)
            return d, q
        raise AnalysisError(f'{m.rel}: callback self.{expr.attr} not resolved in {clsname}')
    raise AnalysisError(f'{m.rel}: unsupported callback expression {text(expr)}')


def production_pairs(m, fn, prods):
    """[(token type, callback expression)] of a productions argument: a dict literal, or a name
    bound once to a dict literal in the function and then filled with `name[k] = v` stores
    (k a constant, or the variable of a `for` over a resolvable collection of constants) and
    `name.update({...})`.  None when the shape is not recognised."""
    from sa.core import resolve_collection

    def of_dict(d):
        return [((k.value if isinstance(k, ast.Constant) else text(k)), v) for k, v in zip(d.keys, d.values)]

    if isinstance(prods, ast.Dict):
        return of_dict(prods)
    if not isinstance(prods, ast.Name):
        return None
    binds = [st for st in ast.walk(fn) if isinstance(st, ast.Assign) and any(isinstance(t, ast.Name) and t.id == prods.id for t in st.targets)]
    if len(binds) != 1 or not isinstance(binds[0].value, ast.Dict):
        return None
    pairs = of_dict(binds[0].value)
    for st in ast.walk(fn):
        if isinstance(st, ast.Assign) and isinstance(st.targets[0], ast.Subscript) and isinstance(st.targets[0].value, ast.Name) and st.targets[0].value.id == prods.id:
            k = st.targets[0].slice
            if isinstance(k, ast.Constant):
                pairs.append((k.value, st.value))
                continue
            par = m.parents.get(st)
            if isinstance(k, ast.Name) and isinstance(par, ast.For) and isinstance(par.target, ast.Name) and par.target.id == k.id:
                elts = resolve_collection(m, fn, par.iter)
                if elts is not None and all(isinstance(e, ast.Constant) for e in elts):
                    pairs.extend((e.value, st.value) for e in elts)
                    continue
            return None
        if isinstance(st, ast.Call) and isinstance(st.func, ast.Attribute) and st.func.attr == 'update' and isinstance(st.func.value, ast.Name) and st.func.value.id == prods.id:
            if len(st.args) == 1 and isinstance(st.args[0], ast.Dict):
                pairs.extend(of_dict(st.args[0]))
            else:
                return None
    return pairs


def parse_sites(repo):
    """Yield (module, enclosing function, class name, call node) for every call
    of ``self._parse(...)`` (Base._parse)."""
    out = []
    for rel, m in repo.modules.items():
        if rel in ('cssutils/sac.py', 'cssutils/css/cssvalue.py'):
            continue
        for q, fn in m.functions():
            for n in ast.walk(fn):
                if isinstance(n, ast.Call) and call_name(n) == 'self._parse' and m.enclosing_def(n) is fn:
                    cls = q.split('.')[0]
                    out.append((m, fn, q, cls, n))
    return out


def callbacks(repo):
    """All production callbacks of all _parse sites + New.productions."""
    cbs = []
    sites = parse_sites(repo)
    for m, fn, q, cls, call in sites:
        prods = kw(call, 'productions')
        if prods is None and len(call.args) >= 4:
            prods = call.args[3]
        if prods is None:
            raise AnalysisError(f'{m.rel}:{q}: _parse call without productions')
        default = kw(call, 'default')
        if default is None and len(call.args) >= 5:
            default = call.args[4]
        pairs = production_pairs(m, fn, prods)
        if pairs is not None:
            for key, v in pairs:
                tgt, tq = resolve(repo, m, fn, v, cls)
                cb = Callback(m.rel, q, key, v, tgt, tq)
                cb.call = call
                cbs.append(cb)
        elif text(prods) == 'new.productions':
            for cb in new_productions(repo, m):
                cbs.append(cb)
        else:
            raise AnalysisError(f'{m.rel}:{q}: productions argument {text(prods)} not recognised')
        if default is not None:
            tgt, tq = resolve(repo, m, fn, default, cls)
            cb = Callback(m.rel, q, 'default', default, tgt, tq)
            cb.call = call
            cbs.append(cb)
    # default productions of Base / Base2
    um = repo.mod('cssutils/util.py')
    for cls in ('Base', 'Base2'):
        f = um.get(f'{cls}._adddefaultproductions')
        dicts = [n for n in ast.walk(f) if isinstance(n, ast.Dict) and len(n.keys) >= 4]
        if len(dicts) != 1:
            raise AnalysisError(f'util.py: {cls}._adddefaultproductions: default table not found')
        for k, v in zip(dicts[0].keys, dicts[0].values):
            tgt, tq = resolve(repo, um, f, v, cls)
            cbs.append(Callback(um.rel, f'{cls}._adddefaultproductions', k.value, v, tgt, tq))
    return sites, cbs


def new_productions(repo, m=None):
    m = m or repo.mod('cssutils/css/selector.py')
    p = m.get('New.productions')
    rets = [n for n in ast.walk(p) if isinstance(n, ast.Return) and isinstance(n.value, ast.Dict)]
    if len(rets) != 1:
        raise AnalysisError('selector.py: New.productions does not return a dict literal')
    out = []
    for k, v in zip(rets[0].value.keys, rets[0].value.values):
        tgt, tq = resolve(repo, m, p, v, 'New')
        out.append(Callback(m.rel, 'New.productions', k.value, v, tgt, tq))
    return out
