NOTES = ('Technique family: static analysis only. Every check parses /repo\'s working tree and decides '
         'structural rules (necessary conditions of the property); no check imports or runs cssutils. '
         'exit 0 ok / exit 1 VIOLATION / exit 2 ANALYSIS-ERROR (shape no longer analysable - never a silent pass).')
CHECKS = {
 'C05': {
  'technique': 'regex automata analysis (nullability, first sets, language equivalence, exponential ambiguity) of the tokenizer tables + CFG path rules on Tokenizer.tokenize',
  'text': 'Decides structural necessary conditions of the tokenizer property on every path / every string of the production languages: '
          'totality and progress (no nullable production, every code point covered, position advances once per token on all CFG paths), '
          'fast-path exclusivity, ordering beliefs of the production list, IDENT/FUNCTION guard, sibling-regex agreement (unicodesub vs {unicode}, letter macros), '
          'EOF/completion guards, and absence of exponentially ambiguous patterns. Does not decide value decoding or column arithmetic on concrete inputs.',
  'note': 'Trusts: re._parser\'s syntax tree equals what re compiles; Glushkov construction; known findings (exponential STRING/URI patterns) are listed in known_findings.json.',
 },
}
CHECKS['C01'] = {
  'technique': 'CFG must-pass-through + callback return-state analysis + regex ambiguity automata + evaluation-count dataflow on the serializer cycle',
  'text': 'Decides necessary conditions of "never raises, never hangs" that are visible on every path: DOM work only inside the log-mode window (R01.a), every production callback returns a parser state on all paths (R01.b), tokenizer totality/progress (R01.c), no exponentially ambiguous token/helper pattern (R01.d; validation patterns in the thorough tier), at most one evaluation of a child text per serializer path (R01.e), token-value helpers only on typed tokens (R01.f). Does not decide absence of data-dependent exceptions, recursion depth or cyclic @import.',
  'note': 'Name-based call resolution (self.X, nested defs, New.productions); known findings: exponential STRING/URI token patterns (known_findings.json).',
}
NOT_APPLICABLE = {}
