"""Rules about the tokenizer shared by C01 and C05 (R01.c, R01.d)."""
from __future__ import annotations

import ast

from sa import cfg as cfgmod
from sa import rx
from sa.core import AnalysisError, call_name, const, literal, text, walk_local

from .tables import TokTables, _flags

TOK = 'cssutils/tokenize2.py'
PRODS = 'cssutils/cssproductions.py'


def all_productions(tt):
    """(name, full pattern) of every production incl. the optional MS one."""
    out = [(n, tt.full(n)) for n in tt.names()]
    dx_name, dx_pat = tt.dximage
    out.append((dx_name + '<DXImageTransform>', tt.compile_wrap % tt.expand(dx_pat)))
    return out


def tokenize_loop(chk):
    """CFG of Tokenizer.tokenize plus the node ids the progress rules need."""
    fn = chk.repo.fn(TOK, 'Tokenizer.tokenize')
    g = cfgmod.CFG(fn)
    whiles = [n for n in g.nodes if n.kind == 'while' and {'pos', '_len_text'} <= {x.id for x in ast.walk(n.stmt.test) if isinstance(x, ast.Name)}]
    if len(whiles) != 1:
        raise AnalysisError('Tokenizer.tokenize: main loop `while pos < _len_text` not found')
    w = whiles[0]
    fors = [n for n in g.nodes if n.kind == 'for' and n.stmt in list(ast.walk(w.stmt)) and text(n.stmt.iter) == 'productions']
    if len(fors) != 1:
        raise AnalysisError('Tokenizer.tokenize: `for name, matcher in productions` not found')
    return fn, g, w, fors[0]


def is_progress(node):
    s = node.stmt
    if node.kind != 'stmt':
        return False
    if isinstance(s, ast.AugAssign) and isinstance(s.op, ast.Add) and text(s.target) == 'pos':
        v = s.value
        if isinstance(v, ast.Constant) and isinstance(v.value, int) and v.value > 0:
            return True
        if text(v) == 'len(found)':
            return True
        return False
    if isinstance(s, ast.Assign) and text(s.targets[0]) == 'pos' and text(s.value) == '_len_text':
        return True
    return False


def r01c(chk, rid='R01.c'):
    """Tokenizer terminates and is total."""
    chk.rule(
        rid,
        'tokenizer totality/progress: (1) no production pattern is nullable; (2) every code '
        'point alone is accepted by some general production and CHAR is last; (3) on the CFG '
        'of Tokenizer.tokenize every iteration of the main loop passes a positive position '
        'update, the production loop cannot be skipped except by the IDENT-before-( guard; '
        '(4) no fast-path character can start any production but CHAR',
    )
    tt = TokTables(chk.repo)
    prods = all_productions(tt)
    nfas = {}
    for name, pat in prods:
        nfa = rx.compile_nfa(pat, tt.flags)
        nfas[name] = nfa
        chk.ob(rid, PRODS, 'PRODUCTIONS', f'(1) {name} not nullable', not nfa.nullable,
               f'pattern {pat[:60]!r} matches the empty string: the tokenizer would not advance')
    names = tt.names()
    chk.ob(rid, PRODS, 'PRODUCTIONS', '(2) CHAR is the last production', names[-1] == 'CHAR', f'order: {names}')
    chk.ob(rid, PRODS, 'PRODUCTIONS', '(2) BOM is the first production', names[0] == 'BOM', f'order: {names}')
    general = [n for n in names if n != 'BOM']
    cells = rx.partition([cs for n in general for cs in nfas[n].cs])
    uncovered = []
    for c in cells:
        if not any(nfas[n].start_step(c) & nfas[n].last for n in general):
            uncovered.append(c)
    chk.ob(rid, PRODS, 'PRODUCTIONS', f'(2) every single code point is a token of some production ({len(cells)} alphabet cells)',
           not uncovered, 'no production accepts the one-character text ' + ', '.join(repr(chr(c)) for c in uncovered[:8]))

    fn, g, w, f = tokenize_loop(chk)
    # any other assignment to pos is suspicious: must be one of the recognised forms
    for n in g.nodes:
        s = n.stmt
        if n.kind == 'stmt' and isinstance(s, (ast.Assign, ast.AugAssign)):
            tg = s.targets if isinstance(s, ast.Assign) else [s.target]
            if any(text(t) == 'pos' for t in tg) and n.stmt in list(ast.walk(w.stmt)):
                if not is_progress(n):
                    # a form the rule cannot decide (neither provably positive nor provably not)
                    raise AnalysisError(f'Tokenizer.tokenize: position update `{text(s)}` has a form the progress rule does not know (pos += <positive const> | pos += len(found) | pos = _len_text)')
                chk.ob(rid, TOK, 'Tokenizer.tokenize', f'(3) position update `{text(s)}` is a positive advance', True)
    # (3a) every way round the main loop passes a progress statement, the
    # exhaustion of the production loop excluded (shown impossible by (2)+(3b))
    def labels(a, b, lab):
        return not (a == f.id and lab == 'false')

    starts = [w.id]
    seen = g.reachable(starts, avoid=is_progress, labels=lambda a, b, lab: labels(a, b, lab) and not (a == w.id and lab == 'false'))
    ok = w.id not in seen
    chk.ob(rid, TOK, 'Tokenizer.tokenize', '(3) every iteration of `while pos < _len_text` advances pos',
           ok, '' if ok else 'path without position update: ' + ' -> '.join(g.path(seen, {w.id}, w.id)[-8:]))
    nprog = sum(1 for n in g.nodes if is_progress(n))
    if nprog < 3:
        raise AnalysisError(f'Tokenizer.tokenize: only {nprog} position updates recognised (3 confirmed by hand)')
    # (3b) continue statements inside the production loop only skip IDENT
    for n in g.nodes:
        if n.kind == 'continue' and n.stmt in list(ast.walk(f.stmt)):
            par = g.fn and chk.repo.mod(TOK).parents.get(n.stmt)
            okc = False
            if isinstance(par, ast.If):
                conj = par.test.values if isinstance(par.test, ast.BoolOp) and isinstance(par.test.op, ast.And) else [par.test]
                okc = any(text(c) in ("name == 'IDENT'", "'IDENT' == name") for c in conj)
            chk.ob(rid, TOK, 'Tokenizer.tokenize', '(3) `continue` in the production loop is guarded by name == IDENT',
                   okc, 'a continue that can skip CHAR/INVALID lets the production loop end without a token')
    # (4) fast path
    fast = None
    for n in g.nodes:
        if n.kind == 'if' and isinstance(n.stmt.test, ast.Compare) and isinstance(n.stmt.test.ops[0], ast.In):
            lit = const(n.stmt.test.comparators[0])
            if isinstance(lit, str) and text(n.stmt.test.left) == 'c' and any(isinstance(x, ast.Yield) for st in n.stmt.body for x in ast.walk(st)):
                fast = (n, lit)
    if fast is None:
        raise AnalysisError('Tokenizer.tokenize: fast path `if c in "..."` not found')
    for ch in fast[1]:
        others = [name for name, nfa in nfas.items() if name != 'CHAR' and ord(ch) in nfa.first_chars()]
        chk.ob(rid, TOK, 'Tokenizer.tokenize', f'(4) fast-path character {ch!r} starts no production but CHAR',
               not others, f'{ch!r} can also start {others}: those tokens would be split into CHARs')
    chk.ob(rid, TOK, 'Tokenizer.tokenize', '(4) fast-path characters are accepted by CHAR',
           all(ord(ch) in nfas['CHAR'].first_chars() for ch in fast[1]), 'a fast-path character CHAR itself refuses')
    return tt, nfas


# ---------------------------------------------------------------------------


def regex_inventory(repo):
    """Every literal regex applied by non-test code, with flags and the way it is
    applied.  (rel, owner, name, pattern, flags, method)"""
    out = []
    skip_funcs = {  # patterns assembled at run time; analysed through their tables
        ('cssutils/tokenize2.py', 'Tokenizer._expand_macros'),
        ('cssutils/tokenize2.py', 'Tokenizer._compile_productions'),
        ('cssutils/profiles.py', 'Profiles._expand_macros'),
        ('cssutils/util.py', 'LazyRegex.ensure'),
    }
    for rel, m in repo.modules.items():
        if rel in ('cssutils/sac.py', 'cssutils/css2productions.py', 'cssutils/css/cssvalue.py', 'conftest.py'):
            continue  # not imported by the package / legacy, not reachable from the public API
        for n in ast.walk(m.tree):
            if not isinstance(n, ast.Call):
                continue
            cn = call_name(n)
            if cn not in ('re.compile', 're.match', 're.search', 're.sub', 're.split', 're.findall', 're.fullmatch', 're.finditer'):
                continue
            owner = m.qualname_of(n)
            if (rel, owner) in skip_funcs:
                continue
            a = n.args[0] if n.args else None
            pat = const(a)
            if not isinstance(pat, str) and isinstance(a, ast.Name):
                # a local or module constant
                pat = _resolve_name(m, n, a.id)
            if not isinstance(pat, str) and isinstance(a, ast.Subscript) and isinstance(a.value, ast.Name):
                lst = _resolve_name(m, n, a.value.id, want=list)
                i = const(a.slice)
                if isinstance(lst, list) and isinstance(i, int) and i < len(lst):
                    pat = lst[i]
            if not isinstance(pat, str):
                raise AnalysisError(f'{rel}:{owner}: regex pattern is not a literal: {text(a)}')
            flags = 0
            if cn == 're.compile' and len(n.args) > 1:
                flags = _flags(n.args[1])
            if cn in ('re.match', 're.search', 're.fullmatch', 're.findall', 're.finditer') and len(n.args) > 2:
                flags = _flags(n.args[2])
            for k in n.keywords:
                if k.arg == 'flags':
                    flags = _flags(k.value)
            method = cn.split('.')[1]
            par = m.parents.get(n)
            if cn == 're.compile' and isinstance(par, ast.Attribute):
                method = par.attr
            out.append((rel, owner, pat, flags, method))
    return out


def _resolve_name(m, at, name, want=str):
    fn = m.enclosing_def(at)
    scopes = [fn] if fn is not None else []
    scopes.append(m.tree)
    for sc in scopes:
        for st in ast.walk(sc):
            if isinstance(st, ast.Assign) and any(isinstance(t, ast.Name) and t.id == name for t in st.targets):
                try:
                    v = ast.literal_eval(st.value)
                except Exception:
                    continue
                if isinstance(v, want):
                    return v
    return None


def eda_obligations(chk, rid, rel, owner, label, nfa, prefix_accepts, exempt=None):
    try:
        finds = rx.eda(nfa, prefix_accepts=prefix_accepts)
    except AnalysisError as e:
        raise AnalysisError(f'{label}: {e}')
    pairs = {}
    for f in finds:
        for a, b, cell in f['divergences']:
            pairs.setdefault((a, b), (f['prefix'], cell))
    if not pairs:
        chk.ob(rid, rel, owner, f'{label}: no exponential ambiguity before a match', True,
               'look-around assertions relaxed (superset of runs analysed)' if getattr(nfa, 'relaxed', False) else '')
        return 0
    if getattr(nfa, 'relaxed', False):
        raise AnalysisError(f'{label}: ambiguity found only after dropping a look-around assertion - cannot be decided')
    for (a, b), (prefix, cell) in sorted(pairs.items()):
        if exempt:
            chk.ob(rid, rel, owner, f'{label}: {a} || {b}', True, exempt, trivial=True)
        else:
            chk.ob(rid, rel, owner, f'{label}: {a} || {b}', False,
                   f'two ways to read {cell!r} inside a loop that must still be followed by more input: '
                   f'after the prefix {prefix!r} every further such character doubles the number of failing '
                   f'runs of the backtracking matcher (exponential time on unterminated input)')
    return len(pairs)


def r01d(chk, rid='R01.d', thorough=False):
    chk.rule(
        rid,
        'no pattern applied to input is exponentially ambiguous in the region where no prefix has '
        'been accepted yet (Glushkov automaton, lazily determinised; SCC of (subset,p,q) triples with '
        'a diagonal and an off-diagonal member); FUNCTION is exempt only while R05.c (IDENT guard) holds',
    )
    tt = TokTables(chk.repo)
    guard_ok, guard_detail = function_guard(chk.repo, tt)
    n = 0
    for name, pat in all_productions(tt):
        nfa = rx.compile_nfa(pat, tt.flags)
        exempt = None
        if name == 'FUNCTION' and guard_ok:
            exempt = ('exempt: FUNCTION is tried only after IDENT matched the same prefix and the next '
                      'character is "(" (guard verified: ' + guard_detail + ')')
        n += eda_obligations(chk, rid, PRODS, 'PRODUCTIONS', name, nfa, True, exempt)
    inv = regex_inventory(chk.repo)
    if len(inv) < 9:
        raise AnalysisError(f'regex inventory shrank to {len(inv)} (>= 9 confirmed by hand)')
    for rel, owner, pat, flags, method in inv:
        node = rx.parse(pat, flags)
        node2, begin, end = rx.strip_anchors(node)
        nfa = rx.NFA(node2)
        anch = end or method == 'fullmatch'
        eda_obligations(chk, rid, rel, owner, f'{method} {pat[:50]!r}', nfa, not anch)
    chk.extra['regexes_analysed'] = len(inv) + len(tt.productions) + 1
    return n


def function_guard(repo, tt):
    """R05.c: FUNCTION == IDENT followed by '(' and the tokenizer only retries
    FUNCTION after IDENT when the next character is '('."""
    names = tt.names()
    if 'IDENT' not in names or 'FUNCTION' not in names:
        return False, 'IDENT/FUNCTION missing'
    if names.index('IDENT') > names.index('FUNCTION'):
        return False, 'FUNCTION is tried before IDENT'
    ident = tt.full('IDENT')
    a = rx.compile_nfa('(?:%s)\\(' % ident, tt.flags)
    b = tt.nfa('FUNCTION')
    eq, w = rx.equivalent(a, b)
    if not eq:
        return False, f'FUNCTION is not IDENT followed by "(": they differ on {w!r}'
    fn = repo.fn(TOK, 'Tokenizer.tokenize')
    ok = False
    for n in ast.walk(fn):
        if isinstance(n, ast.If) and any(isinstance(s, ast.Continue) for s in n.body):
            conj = n.test.values if isinstance(n.test, ast.BoolOp) and isinstance(n.test.op, ast.And) else [n.test]
            ts = [text(c) for c in conj]
            if "name == 'IDENT'" in ts and any(t in ("text[match.end(0)] == '('", "'(' == text[match.end(0)]") for t in ts):
                ok = True
    if not ok:
        return False, 'the IDENT branch no longer tests that the next character is "("'
    return True, 'L(FUNCTION) = L(IDENT)·"(", IDENT precedes FUNCTION, continue only if next char is "("'
