"""C01 - totality of the hand-written block parsers, by evaluation with the real parse loop."""
from __future__ import annotations

from sa.core import pool_repo as core_pool_repo, pmap as core_pmap  # noqa: E402

import ast
import itertools

from sa.core import AnalysisError

UNKNOWN = 'cssutils/css/cssunknownrule.py'
UTIL = 'cssutils/util.py'


def _tk(v):
    if v == 'EOF':
        return ('EOF', '', 1, 1)
    return ('FUNCTION' if v.endswith('(') and len(v) > 1 else 'STRING' if v[:1] == '"' else 'URI' if v.startswith('url(') and v.endswith(')') else 'IDENT' if v[:1].isalpha() else 'INVALID' if v == "'open" else 'CHAR', v, 1, 1)


def _o_job(args):
    root, firsts, maxlen = args
    from sa.absint import Evaluator, Obj, Raised, Record

    from .c04 import bound_method
    from .c16b import seq_model
    from sa.core import Repo

    repo = core_pool_repo(root)
    m = repo.mod(UNKNOWN)
    fn = m.get('CSSUnknownRule._setCssText')
    log = Record(error=lambda *a, **k: None, warn=lambda *a, **k: None, info=lambda *a, **k: None, debug=lambda *a, **k: None)
    alphabet = ['x', ';', '{', '}', '(', ')', '[', ']', 'rgb(', '"s"', 'url(u)', "'open"]
    cases = 0
    bad = []
    accepted_bad = []
    for first in firsts:
        for n in range(0, maxlen):
            for tail in itertools.product(alphabet, repeat=n):
                for eof in (False, True):
                    vals = ('@foo', first) + tail + (('EOF',) if eof else ())
                    toks = [('ATKEYWORD', '@foo', 1, 1)] + [_tk(v) for v in vals[1:]]
                    stream = iter(toks)
                    committed = []
                    me = Obj(_log=log, atkeyword=None, _atkeyword=None, _prods=Record(ATKEYWORD='ATKEYWORD'), _valuestr=lambda t: 'text', _tokenize2=lambda t: stream,
                             _nexttoken=lambda tk, default=None: next(tk, default), _type=lambda tok: tok[0] if tok else None, _tokenvalue=lambda tok, normalize=False: tok[1] if tok else None,
                             _stringtokenvalue=lambda tok: tok[1][1:-1], _uritokenvalue=lambda tok: tok[1][4:-1], _tempSeq=lambda: seq_model(repo), _setSeq=lambda sq: committed.append(sq))
                    intr_util = {'Base': Record(_prods=Record(FUNCTION='FUNCTION')), 'chain': itertools.chain, 'cssutils': Record(css=Record(CSSUnknownRule=lambda *a, **k: Obj(wellformed=False), CSSComment=lambda *a, **k: Record(cssText='/**/')))}
                    me._parse = bound_method(repo, UTIL, 'Base._parse', me, intr_util)
                    me._adddefaultproductions = bound_method(repo, UTIL, 'Base._adddefaultproductions', me, intr_util)
                    intr = {'super': lambda *a: Record(_setCssText=lambda t: None), 'xml': Record(dom=Record(InvalidModificationErr='InvalidModificationErr', SyntaxErr='SyntaxErr')),
                            'self._log.error': log.error}
                    res = Evaluator(fn, intrinsics=intr, module=m, cls='CSSUnknownRule').run(self=me, cssText='text')
                    cases += 1
                    if isinstance(res, Raised):
                        bad.append((' '.join(vals), repr(res)))
                    elif committed:
                        # an accepted rule is balanced: every opener of its sequence has its closer
                        seqvals = [it.value for it in committed[-1]]
                        st = []
                        ok = True
                        for v in seqvals:
                            if isinstance(v, str) and (v in '([{' and v or v.endswith('(')) and v not in ('"("',):
                                if v in ('(', '[', '{') or (v.endswith('(') and len(v) > 1 and not v.startswith('"')):
                                    st.append({'(': ')', '[': ']', '{': '}'}[v[-1]])
                            elif v in (')', ']', '}'):
                                if not st or st.pop() != v:
                                    ok = False
                        if st or not ok:
                            accepted_bad.append((' '.join(vals), f'accepted with the sequence {seqvals}'))
    return cases, bad, accepted_bad


def r01o(chk, rid='R01.o', thorough=False):
    chk.rule(rid, 'totality of the unknown at-rule parser, decided by evaluation: CSSUnknownRule._setCssText is evaluated on its syntax tree together with the real parse loop (Base._parse and its default productions) on every token sequence of up to four (thorough: five) tokens behind the at-keyword over names, ";", the six brackets, a function token, a string, a url() and an unterminated string, with and without an end-of-input token - balanced or not, complete or cut off anywhere: no sequence ends in an exception (unbalanced and truncated input is reported through the log), and whatever is accepted has every bracket it opens closed')
    chk.assume('R01.o: the tokenizer is a token list; logging is a stub that does not raise (log mode); the sequence class is util.Seq evaluated from the source')
    import multiprocessing as mp

    alphabet = ['x', ';', '{', '}', '(', ')', '[', ']', 'rgb(', '"s"', 'url(u)', "'open"]
    maxlen = 4 if thorough else 3
    ctx = mp.get_context('fork')
    res = core_pmap(chk.repo, _o_job, [(chk.repo.root, [a], maxlen) for a in alphabet], len(alphabet))
    cases = sum(r[0] for r in res)
    bad = [x for r in res for x in r[1]]
    acc = [x for r in res for x in r[2]]
    if cases < 3000:
        raise AnalysisError(f'only {cases} token sequences enumerated')
    chk.extra['unknown_rule_sequences'] = cases
    chk.ob(rid, UNKNOWN, 'CSSUnknownRule._setCssText', f'no token sequence behind an unknown at-keyword raises ({cases} sequences)', not bad,
           '; '.join(f'`{t}`: {w}' for t, w in bad[:3]) + f' ({len(bad)} sequences): the exception leaves parseString')
    chk.ob(rid, UNKNOWN, 'CSSUnknownRule._setCssText', 'an accepted unknown rule is balanced', not acc, '; '.join(f'`{t}`: {w}' for t, w in acc[:3]) + f' ({len(acc)} sequences)')


def r01p(chk, rid='R01.p'):
    chk.rule(rid, 'stored tokens survive the hand-over to the next parser, decided by evaluation: the toStore function that Prod builds from a key '
                  '(nested in Prod.__init__) is evaluated on its syntax tree for one, two and three stored tokens, and Base._tokenize2 is evaluated on '
                  'whatever it leaves in the store (a bare token, a list), on a generator and on nothing: iterating the result yields exactly the stored '
                  'tokens, each a (type, value, line, col) tuple - a one-token body (`@top-left { x }`) must not be taken apart into its four fields')
    from sa.absint import Evaluator, Raised, Record

    PP = 'cssutils/prodparser.py'
    UT = 'cssutils/util.py'
    pm = chk.repo.mod(PP)
    um = chk.repo.mod(UT)
    mk = next((n for n in ast.walk(pm.tree) if isinstance(n, ast.FunctionDef) and n.name == 'makeToStore'), None)
    inner = mk and next((n for n in mk.body if isinstance(n, ast.FunctionDef)), None)
    if inner is None:
        raise AnalysisError('the toStore factory of Prod (makeToStore with a nested function) was not found')
    keyname = mk.args.args[0].arg
    tok2 = um.get('Base._tokenize2')
    toks = [('IDENT', 'x', 1, 9), ('S', ' ', 1, 10), ('CHAR', ';', 1, 11)]

    def tokenize2(arg):
        tk = Record(tokenize=lambda text, fullsheet=False: iter([('IDENT', text, 1, 1)]))
        me = Record(**{'_Base__tokenizer2': tk, '__tokenizer2': tk})
        r = Evaluator(tok2, module=um, cls='Base').run(self=me, textortokens=arg)
        if isinstance(r, Raised):
            return r
        if r is None:
            return []
        try:
            return list(r)
        except TypeError:
            return Raised(TypeError('result is not iterable'))

    for k in (1, 2, 3):
        store = {}
        for t in toks[:k]:
            r = Evaluator(inner, intrinsics={keyname: 'styletokens'}, module=pm).run(store=store, item=t)
            if isinstance(r, Raised):
                raise AnalysisError(f'toStore raised {r!r}')
        stored = store.get('styletokens')
        got = tokenize2(stored)
        chk.ob(rid, UT, 'Base._tokenize2', f'{k} stored token(s) ({type(stored).__name__} in the store) come back as {k} token(s)', got == toks[:k],
               f'stored {stored!r}, the next parser reads {got!r}: a page-margin box with a one-token body makes parseString raise')
    got = tokenize2(t for t in toks)
    chk.ob(rid, UT, 'Base._tokenize2', 'a token generator is passed through', got == toks, f'{got!r}')
    got = tokenize2(list(toks))
    chk.ob(rid, UT, 'Base._tokenize2', 'a token list is passed through', got == toks, f'{got!r}')
    got = tokenize2('abc')
    chk.ob(rid, UT, 'Base._tokenize2', 'text goes to the tokenizer', got == [('IDENT', 'abc', 1, 1)], f'{got!r}')
    for empty in (None, '', []):
        got = tokenize2(empty)
        chk.ob(rid, UT, 'Base._tokenize2', f'nothing ({empty!r}) yields no tokens', got == [], f'{got!r}')
