"""C04 - statement-level containment of the style sheet parser, by evaluation with the real
parse loop and the real bracket counter (kept apart from c04.py: it is run by C04 as R04.l)."""
from __future__ import annotations

from sa.core import pool_repo as core_pool_repo, pmap as core_pmap  # noqa: E402

import itertools

from sa.core import AnalysisError

from .c04 import SHEET, UTIL, _balanced_exact, _tok, _top_level, _top_level_block, bound_method


def _l_job(args):
    root, group, maxlen = args
    from sa.absint import Evaluator, Loose, Obj, Raised, Record
    from sa.core import Repo

    repo = core_pool_repo(root)
    m = repo.mod(SHEET)
    fn = m.get('CSSStyleSheet._setCssText')
    log = Record(error=lambda *a, **k: None, warn=lambda *a, **k: None, info=lambda *a, **k: None, debug=lambda *a, **k: None)
    good1 = [_tok('a'), _tok('{'), _tok('}')]
    good2 = [_tok('b'), _tok('{'), _tok('}')]
    closing = {'(': ')', '[': ']', '{': '}', 'f(': ')'}

    def statements():
        """(label class, token list) of damaged / unknown / misplaced statements of this group."""
        if group in ('x', 'f(', '(', '['):
            for plen in range(0, maxlen + 1):
                for prelude in _balanced_exact(2, plen):
                    if group in closing:
                        body = (group,) + prelude + (closing[group],)
                        tail_ok = True
                    else:
                        body = (group,) + prelude
                    inner = body[1:]
                    if ';' in _top_level(body) or _top_level_block(body):
                        continue
                    for end in [(';',)] + [('{',) + b + ('}',) for blen in range(0, max(0, maxlen - plen)) for b in _balanced_exact(2, blen)]:
                        yield [_tok(v) for v in body + end]
        else:
            at = {'@foo': 'ATKEYWORD', '@import': 'IMPORT_SYM', '@charset ': 'CHARSET_SYM', '@namespace': 'NAMESPACE_SYM', '@top-left': 'ATKEYWORD'}[group]
            for plen in range(0, maxlen + 1):
                for prelude in _balanced_exact(2, plen):
                    if ';' in _top_level(prelude) or _top_level_block(prelude):
                        continue
                    ends = [(';',)]
                    if at == 'ATKEYWORD':
                        ends += [('{',) + b + ('}',) for blen in range(0, max(0, maxlen - plen)) for b in _balanced_exact(2, blen)]
                    for end in ends:
                        yield [(at, group, 1, 1)] + [_tok(v) for v in prelude + end]

    cases = 0
    bad = []
    for damaged in statements():
        toks = good1 + damaged + good2
        made = []

        class RuleM(Obj):
            kind = 'rule'
            margins = ('@top-left', '@bottom-center')

            def __init__(self, *a, **k):
                Obj.__init__(self, tokens=None, args=(a, k), prefix='p', namespaceURI='u', NAMESPACE_RULE=10, type=1)
                made.append(self)
                for x in a:
                    if isinstance(x, list):
                        object.__setattr__(self, 'tokens', list(x))
                if isinstance(k.get('cssText'), list):
                    object.__setattr__(self, 'tokens', list(k['cssText']))

            @property
            def wellformed(self):
                return self.tokens in (good1, good2)

            @property
            def cssText(self):
                return self.tokens

            @cssText.setter
            def cssText(self, v):
                object.__setattr__(self, 'tokens', list(v))

        class Me(Obj):
            @property
            def cssRules(self):
                return self._cssRules

            @cssRules.setter
            def cssRules(self, v):
                object.__setattr__(self, '_cssRules', v)

        names = ('CSSComment', 'CSSCharsetRule', 'CSSImportRule', 'CSSNamespaceRule', 'CSSVariablesRule', 'CSSFontFaceRule', 'CSSMediaRule', 'CSSPageRule', 'MarginRule', 'CSSUnknownRule', 'CSSStyleRule')
        css = Record(CSSRuleList=lambda *a: [], **{nm: type(nm, (RuleM,), {'kind': nm}) for nm in names})
        me = Me(_cssRules=['old'], _namespaces=Loose(), namespaces={}, _variables=None, _log=log, _checkReadonly=lambda: None, _splitNamespacesOff=lambda t: (t, {}),
                _tokenize2=lambda t, toks=toks: iter(toks), _tokenvalue=lambda tok, normalize=False: (tok[1].lower() if normalize else tok[1]) if tok else None,
                _type=lambda tok: tok[0] if tok else None, _valuestr=lambda t: 'text', _cleanNamespaces=lambda: None, _updateVariables=lambda: None)
        me.insertRule = lambda r, *a, **k: me._cssRules.append(r)
        intr_util = {'Base': Record(_prods=Record(FUNCTION='FUNCTION')), 'chain': itertools.chain, 'cssutils': Record(css=css)}
        me._tokensupto2 = bound_method(repo, UTIL, 'Base._tokensupto2', me, intr_util)
        me._adddefaultproductions = bound_method(repo, UTIL, 'Base._adddefaultproductions', me, intr_util)
        me._parse = bound_method(repo, UTIL, 'Base._parse', me, intr_util)
        intr = {'cssutils': Record(css=css), 'xml': Record(dom=Record(HierarchyRequestErr='HierarchyRequestErr')), 'CSSVariablesDeclaration': lambda *a, **k: 'vars', '_Namespaces': lambda *a, **k: Loose(),
                'self._log.error': log.error, 'self._log.warn': log.warn}
        res = Evaluator(fn, intrinsics=intr, module=m, cls='CSSStyleSheet').run(self=me, cssText='text')
        cases += 1
        kept = [getattr(r, 'tokens', r) for r in me._cssRules]
        handed = [r.tokens for r in made if r.tokens]
        ok = not isinstance(res, Raised) and kept == [good1, good2] and handed == [good1, damaged, good2]
        if not ok:
            text_ = ' '.join(t[1].strip() for t in damaged)
            what = repr(res) if isinstance(res, Raised) else f'rules kept {[" ".join(t[1] for t in r) if isinstance(r, list) else r for r in kept]}; statements seen {[" ".join(t[1] for t in r) for r in handed]}'
            bad.append((text_, what))
    return group, cases, bad


def r04l(chk, rid='R04.l', thorough=False):
    chk.rule(rid, 'containment at statement level, decided by evaluation across two modules: CSSStyleSheet._setCssText, the parse loop Base._parse with its default productions and the bracket counter Base._tokensupto2 are evaluated together on their syntax trees (rule classes are models that record the tokens they are handed) on token streams `a{} <statement> b{}` where the statement is damaged, unknown or misplaced - a rule set that starts with a name, a function token or an opening bracket, an unknown at-rule, a page-margin at-rule outside @page, a misplaced @import, @charset or @namespace - with a balanced prelude (brackets of all kinds, ";" inside brackets) and a ";" or a balanced block as its end: each statement object is handed exactly the tokens of its own statement, and the sheet ends up with exactly the rules a{} and b{}')
    chk.assume('R04.l: rule classes are models that are well-formed only for the two good rules; the tokenizer is a token list; statements up to a length bound with nesting depth 2')
    import multiprocessing as mp

    groups = ('x', 'f(', '(', '[', '@foo', '@top-left', '@import', '@charset ', '@namespace')
    maxlen = 5 if thorough else 4
    ctx = mp.get_context('fork')
    res = core_pmap(chk.repo, _l_job, [(chk.repo.root, g, maxlen) for g in groups], len(groups))
    total = sum(c for _, c, _ in res)
    if total < 500:
        raise AnalysisError(f'only {total} statements enumerated')
    chk.extra['damaged_statements'] = total
    for group, cases, bad in res:
        chk.ob(rid, SHEET, 'CSSStyleSheet._setCssText', f'a damaged, unknown or misplaced statement that starts with `{group.strip()}` costs only itself ({cases} statements)', not bad,
               '; '.join(f'`a{{}} {d} b{{}}`: {w}' for d, w in bad[:2]) + f' ({len(bad)} cases): a rule behind the statement is lost or the statement is cut in two')


_MRUNS = {}


def _mode_runs(n, depth=2):
    key = (n, depth)
    if key not in _MRUNS:
        if n == 0:
            _MRUNS[key] = [()]
        else:
            cur = []
            for first in ('y', ';', ':', '!', ',', '"s"', 'q\\('):
                cur += [(first,) + r for r in _mode_runs(n - 1, depth)]
            if depth > 0:
                for o, c in (('(', ')'), ('[', ']'), ('{', '}'), ('f(', ')')):
                    for k in range(0, n - 1):
                        for inner in _mode_runs(k, depth - 1):
                            for rest in _mode_runs(n - 2 - k, depth):
                                cur.append((o,) + inner + (c,) + rest)
            _MRUNS[key] = cur
    return _MRUNS[key]


# mode -> (values that end it at depth 0, token types that end it at depth 0)
MODES = {
    'blockstartonly': (('{',), ()), 'blockendonly': (('}',), ()), 'mediaendonly': (('}',), ()), 'semicolon': ((';',), ()), 'propertypriorityendonly': ((';',), ()),
    'propertynameendonly': ((':', ';'), ()), 'propertyvalueendonly': ((';', '!'), ()), 'listseponly': ((',',), ()),
    'importmediaqueryendonly': ((';',), ('STRING',)), 'mediaqueryendonly': (('{',), ('STRING',)),
}


def _mtok(v):
    if v == '"s"':
        return ('STRING', v, 1, 1)
    if v == 'q\\(':
        return ('IDENT', v, 1, 1)
    return _tok(v) if v not in (':', '!', ',') else ('CHAR', v, 1, 1)


def _m_job(args):
    root, mode, maxlen = args
    from sa.absint import Evaluator, Raised, Record
    from sa.core import Repo

    repo = core_pool_repo(root)
    m = repo.mod(UTIL)
    fn = m.get('Base._tokensupto2')
    if mode not in [a.arg for a in fn.args.args]:
        raise AnalysisError(f'Base._tokensupto2 has no mode {mode}')
    me = Record(_tokenvalue=lambda tok, normalize=False: tok[1] if tok else None, _type=lambda tok: tok[0] if tok else None)
    intr = {'Base': Record(_prods=Record(FUNCTION='FUNCTION'))}
    ends, endtypes = MODES[mode]
    rest = [_tok('x'), ('CHAR', ':', 1, 1), _tok('x')]
    cases = 0
    bad = []
    for n in range(0, maxlen + 1):
        for run in _mode_runs(n):
            top = _top_level(run)
            if any(v in ends for v in top) or (endtypes and '"s"' in top):
                continue  # the content would end earlier
            if '{' in ends and _top_level_block(run):
                continue
            terms = list(ends) + (['"s"'] if endtypes else [])
            for term in terms:
                toks = [_mtok(v) for v in run + (term,)]
                stream = iter(toks + rest)
                got = Evaluator(fn, intrinsics=intr, module=m, cls='Base').run(self=me, tokenizer=stream, **{mode: True})
                left = list(stream)
                cases += 1
                if isinstance(got, Raised) or got != toks or left != rest:
                    bad.append((' '.join(run + (term,)), repr(got) if isinstance(got, Raised) else f'takes {len(got)} of {len(toks)} tokens'))
    return mode, cases, bad


def r04m(chk, rid='R04.m', thorough=False):
    chk.rule(rid, 'the splitting modes of the bracket counter, decided by evaluation: Base._tokensupto2 is evaluated on its syntax tree in every mode the rule classes use (start of a block, end of a block, end of a media block, ";", the ends of a property name, value and priority, the list separator, the ends of the media queries of @import and @media) on every balanced run of names (one of them ending in an escaped parenthesis), strings, ";", ":", "!", "," and brackets of all kinds that does not contain the end mark of the mode at its top level, followed by each end mark of the mode and by further tokens: it returns exactly the run and its end mark - an end mark inside brackets, a block or a function does not end it')
    chk.assume('R04.m: the end marks per mode are the table in the checker (from the parameter comments of _tokensupto2 and the call sites); runs up to a length bound with nesting depth 2')
    import multiprocessing as mp

    maxlen = 4 if thorough else 3
    ctx = mp.get_context('fork')
    res = core_pmap(chk.repo, _m_job, [(chk.repo.root, mode, maxlen) for mode in MODES], len(MODES))
    total = sum(c for _, c, _ in res)
    if total < 1500:
        raise AnalysisError(f'only {total} mode cases enumerated')
    chk.extra['bracket_counter_mode_cases'] = total
    for mode, cases, bad in res:
        chk.ob(rid, UTIL, 'Base._tokensupto2', f'mode {mode}: ends exactly at its end mark outside all brackets ({cases} runs)', not bad,
               '; '.join(f'`{r}`: {w}' for r, w in bad[:3]) + f' ({len(bad)} runs): a selector, value or block that contains the end mark inside brackets is cut there, the rest is parsed as something else')
