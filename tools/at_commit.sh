#!/bin/bash
# Dev tool: run checks against /repo at another commit. usage: at_commit.sh <commit> <ID>...
C="$1"; shift; W=$(mktemp -d /tmp/atc.XXXXXX)
git -C /repo worktree add -q --detach "$W/t" "$C" || exit 3
for id in "$@"; do (cd /verif && VERIF_REPO="$W/t" VERIF_EVIDENCE_DIR="$W/ev" VERIF_OUT_DIR="$W/out" ./check $id | grep -v "^VIOLATION\|^KNOWN" | cut -c1-260); done
git -C /repo worktree remove --force "$W/t"; rm -rf "$W"
