"""C06 - serializer preferences do exactly what they document (structural parts)."""
from __future__ import annotations

import ast
import re

from sa.core import AnalysisError, call_name, const, text

SER = 'cssutils/serialize.py'
LAYOUT = {'indent', 'indentClosingBrace', 'lineSeparator', 'listItemSpacer', 'paranthesisSpacer', 'propertyNameSpacer', 'selectorCombinatorSpacer', 'spacer'}


def run(chk):
    r06a(chk)
    r06b(chk)
    from .c16 import r16b
    from .c18 import r18a, r18d

    r16b(chk, 'R06.c')
    r18d(chk, 'R06.d')
    r18a(chk, 'R06.e')


def pref_sets(repo):
    m = repo.mod(SER)
    cls = m.get('Preferences', ast.ClassDef)
    doc = ast.get_docstring(cls) or ''
    documented = set(re.findall(r'^(\w+) = ', doc, flags=re.M))

    def assigned(fn):
        return {t.attr: n.value for n in ast.walk(fn) if isinstance(n, ast.Assign) for t in n.targets if isinstance(t, ast.Attribute) and text(t.value) == 'self'}

    defaults = assigned(m.get('Preferences.useDefaults'))
    minified = assigned(m.get('Preferences.useMinified'))
    reads = {}
    for rel, mod in repo.modules.items():
        if rel in ('cssutils/sac.py', 'cssutils/css/cssvalue.py', 'conftest.py'):
            continue
        for n in ast.walk(mod.tree):
            if isinstance(n, ast.Attribute) and isinstance(n.ctx, ast.Load) and isinstance(n.value, ast.Attribute) and n.value.attr == 'prefs':
                reads.setdefault(n.attr, []).append((rel, mod.qualname_of(n)))
    return m, documented, defaults, minified, reads


def r06a(chk, rid='R06.a'):
    chk.rule(rid, 'preference vocabulary agreement: the names documented in the Preferences docstring, assigned in useDefaults, assigned in useMinified and read as prefs.X anywhere in the package satisfy documented = defaults, minified ⊆ defaults (so restoring the defaults restores every preference the preset touches), reads ⊆ defaults (no read of an undefined preference) and every default is read somewhere (no dead preference)')
    m, documented, defaults, minified, reads = pref_sets(chk.repo)
    if len(defaults) < 24 or len(documented) < 24:
        raise AnalysisError(f'preferences not recognised: {len(documented)} documented, {len(defaults)} defaults')
    chk.extra['preferences'] = sorted(defaults)
    for n in sorted(documented | set(defaults)):
        chk.ob(rid, SER, 'Preferences', f'{n} is documented and has a default', n in documented and n in defaults,
               ('documented but never given a default' if n not in defaults else 'has a default but is not documented'))
    for n in sorted(minified):
        chk.ob(rid, SER, 'Preferences.useMinified', f'{n} is reset by useDefaults', n in defaults, 'useDefaults() after useMinified() leaves this preference changed: the default output is not restored')
    for n in sorted(reads):
        if n.startswith('use') or n.startswith('__'):
            continue
        chk.ob(rid, reads[n][0][0], reads[n][0][1], f'prefs.{n} is a defined preference', n in defaults, 'AttributeError at serialisation time (or a silently ignored option)', trivial=True)
    for n in sorted(defaults):
        chk.ob(rid, SER, 'Preferences.useDefaults', f'{n} is consulted by the serializer', n in reads, 'the documented preference has no effect')
    # the minified preset only uses values of the documented kinds
    for n, v in sorted(minified.items()):
        dv = defaults.get(n)
        same_kind = dv is None or type(const(v, default=object)) is type(const(dv, default=object)) or const(dv) is None or isinstance(dv, ast.BinOp)
        chk.ob(rid, SER, 'Preferences.useMinified', f'{n} = {text(v)} has the kind of its default', same_kind, f'default is {text(dv)}', trivial=True)


def r06b(chk, rid='R06.b'):
    chk.rule(rid, 'layout preferences never select content: a branch whose condition reads a pure layout preference (indent, indentClosingBrace, lineSeparator, the spacer strings) contains no `continue`, no `return` of an empty value and no deletion - it can only add or remove white space; content filters are separate preferences')
    m = chk.repo.mod(SER)
    n_cond = 0
    for q, fn in m.functions():
        for node in ast.walk(fn):
            if not isinstance(node, (ast.If, ast.IfExp)):
                continue
            prefs = {a.attr for a in ast.walk(node.test) if isinstance(a, ast.Attribute) and isinstance(a.value, ast.Attribute) and a.value.attr == 'prefs'}
            lay = prefs & LAYOUT
            if not lay or (prefs - LAYOUT):
                continue
            if m.enclosing_def(node) is not fn:
                continue
            n_cond += 1
            if isinstance(node, ast.IfExp):
                chk.ob(rid, SER, q, f'`{text(node.test)[:60]}` selects between two strings', True)
                continue
            bad = []
            for st in node.body + node.orelse:
                for s in ast.walk(st):
                    if isinstance(s, ast.Continue) or isinstance(s, ast.Delete):
                        bad.append(text(s))
                    if isinstance(s, ast.Return) and (s.value is None or (isinstance(s.value, ast.Constant) and not s.value.value)):
                        bad.append(text(s))
                    if isinstance(s, ast.Call) and (call_name(s).startswith('self.do_') or (isinstance(s.func, ast.Attribute) and s.func.attr in ('cssText', 'pop', 'remove', 'clear'))):
                        bad.append(text(s)[:40])
            chk.ob(rid, SER, q, f'`if {text(node.test)[:70]}` only affects white space', not bad, f'under a layout preference: {bad} - tokens of the output would depend on layout settings')
    if n_cond < 4:
        raise AnalysisError(f'only {n_cond} layout conditions found (>= 4 confirmed by hand)')
