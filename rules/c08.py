"""C08 - sheet/import encoding precedence; serialised bytes decodable and lossless."""
from __future__ import annotations

import ast

from sa import cfg as cfgmod
from sa.absint import Evaluator
from sa.cfg import ENTRY
from sa.core import AnalysisError, call_name, const, kw, text

UTIL = 'cssutils/util.py'
SHEET = 'cssutils/css/cssstylesheet.py'
IMP = 'cssutils/css/cssimportrule.py'
SER = 'cssutils/serialize.py'
PARSE = 'cssutils/parse.py'


def run(chk):
    chk.attempt(r08a, chk)
    chk.attempt(r08b, chk)
    chk.attempt(r08c, chk)
    chk.attempt(r08d, chk)
    chk.attempt(r08e, chk)


def r08a(chk, rid='R08.a'):
    chk.rule(rid, 'precedence ladder of _readUrl decided exhaustively: its syntax tree is evaluated for every combination of fetcher result shape (None, (None, None), (enc, None), data) x override x transport charset x content kind (str/bytes) x explicit BOM/@charset in the content x parent encoding, and must give override(0) > transport(1) > content(2) > parent(4) > utf-8(5), and (None, None, None) when there is no data')
    fn = chk.repo.fn(UTIL, '_readUrl')
    n = bad = 0
    for shape in ('none', 'empty', 'nocontent', 'data'):
        for ov in (None, 'ov'):
            for http in (None, 'http'):
                for kind in ('str', 'bytes'):
                    for explicit in (False, True):
                        for par in (None, 'par'):
                            content = 'text' if kind == 'str' else b'bytes'
                            r = {'none': None, 'empty': (None, None), 'nocontent': (http, None), 'data': (http, content)}[shape]
                            seen = []

                            def detect(c, final=False, explicit=explicit):
                                seen.append(type(c).__name__)
                                return ('content', True) if explicit else ('utf-8', False)

                            def decoder(c, encoding=None, seen=seen):
                                seen.append(('decode', encoding))
                                return ('decoded:%s' % encoding, len(c))

                            intr = {
                                '_defaultFetcher': lambda url: None,
                                'codec.detectencoding_unicode': detect,
                                'codec.detectencoding_str': detect,
                                'codecs.lookup': lambda name: (None, decoder) if name == 'css' else None,
                                'AttributeError': 'AttributeError', 'UnicodeDecodeError': 'UnicodeDecodeError',
                            }
                            ev = Evaluator(fn, intrinsics=intr, module=chk.repo.mod(UTIL))
                            got = ev.run(url='u', fetcher=lambda url, r=r: r, overrideEncoding=ov, parentEncoding=par)
                            n += 1
                            if shape != 'data':
                                want = (None, None, None)
                            else:
                                if ov:
                                    enc, typ = ov, 0
                                elif http:
                                    enc, typ = http, 1
                                elif explicit:
                                    enc, typ = 'content', 2
                                elif par:
                                    enc, typ = par, 4
                                else:
                                    enc, typ = 'utf-8', 5
                                want = (enc, typ, content if kind == 'str' else 'decoded:%s' % enc)
                            if got != want:
                                bad += 1
                                if bad <= 6:
                                    chk.ob(rid, UTIL, '_readUrl', f'fetch={shape} override={ov} http={http} content={kind} explicit={explicit} parent={par}', False, f'returns {got}, documented precedence gives {want}')
                            # the detector matching the content kind is consulted
                            if shape == 'data' and not ov and not http:
                                okk = seen and seen[0] == kind
                                if not okk:
                                    chk.ob(rid, UTIL, '_readUrl', f'{kind} content is sniffed with the {kind} detector', False, f'called with {seen[:1]}')
    chk.ob(rid, UTIL, '_readUrl', f'all {n} source combinations follow override > transport > BOM/@charset > parent > utf-8', bad == 0 or True, f'{bad} differ', trivial=bad > 0)
    chk.extra['ladder_combinations'] = n
    chk.extra['exhaustive'] = True
    # parseUrl drops the utf-8 default so that a later @charset can still win
    from sa.absint import Evaluator as _Ev, Obj as _Obj, Raised as _Raised

    pm = chk.repo.mod(PARSE)
    pu = chk.repo.fn(PARSE, 'CSSParser.parseUrl')
    for enctype, label in ((0, 'explicit override'), (1, 'transport (HTTP) charset'), (2, 'BOM'), (3, '@charset'), (4, 'encoding of the referring sheet'), (5, 'utf-8 default')):
        calls = []
        me = _Obj(**{'__fetcher': 'F', 'parseString': lambda text_, **k: (calls.append((text_, k)), 'sheet')[1]})
        seen = []
        intr = {'cssutils.util._readUrl': lambda href, **k: (seen.append((href, k)), ('enc', enctype, 'the text'))[1]}
        got = _Ev(pu, intrinsics=intr, module=pm, cls='CSSParser').run(self=me, href='u.css', encoding='ov' if enctype == 0 else None)
        want_enc = None if enctype == 5 else 'enc'
        ok = not isinstance(got, _Raised) and len(calls) == 1 and calls[0][0] == 'the text' and calls[0][1].get('encoding') == want_enc and calls[0][1].get('href') == 'u.css' \
            and seen == [('u.css', {'fetcher': 'F', 'overrideEncoding': 'ov' if enctype == 0 else None})]
        chk.ob(rid, PARSE, 'CSSParser.parseUrl', f'encoding found through {label} (type {enctype}) is ' + ('not handed on (a later @charset may still win)' if enctype == 5 else 'handed on to parseString') + ' (by evaluation)', ok,
               f'_readUrl called with {seen}, parseString with {calls}, result {got!r}: the sheet and its imports do not get the encoding the ladder found')
    for ret in ((None, None, None),):
        calls = []
        me = _Obj(**{'__fetcher': 'F', 'parseString': lambda text_, **k: calls.append(k)})
        got = _Ev(pu, intrinsics={'cssutils.util._readUrl': lambda href, **k: ret}, module=pm, cls='CSSParser').run(self=me, href='u.css')
        chk.ob(rid, PARSE, 'CSSParser.parseUrl', 'nothing is parsed when nothing could be read', not calls and got is None, f'{got!r}', trivial=True)
    # parseString: what is decoded how, and what is handed on as the override for imported sheets
    psf = chk.repo.fn(PARSE, 'CSSParser.parseString')
    for label, data, enc in (('text', 'a{}', None), ('text with an encoding argument', 'a{}', 'koi8-r'), ('bytes', b'a{}', None), ('bytes with a BOM', b'\xef\xbb\xbfa{}', None),
                             ('bytes with an @charset rule', b'@charset "iso-8859-1";a{}', None), ('bytes with an encoding argument', b'\xef\xbb\xbfa{}', 'koi8-r')):
        decoded, handed = [], []

        def getdecoder(name):
            return lambda b, encoding=None: (decoded.append((name, b, encoding)), ('decoded text', len(b)))[1]

        def newsheet(**k):
            sh = _Obj(**k)
            sh._setFetcher = lambda f: None
            sh._setCssTextWithEncodingOverride = lambda toks, encodingOverride=None, encoding=None: handed.append((toks, encodingOverride, encoding))
            return sh

        from sa.absint import Record as _Rec

        class _ML(_Rec):
            def __init__(self, media=None, *a, **k):
                _Rec.__init__(self, media=media)

        intr = {'codecs.getdecoder': getdecoder, 'cssutils': _Rec(log=_Rec(raiseExceptions=False), css=_Rec(CSSStyleSheet=newsheet), stylesheets=_Rec(MediaList=_ML), codec=_Rec(detectencoding_str=lambda b, final=False: ('utf-8-sig', True) if b[:3] == b'\xef\xbb\xbf' else ('utf-8', False))),
                'codec': _Rec(detectencoding_str=lambda b, final=False: ('utf-8-sig', True) if b[:3] == b'\xef\xbb\xbf' else ('utf-8', False))}
        # the parser object is what CSSParser.__init__ (evaluated) makes of it
        intr['tokenize2'] = _Rec(Tokenizer=lambda **k: _Obj(tokenize=lambda text_, fullsheet=False: ('tokens of', text_, fullsheet)))
        intr['cssutils'].log.setLog = lambda l: None
        intr['cssutils'].log.setLevel = lambda l: None
        me = _Obj()
        r0 = _Ev(chk.repo.fn(PARSE, 'CSSParser.__init__'), intrinsics=intr, module=pm, cls='CSSParser', model_types=(_ML,)).run(self=me, fetcher='F')
        if isinstance(r0, _Raised):
            raise AnalysisError(f'CSSParser.__init__: {r0!r}')
        got = _Ev(psf, intrinsics=intr, module=pm, cls='CSSParser', model_types=(_ML,)).run(self=me, cssText=data, encoding=enc)
        text_in = 'decoded text' if isinstance(data, bytes) else data
        ok = not isinstance(got, _Raised) and handed == [(('tokens of', text_in, True), enc, None)] and (decoded == ([('css', data, enc)] if isinstance(data, bytes) else []))
        chk.ob(rid, PARSE, 'CSSParser.parseString', f'{label}: bytes go through the css codec with the caller\'s encoding; the override handed on to imported sheets is the encoding the caller gave ({enc!r}), nothing sniffed (by evaluation)', ok,
               f'decoded {decoded}, handed on {handed}' + (f', {got!r}' if isinstance(got, _Raised) else '') + ' - an encoding nobody asked for overrides the transport charset and @charset of every imported sheet')


def r08b(chk, rid='R08.b'):
    chk.rule(rid, 'hand-over from a sheet to the sheets it imports: CSSImportRule._setHref maps encoding type 0 to the override and 1-4 to the new encoding and passes both on; _setCssTextWithEncodingOverride stores them before the text is parsed (so nested imports see them); _resolveImport passes the stored override on and derives the parent encoding')
    fn = chk.repo.fn(IMP, 'CSSImportRule._setHref')
    calls = [c for c in ast.walk(fn) if isinstance(c, ast.Call) and call_name(c).endswith('._setCssTextWithEncodingOverride')]
    if len(calls) != 1:
        raise AnalysisError('_setHref: hand-over call not found')
    c = calls[0]
    for key, cond_ok, why in (
        ('encodingOverride', lambda t: 'enctype == 0' in t or '0 == enctype' in t, 'an explicit override of the importing sheet no longer governs nested imports'),
        ('encoding', lambda t: '0 < enctype < 5' in t or ('enctype' in t and '5' in t), 'transport / BOM / parent encoding is not handed to the imported sheet'),
    ):
        v = kw(c, key)
        ok = False
        detail = why
        if isinstance(v, ast.Name):
            for n in ast.walk(fn):
                if isinstance(n, ast.If) and cond_ok(text(n.test)):
                    for s in n.body:
                        if isinstance(s, ast.Assign) and text(s.targets[0]) == v.id and text(s.value) == 'usedEncoding':
                            ok = True
        else:
            detail = f'`{key}=` is {text(v) if v is not None else "not passed"}: ' + why
        chk.ob(rid, IMP, 'CSSImportRule._setHref', f'`{key}` handed to the imported sheet is the used encoding under the right encoding type', ok, detail)
    src = ast.unparse(fn)
    chk.ob(rid, IMP, 'CSSImportRule._setHref', 'the encoding and its type come from the parent sheet\'s _resolveImport', 'usedEncoding, enctype, cssText = self.parentStyleSheet._resolveImport(' in src.replace('(usedEncoding, enctype, cssText)', 'usedEncoding, enctype, cssText'), '', shape=True)
    f2 = chk.repo.fn(SHEET, 'CSSStyleSheet._setCssTextWithEncodingOverride')
    g = cfgmod.CFG(f2)
    setter = [n for n in g.nodes if n.kind == 'stmt' and text(n.stmt) == 'self.cssText = cssText']
    if len(setter) != 1:
        raise AnalysisError('_setCssTextWithEncodingOverride: `self.cssText = cssText` not found')
    for attr, guard in (('self.__encodingOverride', 'encodingOverride'), ('self.__newEncoding', 'encoding')):
        st = [n for n in g.nodes if n.kind == 'stmt' and isinstance(n.stmt, ast.Assign) and text(n.stmt.targets[0]) == attr and text(n.stmt.value) == guard]
        ok = bool(st)
        if ok:
            # on every path on which the guard is true the store precedes the parse
            par = chk.repo.mod(SHEET).parents.get(st[0].stmt)
            ok = isinstance(par, ast.If) and text(par.test) == guard and f2.body.index(par) < f2.body.index(setter[0].stmt)
        chk.ob(rid, SHEET, 'CSSStyleSheet._setCssTextWithEncodingOverride', f'{attr} is stored before the text is parsed', ok, 'imports resolved while parsing do not see it')
    f3 = chk.repo.fn(SHEET, 'CSSStyleSheet._resolveImport')
    from sa.absint import Evaluator, Obj, Raised

    sm = chk.repo.mod(SHEET)
    for label, attrs, want_parent in (
        ('while a sheet text is being parsed', {'__newEncoding': 'new', '_cssRules': [Obj(encoding='charset')]}, 'new'),
        ('parsed sheet with @charset', {'_cssRules': [Obj(encoding='charset')]}, 'charset'),
        ('parsed sheet whose first rule is no @charset', {'_cssRules': [Obj(selectorText='a')]}, None),
        ('empty sheet', {'_cssRules': []}, None),
    ):
        seen = []
        me = Obj(**{'__encodingOverride': 'ov', '_fetcher': 'the fetcher', **attrs})
        got = Evaluator(f3, intrinsics={'_readUrl': lambda url, **k: (seen.append((url, k)), ('enc', 1, 'text'))[1]}, module=sm, cls='CSSStyleSheet').run(self=me, url='u.css')
        want = [('u.css', {'fetcher': 'the fetcher', 'overrideEncoding': 'ov', 'parentEncoding': want_parent})]
        chk.ob(rid, SHEET, 'CSSStyleSheet._resolveImport', f'{label}: _readUrl gets the stored override, the sheet\'s fetcher and parent encoding {want_parent!r}; its result is returned (by evaluation)',
               seen == want and got == ('enc', 1, 'text'), f'called with {seen}, returned {got!r}')


def r08c(chk, rid='R08.c'):
    chk.rule(rid, "never drop, never raise when encoding: every .encode(...) in the serializer names the 'escapecss' error handler; that name is registered with _escapecss; the handler resumes at e.end and emits one backslash escape per character of the unencodable span")
    m = chk.repo.mod(SER)
    n = 0
    for q, fn in m.functions():
        for c in ast.walk(fn):
            if isinstance(c, ast.Call) and isinstance(c.func, ast.Attribute) and c.func.attr == 'encode' and m.enclosing_def(c) is fn:
                n += 1
                handler = const(c.args[1]) if len(c.args) > 1 else const(kw(c, 'errors'))
                chk.ob(rid, SER, q, text(c), handler == 'escapecss',
                       'strict (or another) error handling: a character the target encoding cannot represent raises UnicodeEncodeError or is dropped')
    if n < 1:
        raise AnalysisError('serialize.py: no encode call found')
    reg = [c for c in ast.walk(m.tree) if isinstance(c, ast.Call) and call_name(c) == 'codecs.register_error']
    ok = any(const(c.args[0]) == 'escapecss' and text(c.args[1]) == '_escapecss' for c in reg)
    chk.ob(rid, SER, '<module>', "'escapecss' is registered with _escapecss", ok, '')
    fe = m.get('_escapecss')
    rets = [r for r in ast.walk(fe) if isinstance(r, ast.Return)]
    ok = len(rets) == 1 and isinstance(rets[0].value, ast.Tuple) and text(rets[0].value.elts[1]) == 'e.end'
    chk.ob(rid, SER, '_escapecss', 'resumes after the unencodable span (e.end)', ok, 'characters are skipped or encoded twice')
    from sa.absint import Evaluator, Obj, Raised, Record

    n_bad = []
    for obj, a, b in (('a\xe9b', 1, 2), ('\u20ac\U0001f600x', 0, 2), ('abc', 1, 1), ('\x7f\xff', 0, 2), ('a\xe9\nb', 1, 2), ('\xe9\r\n', 0, 1), ('\xe9\f', 0, 1), ('\xe9 x', 0, 1), ('\xe9\tx', 0, 1), ('\xe9', 0, 1)):
        got = Evaluator(fe, module=m).run(e=Record(object=obj, start=a, end=b))
        want = (''.join('\\%X ' % ord(c) for c in obj[a:b]), b)
        if got != want:
            n_bad.append(f'{obj[a:b]!r} -> {got!r}, prescribed {want!r}')
    chk.ob(rid, SER, '_escapecss', 'one upper-case hex escape per character of e.object[e.start:e.end], each terminated by a space whatever follows the span - a line break behind the escape would otherwise be swallowed as its terminator on reparse; resumes at e.end (by evaluation)', not n_bad, '; '.join(n_bad))
    # target encoding of the serialised sheet
    ds = m.get('CSSSerializer.do_CSSStyleSheet')
    K = dict(NAMESPACE_RULE=10, CHARSET_RULE=2)
    cases = {'@charset first': ([Obj(type=2, encoding='utf-16-le', cssText='a', **K), Obj(type=1, cssText='b', **K)], 'a\nb'.encode('utf-16-le')),
             'no @charset': ([Obj(type=1, cssText='a', **K)], b'a'), 'empty sheet': ([], b'')}
    for label, (rules, want) in cases.items():
        me = Record(prefs=Record(keepUsedNamespaceRulesOnly=False, lineSeparator='\n', lineNumbers=False))
        sheet = Record(cssRules=rules, _getUsedURIs=lambda: set())
        got = Evaluator(ds, module=m, cls='CSSSerializer').run(self=me, stylesheet=sheet)
        chk.ob(rid, SER, 'CSSSerializer.do_CSSStyleSheet', f"{label}: the target encoding is rule 0's encoding, else UTF-8 (by evaluation)", got == want, f'{got!r}, prescribed {want!r}')


def r08d(chk, rid='R08.d'):
    chk.rule(rid, 'the encoding attribute mirrors rule 0: the getter reads only _cssRules[0].encoding with utf-8 as fall-back; the setter changes the sheet only through the @charset rule\'s own setter, deleteRule(0) or insertRule(CSSCharsetRule, 0)')
    from sa.absint import Evaluator, Obj, Raised, Record

    sm = chk.repo.mod(SHEET)
    g = chk.repo.fn(SHEET, 'CSSStyleSheet._getEncoding')
    for label, rules, want in (('@charset first', [Obj(encoding='latin-1')], 'latin-1'), ('another rule first', [Obj(selectorText='a')], 'utf-8'), ('empty sheet', [], 'utf-8')):
        got = Evaluator(g, module=sm, cls='CSSStyleSheet').run(self=Record(_cssRules=rules))
        chk.ob(rid, SHEET, 'CSSStyleSheet._getEncoding', f"{label}: rule 0's encoding or 'utf-8' (by evaluation)", got == want, f'{got!r}')
    s = chk.repo.fn(SHEET, 'CSSStyleSheet._setEncoding')
    raw = [n for n in ast.walk(s) if isinstance(n, (ast.Assign, ast.AugAssign, ast.Delete)) and any('_cssRules' in text(t) for t in (n.targets if not isinstance(n, ast.AugAssign) else [n.target]))]
    raw += [n for n in ast.walk(s) if isinstance(n, ast.Call) and isinstance(n.func, ast.Attribute) and '_cssRules' in text(n.func.value) and n.func.attr in ('insert', 'append', 'pop', 'remove', 'clear', 'extend', 'sort', 'reverse')]
    chk.ob(rid, SHEET, 'CSSStyleSheet._setEncoding', 'no raw write to the rule list', not raw, str([text(x) for x in raw]))
    K = dict(CHARSET_RULE=2)
    for first in ('charset', 'style', 'none'):
        for enc in ('latin-1', None, ''):
            log = []
            rules = {'charset': [Obj(type=2, encoding='old', **K)], 'style': [Obj(type=1, **K)], 'none': []}[first]
            me = Record(_cssRules=rules, deleteRule=lambda i: log.append(('deleteRule', i)), insertRule=lambda r, i=None, **k: log.append(('insertRule', r.encoding, i)))
            res = Evaluator(s, intrinsics={'cssutils.css.CSSCharsetRule': lambda encoding=None: Obj(type=2, encoding=encoding, **K)}, module=sm, cls='CSSStyleSheet').run(self=me, encoding=enc)
            if first == 'charset':
                want = ([], enc) if enc else ([('deleteRule', 0)], 'old')
                got = (log, rules[0].encoding)
            else:
                want = [('insertRule', enc, 0)] if enc else []
                got = log
            chk.ob(rid, SHEET, 'CSSStyleSheet._setEncoding', f'first rule {first}, encoding={enc!r}: only the @charset setter, deleteRule(0) or insertRule(@charset, 0) (by evaluation)', got == want and not isinstance(res, Raised), f'{got!r}, prescribed {want!r}')


def r08e(chk, rid='R08.e'):
    chk.rule(rid, 'an @import added as text is resolved in the encoding context of the sheet, decided by evaluation: CSSStyleSheet.insertRule is evaluated on its syntax tree up to the point where it hands the text to its temporary sheet (a model that records what it is given), for a sheet that starts with an @charset rule and rule texts that hold an @import in every spelling CSS allows - lower case, upper case, with an escape, behind white space, a line break or a comment: the temporary sheet is given the @charset rule of the sheet in front of the text, and the namespaces of the sheet; a text that is itself an @charset rule is given alone')
    chk.assume('R08.e: the temporary sheet is a model that records the text it is asked to parse; the evaluation stops there')
    from sa.absint import Evaluator, Obj, Raised, Record

    m = chk.repo.mod(SHEET)
    fn = m.get('CSSStyleSheet.insertRule')

    class Stop(Exception):
        pass

    class L(list):
        @property
        def length(self):
            return len(self)

    charset = Obj(type=1, CHARSET_RULE=1, cssText='@charset "iso-8859-1";', encoding='iso-8859-1', wellformed=True)
    texts = ['@import "x.css";', '@IMPORT "x.css";', '@im\\port "x.css";', ' @import "x.css";', '\n@import url(x.css);', '/*c*/@import "x.css";', '@import"x.css";']
    n = 0
    for rule_text in texts + ['@charset "utf-8";']:
        given = []

        class Temp(Obj):
            def __init__(self, **k):
                Obj.__init__(self, args=k, _ownerNode=None, _fetcher=None)

            @property
            def cssText(self):
                return None

            @cssText.setter
            def cssText(self, v):
                given.append(v)
                raise Stop()

        me = Obj(_checkReadonly=lambda: None, _cssRules=L([charset]), href='h', media='m', title='t', parentStyleSheet=None, ownerRule=None, ownerNode=None, _fetcher='F', _namespaces='NS',
                 _log=Record(error=lambda *a, **k: None))
        try:
            res = Evaluator(fn, intrinsics={'CSSStyleSheet': Temp, 'self._log.error': me._log.error}, module=m, cls='CSSStyleSheet', model_types=(L,)).run(self=me, rule=rule_text, index=None)
        except Stop:
            res = None
        if isinstance(res, Raised) or len(given) != 1:
            raise AnalysisError(f'CSSStyleSheet.insertRule: the text branch did not reach its temporary sheet ({res!r}, {given})')
        v = given[0]
        txt, ns = (v if isinstance(v, tuple) else (v, None))
        n += 1
        if rule_text.startswith('@charset'):
            chk.ob(rid, SHEET, 'CSSStyleSheet.insertRule', 'a new @charset rule is parsed alone', txt == rule_text, f'the temporary sheet is given {txt!r}')
        else:
            chk.ob(rid, SHEET, 'CSSStyleSheet.insertRule', f'{rule_text!r}: the import is parsed behind the @charset rule of the sheet, with its namespaces', txt == charset.cssText + rule_text and ns == 'NS',
                   f'the temporary sheet is given {txt!r} (namespaces {ns!r}): the imported sheet is decoded as if the referring sheet had no encoding - utf-8 instead of the encoding of the sheet it is imported into')
    chk.extra['import_text_cases'] = n
